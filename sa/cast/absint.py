"""Sparse conditional constant propagation over the statement CFG with a
flat-constant x known-bits ("bit provenance") domain and C integer semantics.

This is a dataflow analysis, not an execution of cffi: memory is not modelled,
calls are opaque unless the checker supplies an abstract summary, states are
joined at merge points, and unknown conditions propagate to both successors.
Checkers instantiate the *parameters* of a function (e.g. a bit-field's width,
shift and storage size) from a finite lattice derived from the code's own
guards and read back the abstract values at chosen program points.
"""
from . import cx

MASK64 = (1 << 64) - 1

_TYPES = {
    'char': (8, True), 'signed char': (8, True), 'unsigned char': (8, False),
    'short': (16, True), 'unsigned short': (16, False),
    'int': (32, True), 'unsigned int': (32, False), 'unsigned': (32, False),
    'long': (64, True), 'unsigned long': (64, False),
    'long long': (64, True), 'unsigned long long': (64, False),
    '_Bool': (8, False), 'bool': (8, False),
    'Py_ssize_t': (64, True), 'ssize_t': (64, True), 'size_t': (64, False), 'Py_hash_t': (64, True),
    'intptr_t': (64, True), 'uintptr_t': (64, False), 'ptrdiff_t': (64, True),
    'int8_t': (8, True), 'uint8_t': (8, False), 'int16_t': (16, True), 'uint16_t': (16, False),
    'int32_t': (32, True), 'uint32_t': (32, False), 'int64_t': (64, True), 'uint64_t': (64, False),
    'wchar_t': (32, True), 'cffi_char16_t': (16, False), 'cffi_char32_t': (32, False),
    'Py_UCS4': (32, False), 'Py_UCS2': (16, False), 'Py_UCS1': (8, False),
    '__int128': (128, True), 'unsigned __int128': (128, False),
    'ffi_arg': (64, False), 'ffi_sarg': (64, True),
}


def ctype(t):
    """(bits, signed) of a C integer type string, or None"""
    if not t:
        return None
    t = t.replace('const ', '').replace('volatile ', '').strip()
    if t.endswith(' const'):
        t = t[:-6]
    if t in _TYPES:
        return _TYPES[t]
    if t.startswith('enum '):
        return (32, False)
    if t in ('char *', 'unsigned char *', 'signed char *'):
        return (64, False)      # byte pointers: address arithmetic with scale 1 (other pointers are not modelled)
    return None


def node_type(n):
    return ctype(n.get('dtype')) or ctype(n.get('type'))


class Con:
    """a known integer of a known C type"""
    __slots__ = ('v', 'bits', 'signed')

    def __init__(self, v, bits=32, signed=True):
        self.bits = bits
        self.signed = signed
        self.v = wrap(v, bits, signed)

    def __eq__(self, o):
        return isinstance(o, Con) and (self.v, self.bits, self.signed) == (o.v, o.bits, o.signed)

    def __hash__(self):
        return hash((self.v, self.bits, self.signed))

    def __repr__(self):
        return 'Con(%d:%s%d)' % (self.v, 'i' if self.signed else 'u', self.bits)


class Sym:
    """known-bits value: blist[i] in {0, 1, (origin, index), None=unknown}"""
    __slots__ = ('b', 'bits', 'signed')

    def __init__(self, blist, bits, signed):
        self.b = tuple(blist[:bits]) + (0,) * max(0, bits - len(blist))
        self.bits = bits
        self.signed = signed

    def __eq__(self, o):
        return isinstance(o, Sym) and (self.b, self.bits, self.signed) == (o.b, o.bits, o.signed)

    def __hash__(self):
        return hash((self.b, self.bits, self.signed))

    def __repr__(self):
        return 'Sym(%s)' % (self.b,)


TOP = None


def wrap(v, bits, signed):
    v &= (1 << bits) - 1
    if signed and v >> (bits - 1):
        v -= 1 << bits
    return v


def fresh(origin, bits, signed):
    return Sym([(origin, i) for i in range(bits)], bits, signed)


def to_bits(x):
    if isinstance(x, Con):
        u = x.v & ((1 << x.bits) - 1)
        return [(u >> i) & 1 for i in range(x.bits)]
    return list(x.b)


def convert(x, bits, signed):
    """C integer conversion to a type of the given width/signedness"""
    if x is TOP:
        return TOP
    if isinstance(x, Con):
        return Con(x.v, bits, signed)
    b = list(x.b)
    if bits > x.bits:
        ext = b[-1] if x.signed else 0
        b = b + [ext] * (bits - x.bits)
    else:
        b = b[:bits]
    return simplify(Sym(b, bits, signed))


def simplify(s):
    if isinstance(s, Sym) and all(bit in (0, 1) for bit in s.b):
        v = sum(bit << i for i, bit in enumerate(s.b))
        return Con(v, s.bits, s.signed)
    return s


class Events:
    def __init__(self):
        self.shifts = []     # (node, amount or None, width, ok)
        self.divs = []


class Interp:
    def __init__(self, cfg, env0=None, call_hooks=None, const_vars=None):
        self.g = cfg
        self.env0 = dict(env0 or {})
        self.hooks = call_hooks or {}
        self.events = Events()
        self.in_state = {}
        self.returns = {}      # node id -> abstract return value
        self.call_args = {}    # call node id -> list of abstract args (last evaluation, joined)
        self.const_vars = const_vars or {}

    # ---- expressions -------------------------------------------------------
    def ev(self, e, env):
        if e is None:
            return TOP
        k = e.get('kind')
        ks = cx.kids(e)
        if k in ('ParenExpr', 'ConstantExpr'):
            return self.ev(ks[0], env)
        if k == 'ImplicitCastExpr' or k == 'CStyleCastExpr':
            v = self.ev(ks[0], env)
            ck = e.get('castKind')
            if ck in ('LValueToRValue', 'NoOp', 'FunctionToPointerDecay', 'ArrayToPointerDecay', 'BitCast'):
                return v
            if ck in ('IntegralCast', 'IntegralToBoolean'):
                t = node_type(e)
                if t is None or v is TOP:
                    return TOP
                if ck == 'IntegralToBoolean':
                    if isinstance(v, Con):
                        return Con(1 if v.v != 0 else 0, *t)
                    return TOP
                return convert(v, *t)
            if ck in ('NullToPointer', 'IntegralToPointer', 'PointerToIntegral'):
                return v
            return TOP
        if k == 'IntegerLiteral' or k == 'CharacterLiteral':
            t = node_type(e) or (32, True)
            return Con(int(e['value']), *t)
        if k == 'UnaryExprOrTypeTraitExpr' and e.get('name') == 'sizeof':
            at = e.get('argType')
            ts = at.get('qualType') if isinstance(at, dict) else at
            if ts is None and ks:
                ts = ks[0].get('dtype') or ks[0].get('type')
            t = ctype(ts)
            if t is None and isinstance(at, dict) and at.get('desugaredQualType'):
                ts = at['desugaredQualType']      # a typedef name: use what it stands for
                t = ctype(ts)
            if t:
                return Con(t[0] // 8, 64, False)
            if ts and ts.endswith('*'):
                return Con(8, 64, False)
            return TOP
        if k in ('DeclRefExpr', 'MemberExpr', 'ArraySubscriptExpr'):
            key = cx.render(e)
            if key in env:
                return env[key]
            if k == 'ArraySubscriptExpr' and len(ks) == 2:
                iv = self.ev(ks[1], env)
                if isinstance(iv, Con):
                    key2 = '%s[%d]' % (cx.render(ks[0]), iv.v)
                    if key2 in env:
                        return env[key2]
            if k == 'DeclRefExpr' and e.get('ref', {}).get('kind') == 'EnumConstantDecl':
                return TOP
            return TOP
        if k == 'UnaryOperator':
            op = e.get('opcode')
            if op in ('++', '--'):
                key = cx.render(ks[0])
                old = self.ev(ks[0], env)
                t = node_type(ks[0])
                if isinstance(old, Con) and t:
                    new = Con(old.v + (1 if op == '++' else -1), *t)
                else:
                    new = TOP
                self.assign(key, new, env)
                return old if e.get('isPostfix') else new
            if op == '&':
                self.kill(cx.render(ks[0]), env)
                return TOP
            if op == '*':
                key = cx.render(e)
                return env.get(key, TOP)
            v = self.ev(ks[0], env)
            t = node_type(e)
            if v is TOP or t is None:
                return TOP
            if op == '-':
                return Con(-v.v, *t) if isinstance(v, Con) else TOP
            if op == '+':
                return convert(v, *t)
            if op == '~':
                if isinstance(v, Con):
                    return Con(~v.v, *t)
                return simplify(Sym([bit_not(b) for b in v.b], v.bits, v.signed))
            if op == '!':
                return Con(0 if v.v else 1, 32, True) if isinstance(v, Con) else TOP
            return TOP
        if k in ('BinaryOperator', 'CompoundAssignOperator'):
            return self.binop(e, env)
        if k == 'ConditionalOperator':
            c = self.ev(ks[0], env)
            if isinstance(c, Con):
                return self.ev(ks[1] if c.v else ks[2], env)
            e1, e2 = dict(env), dict(env)
            a = self.ev(ks[1], e1)
            b = self.ev(ks[2], e2)
            merged = join(e1, e2)
            env.clear()
            env.update(merged)
            return a if a == b else TOP
        if k == 'CallExpr':
            name = cx.callee_name(e)
            args = [self.ev(a, env) for a in ks[1:]]
            prev = self.call_args.get(e['id'])
            self.call_args[e['id']] = args if prev is None else [a if a == b else TOP for a, b in zip(args, prev)]
            if name in self.hooks:
                h = self.hooks[name]
                if getattr(h, 'wants_env', False):
                    return h(args, e, env)      # a hook that models a side effect on the abstract state
                return h(args, e)
            return TOP
        if k == 'StmtExpr':
            return TOP
        return TOP

    def binop(self, e, env):
        op = e.get('opcode')
        a, b = cx.kids(e)
        if op == '=':
            v = self.ev(b, env)
            t = node_type(a)
            if v is not TOP and t is not None:
                v = convert(v, *t)
            self.assign(cx.render(a), v, env)
            return v
        if op == ',':
            self.ev(a, env)
            return self.ev(b, env)
        if op == '&&' or op == '||':
            x = self.ev(a, env)
            if isinstance(x, Con):
                if (op == '&&') == (x.v == 0):
                    return Con(0 if op == '&&' else 1, 32, True)
                y = self.ev(b, env)
                return Con(1 if y.v else 0, 32, True) if isinstance(y, Con) else TOP
            e2 = dict(env)
            self.ev(b, e2)
            m = join(env, e2)
            env.clear()
            env.update(m)
            return TOP
        compound = e.get('kind') == 'CompoundAssignOperator'
        if compound:
            bop = op[:-1]
            x = self.ev(a, env)
            y = self.ev(b, env)
            ct = ctype(e.get('computeResultType')) or node_type(e)
            if x is not TOP and ct:
                x = convert(x, *ct)
            r = self.arith(bop, x, y, ct, e)
            t = node_type(a)
            if r is not TOP and t:
                r = convert(r, *t)
            self.assign(cx.render(a), r, env)
            return r
        x = self.ev(a, env)
        y = self.ev(b, env)
        t = node_type(e)
        if op in ('<<', '>>'):
            t = node_type(e) or node_type(a)
        return self.arith(op, x, y, t, e, operand_type=node_type(a))

    def arith(self, op, x, y, t, node, operand_type=None):
        if op in ('<<', '>>'):
            width = t[0] if t else None
            if isinstance(y, Con) and width:
                ok = 0 <= y.v < width
                self.events.shifts.append((node, y.v, width, ok))
                if not ok:
                    return TOP
                if x is TOP:
                    return TOP
                if isinstance(x, Con):
                    if op == '<<':
                        return Con(x.v << y.v, *t)
                    return Con(x.v >> y.v, *t)     # arithmetic for signed (gcc), logical for unsigned
                bl = list(x.b) + [x.b[-1] if x.signed else 0] * max(0, width - x.bits)
                bl = bl[:width]
                if op == '<<':
                    nb = [0] * y.v + bl[:width - y.v]
                else:
                    fill = bl[-1] if t[1] else 0
                    nb = bl[y.v:] + [fill] * y.v
                return simplify(Sym(nb, *t))
            self.events.shifts.append((node, None, width, False))
            return TOP
        if op in ('&', '|', '^') and t and x is not TOP and y is not TOP and \
                (isinstance(x, Sym) or isinstance(y, Sym)):
            xb, yb = to_bits(convert(x, *t)), to_bits(convert(y, *t))
            return simplify(Sym([bit_op(op, p, q) for p, q in zip(xb, yb)], *t))
        if op in ('&', '|') and t:
            # absorbing elements even when the other side is unknown
            for u, w in ((x, y), (y, x)):
                if isinstance(u, Con) and w is TOP:
                    if op == '&' and u.v == 0:
                        return Con(0, *t)
        if not (isinstance(x, Con) and isinstance(y, Con)):
            return TOP
        if op in ('<', '<=', '>', '>=', '==', '!='):
            r = {'<': x.v < y.v, '<=': x.v <= y.v, '>': x.v > y.v, '>=': x.v >= y.v,
                 '==': x.v == y.v, '!=': x.v != y.v}[op]
            return Con(1 if r else 0, 32, True)
        if t is None:
            return TOP
        if op == '+':
            return Con(x.v + y.v, *t)
        if op == '-':
            return Con(x.v - y.v, *t)
        if op == '*':
            return Con(x.v * y.v, *t)
        if op in ('/', '%'):
            if y.v == 0:
                self.events.divs.append(node)
                return TOP
            q = abs(x.v) // abs(y.v)
            if (x.v < 0) != (y.v < 0):
                q = -q
            return Con(q if op == '/' else x.v - q * y.v, *t)
        if op == '&':
            return Con(x.v & y.v, *t)
        if op == '|':
            return Con(x.v | y.v, *t)
        if op == '^':
            return Con(x.v ^ y.v, *t)
        return TOP

    def assign(self, key, v, env):
        self.kill(key, env)
        if v is not TOP:
            env[key] = v

    def kill(self, key, env):
        for k in list(env):
            if k == key or k.startswith(key + '->') or k.startswith(key + '.') or k.startswith(key + '['):
                if k in self.const_vars:
                    continue
                del env[k]

    # ---- dataflow ------------------------------------------------------------
    def run(self):
        g = self.g
        self.in_state = {g.entry.id: dict(self.env0)}
        work = [g.entry.id]
        count = 0
        while work:
            nid = work.pop()
            count += 1
            if count > 200000:
                break
            n = g.nodes[nid]
            env = dict(self.in_state[nid])
            outs = self.transfer(n, env)
            for tgt, st in outs:
                old = self.in_state.get(tgt)
                new = st if old is None else join(old, st)
                if old is None or new != old:
                    self.in_state[tgt] = new
                    work.append(tgt)
        return self

    def run_from(self, start_id, env, stop_ids):
        """propagate from `start_id` with the given state; nodes in `stop_ids` are not executed: the
        state reaching them is recorded in in_state (used to evaluate one pass through a region, e.g.
        one loop iteration as a state transformer)"""
        g = self.g
        stop_ids = set(stop_ids)
        self.in_state = {start_id: dict(env)}
        work = [start_id]
        count = 0
        while work:
            nid = work.pop()
            count += 1
            if count > 200000:
                break
            if nid in stop_ids:
                continue
            n = g.nodes[nid]
            outs = self.transfer(n, dict(self.in_state[nid]))
            for tgt, st in outs:
                old = self.in_state.get(tgt)
                new = st if old is None else join(old, st)
                if old is None or new != old:
                    self.in_state[tgt] = new
                    work.append(tgt)
        return self

    def transfer(self, n, env):
        k = n.kind
        if k == 'cond':
            v = self.ev(n.ast, env)
            outs = []
            for t, l in n.succ:
                if isinstance(v, Con) and ((l == 'T') != (v.v != 0)):
                    continue
                outs.append((t, dict(env)))
            return outs
        if k == 'switch':
            v = self.ev(n.ast, env)
            outs = []
            taken = False
            default = None
            for t, l in n.succ:
                if l[0] == 'default':
                    default = t
                    continue
                if isinstance(v, Con):
                    cn = self.g.nodes[t]
                    cv = self.ev(cn.ast, dict(env)) if cn.ast is not None else TOP
                    if isinstance(cv, Con) and cv.v != v.v:
                        continue
                    taken = taken or isinstance(cv, Con)
                outs.append((t, dict(env)))
            if default is not None and not (isinstance(v, Con) and taken):
                outs.append((default, dict(env)))
            return outs
        if k == 'return':
            ks = cx.kids(n.ast)
            v = self.ev(ks[0], env) if ks else TOP
            old = self.returns.get(n.id, v)
            self.returns[n.id] = v if v == old else TOP
        elif k in ('stmt',) and n.ast is not None:
            a = n.ast
            if a.get('kind') == 'DeclStmt':
                for d in cx.kids(a):
                    if d.get('kind') == 'VarDecl':
                        ks = cx.kids(d)
                        self.kill(d['name'], env)
                        if d.get('init') and ks:
                            v = self.ev(ks[-1], env)
                            t = node_type(d)
                            if v is not TOP and t:
                                v = convert(v, *t)
                            if v is not TOP:
                                env[d['name']] = v
            elif cx.is_expr(a):
                self.ev(a, env)
        return [(t, dict(env)) for t, _l in n.succ]

    def state_at(self, nid):
        return self.in_state.get(nid)


def bit_not(b):
    if b in (0, 1):
        return 1 - b
    if b is None:
        return None
    if isinstance(b, tuple) and b[0] == 'not':
        return b[1]
    return ('not', b)


def bit_op(op, p, q):
    """per-bit boolean expression: 0, 1, (origin, index) variables, ('not', e), (op, e, e); None = unknown"""
    if op == '&':
        if p == 0 or q == 0:
            return 0
        if p == 1:
            return q
        if q == 1:
            return p
    elif op == '|':
        if p == 1 or q == 1:
            return 1
        if p == 0:
            return q
        if q == 0:
            return p
    else:
        if p == 0:
            return q
        if q == 0:
            return p
        if p == 1:
            return bit_not(q)
        if q == 1:
            return bit_not(p)
    if p is None or q is None:
        return None
    if p == q:
        return p if op in ('&', '|') else 0
    return (op, p, q)


def bit_vars(b, acc):
    if isinstance(b, tuple):
        if b[0] in ('not', '&', '|', '^'):
            for x in b[1:]:
                bit_vars(x, acc)
        else:
            acc.add(b)


def bit_eval(b, asg):
    if b in (0, 1):
        return b
    if b[0] == 'not':
        return 1 - bit_eval(b[1], asg)
    if b[0] == '&':
        return bit_eval(b[1], asg) & bit_eval(b[2], asg)
    if b[0] == '|':
        return bit_eval(b[1], asg) | bit_eval(b[2], asg)
    if b[0] == '^':
        return bit_eval(b[1], asg) ^ bit_eval(b[2], asg)
    return asg[b]


def bit_has_unknown(b):
    if b is None:
        return True
    if isinstance(b, tuple) and b[0] in ('not', '&', '|', '^'):
        return any(bit_has_unknown(x) for x in b[1:])
    return False


def bit_equiv(a, b):
    """True / False if the two per-bit boolean functions are equal / differ; None if undecidable here"""
    if bit_has_unknown(a) or bit_has_unknown(b):
        return None
    vs = set()
    bit_vars(a, vs)
    bit_vars(b, vs)
    vs = sorted(vs, key=repr)
    if len(vs) > 10:
        return None
    for m in range(1 << len(vs)):
        asg = {v: (m >> i) & 1 for i, v in enumerate(vs)}
        if bit_eval(a, asg) != bit_eval(b, asg):
            return False
    return True


def word_equiv(word, want_bits):
    """compare an abstract word with the expected per-bit functions: 'equal' | 'differs' | 'undecided'"""
    if word is TOP:
        return 'undecided', None
    wb = to_bits(word)
    und = None
    for i, (p, q) in enumerate(zip(wb, want_bits)):
        r = bit_equiv(p, q)
        if r is False:
            return 'differs', i
        if r is None:
            und = i
    if und is not None:
        return 'undecided', und
    return 'equal', None


def join(a, b):
    return {k: v for k, v in a.items() if k in b and b[k] == v}
