"""E1 loader: clang JSON AST of a translation unit -> compact, location-resolved tree.

Nothing of cffi is executed; clang is used as a parser/type-checker only
(-fsyntax-only).  The compact tree is cached under /verif/.cache keyed by a
digest of every file the preprocessor can see under the repository plus the
flags, so a changed working tree always gives a fresh parse.
"""
import hashlib
import json
import os
import pickle
import subprocess
import sys
import sysconfig
import tempfile

from .. import AnalysisError

VERIF = os.path.dirname(os.path.dirname(os.path.dirname(os.path.abspath(__file__))))
CACHE = os.path.join(VERIF, '.cache')


def repo_root():
    return os.path.abspath(os.environ.get('VERIF_REPO', '/repo'))


def py_include():
    # the interpreter that builds the extension in this sandbox
    inc = sysconfig.get_paths()['include']
    if not os.path.exists(os.path.join(inc, 'Python.h')):
        inc = '/root/.pyenv/versions/3.12.1/include/python3.12'
    return inc


BACKEND_FLAGS = ['-DFFI_BUILDING=1', '-DUSE__THREAD', '-DHAVE_SYNC_SYNCHRONIZE', '-DNDEBUG']

KEEP_KEYS = ('kind', 'name', 'opcode', 'value', 'castKind', 'isArrow', 'storageClass',
             'tls', 'isPostfix', 'tagUsed', 'completeDefinition', 'isBitfield',
             'init', 'argType', 'isUsed', 'hasElse', 'inline', 'isImplicit')


class SrcFiles:
    """Reads source text by (file, offset, length) for construct keys."""

    def __init__(self):
        self._c = {}

    def text(self, path):
        if path not in self._c:
            try:
                with open(path, 'rb') as f:
                    self._c[path] = f.read()
            except OSError:
                self._c[path] = b''
        return self._c[path]


class _Resolver:
    """Resolves clang's delta-compressed source locations in document order."""

    def __init__(self):
        self.file = None
        self.line = None

    def bare(self, d):
        if 'file' in d:
            self.file = d['file']
        if 'line' in d:
            self.line = d['line']
        return (self.file, self.line, d.get('col'), d.get('offset'), d.get('tokLen'))

    def loc(self, d):
        """returns the *expansion* position (file, line, col, offset, toklen)"""
        if not d:
            return None
        if 'spellingLoc' in d or 'expansionLoc' in d:
            sp = ex = None
            # document order: spellingLoc is written first
            for k, v in d.items():
                if k == 'spellingLoc':
                    sp = self.bare(v)
                elif k == 'expansionLoc':
                    ex = self.bare(v)
            r = ex or sp
            return r + (True,)
        if 'offset' in d:
            return self.bare(d) + (False,)
        return None


def _compact(node, rs, keep_pred, depth=0):
    """Walk in document order, resolving locations; returns compact dict or None."""
    out = {}
    loc = None
    b = e = None
    inner = None
    for k, v in node.items():
        if k == 'loc':
            loc = rs.loc(v)
        elif k == 'range':
            for kk, vv in v.items():
                if kk == 'begin':
                    b = rs.loc(vv)
                elif kk == 'end':
                    e = rs.loc(vv)
        elif k == 'inner':
            inner = v
        elif k == 'type':
            out['type'] = v.get('qualType')
            if 'desugaredQualType' in v:
                out['dtype'] = v['desugaredQualType']
        elif k == 'referencedDecl':
            out['ref'] = {'id': v.get('id'), 'kind': v.get('kind'), 'name': v.get('name'),
                          'type': (v.get('type') or {}).get('qualType')}
        elif k == 'id':
            out['id'] = v
        elif k == 'referencedMemberDecl':
            out['memberDecl'] = v
        elif k in ('targetLabelDeclId', 'declId', 'previousDecl', 'ownedTagDecl'):
            out[k] = v if not isinstance(v, dict) else v.get('id')
        elif k in KEEP_KEYS:
            out[k] = v
        elif k == 'computeLHSType' or k == 'computeResultType':
            out[k] = v.get('qualType')
    pos = loc or b
    if pos:
        out['file'], out['line'], out['col'] = pos[0], pos[1], pos[2]
    if b and e and b[0] == e[0] and b[3] is not None and e[3] is not None:
        out['off'] = (b[3], e[3] + (e[4] or 0))
        out['macro'] = bool(b[5] or e[5])
    if depth == 0:
        keep = keep_pred(out)
    else:
        keep = True
    if inner is not None:
        kids = []
        for ch in inner:
            if not ch:      # empty dict = absent optional child (ForStmt slots...)
                kids.append(None)
                continue
            c = _compact(ch, rs, keep_pred, depth + 1)
            if keep:
                kids.append(c)
        if keep:
            out['inner'] = kids
    return out if keep else None


def _digest(paths, extra):
    h = hashlib.sha256()
    for p in sorted(paths):
        h.update(p.encode())
        try:
            with open(p, 'rb') as f:
                h.update(f.read())
        except OSError:
            h.update(b'<missing>')
    h.update(repr(extra).encode())
    h.update(b'loader-v5')
    return h.hexdigest()[:24]


def repo_c_files(root=None):
    root = root or repo_root()
    out = []
    for sub in ('src/c', 'src/cffi'):
        d = os.path.join(root, sub)
        if not os.path.isdir(d):
            continue
        for fn in sorted(os.listdir(d)):
            if fn.endswith(('.c', '.h')):
                out.append(os.path.join(d, fn))
    return out


class TU:
    """A parsed translation unit restricted to declarations located in repo files."""

    def __init__(self, decls, root, macros=None):
        self.decls = decls
        self.root = root
        self.macros = macros or {}
        self.src = SrcFiles()
        self.functions = {}
        self.vars = {}
        self.records = {}
        self.enums = {}
        self.typedefs = {}
        self.by_id = {}
        for d in decls:
            k = d.get('kind')
            if k == 'FunctionDecl':
                has_body = any(c and c.get('kind') == 'CompoundStmt' for c in d.get('inner', []))
                if has_body or d.get('name') not in self.functions:
                    self.functions[d['name']] = d
            elif k == 'VarDecl':
                # keep the definition (one with an initialiser) if several
                old = self.vars.get(d['name'])
                if old is None or ('init' in d and 'init' not in old) or d.get('inner'):
                    self.vars[d['name']] = d
            elif k == 'RecordDecl':
                if d.get('completeDefinition') and d.get('name'):
                    self.records[d['name']] = d
            elif k == 'EnumDecl':
                self.enums[d.get('name') or d['id']] = d
            elif k == 'TypedefDecl':
                self.typedefs[d['name']] = d
        for d in decls:
            self._index(d)
        # local names are relabelled with those of the reference tree, by declaration (see sa/alpha.py)
        from .. import alpha
        for name, f in self.functions.items():
            if body(f) is not None:
                fl = f.get('file') or ''
                alpha.normalise_c(f, name, recordable=fl.startswith(root + '/') or fl == '<vengine_hdr>')
        alpha.flush()

    def _index(self, n):
        i = n.get('id')
        if i:
            self.by_id[i] = n
        for c in n.get('inner', ()):
            if c:
                self._index(c)

    # ---- accessors -------------------------------------------------------
    def func(self, name):
        f = self.functions.get(name)
        if f is None or body(f) is None:
            raise AnalysisError('anchor vanished: C function %r not found (with a body) in the TU' % name)
        return f

    def has_func(self, name):
        f = self.functions.get(name)
        return f is not None and body(f) is not None

    def var(self, name):
        v = self.vars.get(name)
        if v is None:
            raise AnalysisError('anchor vanished: C file-scope variable %r not found' % name)
        return v

    def text(self, n):
        """source text of the node at its expansion site (macro names preserved)"""
        if not n or 'off' not in n or not n.get('file'):
            return None
        a, b = n['off']
        t = self.src.text(n['file'])[a:b]
        return ' '.join(t.decode('utf8', 'replace').split())

    def where(self, n):
        f = n.get('file') or '?'
        if f.startswith(self.root + '/'):
            f = f[len(self.root) + 1:]
        return '%s:%s' % (f, n.get('line'))

    def rel(self, path):
        if path and path.startswith(self.root + '/'):
            return path[len(self.root) + 1:]
        return path


def body(fn):
    for c in fn.get('inner', []):
        if c and c.get('kind') == 'CompoundStmt':
            return c
    return None


def params(fn):
    return [c for c in fn.get('inner', []) if c and c.get('kind') == 'ParmVarDecl']


def read_macros(src_or_path, flags, is_text=False, cwd=None):
    """object-like and function-like macro bodies as the preprocessor sees them"""
    cmd = ['clang', '-E', '-dM'] + flags
    if is_text:
        cmd += ['-x', 'c', '-']
        p = subprocess.run(cmd, input=src_or_path.encode(), capture_output=True, cwd=cwd)
    else:
        cmd += [src_or_path]
        p = subprocess.run(cmd, capture_output=True, cwd=cwd)
    if p.returncode != 0:
        raise AnalysisError('clang -E -dM failed: %s' % p.stderr.decode()[-400:])
    macros = {}
    for line in p.stdout.decode('utf8', 'replace').splitlines():
        if not line.startswith('#define '):
            continue
        rest = line[8:]
        # NAME(args) body | NAME body
        i = 0
        while i < len(rest) and (rest[i].isalnum() or rest[i] == '_'):
            i += 1
        name = rest[:i]
        if i < len(rest) and rest[i] == '(':
            j = rest.index(')', i)
            args = [a.strip() for a in rest[i + 1:j].split(',')] if j > i + 1 else []
            macros[name] = (args, rest[j + 1:].strip())
        else:
            macros[name] = (None, rest[i:].strip())
    return macros


def parse_tu(source, flags, root=None, is_text=False, keep_files=None, tag='tu',
             digest_paths=None, want_macros=True, virtual_name=None):
    """Parse `source` (a path, or C text if is_text) with clang and return a TU.

    keep_files: predicate on absolute file path deciding which top-level
    declarations are kept (default: files under the repository root, plus the
    virtual main file when is_text).
    """
    root = root or repo_root()
    digest_paths = digest_paths if digest_paths is not None else repo_c_files(root)
    key = _digest(digest_paths, (source if is_text else os.path.abspath(source), flags, root, tag))
    os.makedirs(CACHE, exist_ok=True)
    cpath = os.path.join(CACHE, '%s-%s.pkl' % (tag, key))
    use_cache = root == '/repo' and not os.environ.get('VERIF_NOCACHE')
    if use_cache and os.path.exists(cpath):
        try:
            with open(cpath, 'rb') as f:
                decls, macros = pickle.load(f)
            tu = TU(decls, root, macros)
            if is_text:
                tu.src._c['<%s>' % tag] = source.encode()
            return tu
        except Exception:
            pass
    tmpdir = tempfile.mkdtemp(prefix='verif-sa-', dir=os.environ.get('VERIF_TMP', '/var/tmp'))
    try:
        if is_text:
            main = os.path.join(tmpdir, virtual_name or 'main.c')
            with open(main, 'w') as f:
                f.write(source)
        else:
            main = source
        out = os.path.join(tmpdir, 'ast.json')
        with open(out, 'wb') as fo:
            p = subprocess.run(['clang', '-fsyntax-only', '-Xclang', '-ast-dump=json', '-w'] + flags + [main],
                               stdout=fo, stderr=subprocess.PIPE)
        if p.returncode != 0:
            raise AnalysisError('clang could not parse %s: %s' % (main if not is_text else tag,
                                                                    p.stderr.decode('utf8', 'replace')[-800:]))
        with open(out, 'rb') as f:
            doc = json.load(f)
        macros = read_macros(main, flags) if want_macros else {}
        if keep_files is None:
            def keep_files(path, _root=root, _main=main):
                return path is not None and (path.startswith(_root + '/') or path == _main)
        rs = _Resolver()

        def keep_pred(o):
            return keep_files(o.get('file'))
        sys.setrecursionlimit(max(sys.getrecursionlimit(), 20000))
        decls = []
        for d in doc.get('inner', []):
            c = _compact(d, rs, keep_pred)
            if c is not None:
                if is_text and c.get('file') == main:
                    c['file'] = '<%s>' % tag
                decls.append(c)
        del doc
        if is_text:
            _rename_file(decls, main, '<%s>' % tag)
    finally:
        import shutil
        shutil.rmtree(tmpdir, ignore_errors=True)
    try:
        if not use_cache:
            raise OSError('cache disabled')
        _prune_cache(tag)
        tmp = cpath + '.%d.tmp' % os.getpid()
        with open(tmp, 'wb') as f:
            pickle.dump((decls, macros), f, protocol=pickle.HIGHEST_PROTOCOL)
        os.replace(tmp, cpath)
    except OSError:
        pass
    tu = TU(decls, root, macros)
    if is_text:
        tu.src._c['<%s>' % tag] = source.encode()
    return tu


def _prune_cache(tag, keep=3):
    try:
        fs = sorted((os.path.getmtime(os.path.join(CACHE, f)), f) for f in os.listdir(CACHE)
                    if f.startswith(tag + '-') and f.endswith('.pkl'))
        for _t, f in fs[:-keep]:
            os.unlink(os.path.join(CACHE, f))
    except OSError:
        pass


def _rename_file(nodes, old, new):
    stack = list(nodes)
    while stack:
        n = stack.pop()
        if n is None:
            continue
        if n.get('file') == old:
            n['file'] = new
        stack.extend(c for c in n.get('inner', ()) if c)


_backend = {}


def backend_tu(root=None):
    root = root or repo_root()
    if root not in _backend:
        src = os.path.join(root, 'src/c/_cffi_backend.c')
        if not os.path.exists(src):
            raise AnalysisError('anchor vanished: %s' % src)
        flags = BACKEND_FLAGS + ['-I' + py_include()]
        _backend[root] = parse_tu(src, flags, root=root, tag='backend')
    return _backend[root]


WRAPPER_SRC = r'''
#define _CFFI_USE_EMBEDDING
#include "_cffi_include.h"
#define _CFFI_MODULE_NAME "verif_probe"
static const char _CFFI_PYTHON_STARTUP_CODE[] = { 0 };
static const struct _cffi_type_context_s _cffi_type_context;
#define _CFFI_PYTHON_STARTUP_FUNC PyInit_verif_probe
PyMODINIT_FUNC PyInit_verif_probe(void);
#include "_embedding.h"
'''

_wrapper = {}


def wrapper_tu(root=None):
    """the headers cffi ships to generated modules, parsed under a tiny wrapper TU"""
    root = root or repo_root()
    if root not in _wrapper:
        flags = ['-I' + os.path.join(root, 'src/cffi'), '-I' + py_include(), '-DNDEBUG']
        _wrapper[root] = parse_tu(WRAPPER_SRC, flags, root=root, is_text=True, tag='wrapper',
                                  virtual_name='verif_wrapper.c')
    return _wrapper[root]
