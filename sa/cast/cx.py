"""Helpers over the compact clang AST: traversal, stripping, canonical rendering."""

TRANSPARENT = ('ImplicitCastExpr', 'ParenExpr', 'ConstantExpr')


def kids(n):
    return [c for c in n.get('inner', ()) if c]


def walk(n):
    """pre-order over a subtree"""
    stack = [n]
    while stack:
        x = stack.pop()
        if x is None:
            continue
        yield x
        stack.extend(reversed([c for c in x.get('inner', ()) if c]))


def strip(e, casts=False):
    """skip parentheses and implicit casts (and explicit casts when casts=True)"""
    while e is not None:
        k = e.get('kind')
        if k in TRANSPARENT or (casts and k == 'CStyleCastExpr'):
            ks = kids(e)
            if not ks:
                return e
            e = ks[0]
        else:
            return e
    return e


def is_expr(n):
    k = n.get('kind', '')
    return k.endswith('Expr') or k.endswith('Operator') or k.endswith('Literal') or k in (
        'CompoundAssignOperator', 'UnaryExprOrTypeTraitExpr', 'StmtExpr')


def callee_name(call):
    """name of the directly called function, or None for an indirect call"""
    ks = kids(call)
    if not ks:
        return None
    f = strip(ks[0], casts=True)
    if f.get('kind') == 'DeclRefExpr':
        return f['ref']['name']
    return None


def callee_text(call):
    """rendered callee expression (works for indirect calls: 'gs->gs_fetch_addr', '_cffi_exports[13]')"""
    ks = kids(call)
    return render(ks[0]) if ks else ''


def call_args(call):
    return kids(call)[1:]


def calls_in(n, name=None):
    out = []
    for x in walk(n):
        if x.get('kind') == 'CallExpr':
            cn = callee_name(x)
            if name is None or cn == name or (isinstance(name, (set, frozenset, tuple, list)) and cn in name):
                out.append(x)
    return out


def called_names(n):
    return {callee_name(c) for c in calls_in(n)} - {None}


def refs(n):
    """names of variables/functions referenced in the subtree"""
    return {x['ref']['name'] for x in walk(n) if x.get('kind') == 'DeclRefExpr' and x.get('ref')}


def int_value(e):
    """integer value of a literal (through casts/parens/unary minus), else None"""
    e = strip(e, casts=True)
    if e is None:
        return None
    k = e.get('kind')
    if k == 'IntegerLiteral':
        return int(e['value'])
    if k == 'CharacterLiteral':
        return int(e['value'])
    if k == 'UnaryOperator' and e.get('opcode') == '-':
        v = int_value(kids(e)[0])
        return -v if v is not None else None
    if k == 'UnaryOperator' and e.get('opcode') == '+':
        return int_value(kids(e)[0])
    return None


def is_null(e):
    """the constant NULL / 0 (possibly cast to a pointer)"""
    v = int_value(e)
    return v == 0


_PREC = {'*': 12, '/': 12, '%': 12, '+': 11, '-': 11, '<<': 10, '>>': 10, '<': 9, '<=': 9, '>': 9, '>=': 9,
         '==': 8, '!=': 8, '&': 7, '^': 6, '|': 5, '&&': 4, '||': 3, ',': 0}


def render(e, keep_casts=False):
    """Canonical C-like text of an expression: implicit casts and redundant
    parentheses dropped, macros expanded (as clang saw them).  Used for
    construct keys and structural matching, independent of layout."""
    if e is None:
        return ''
    k = e.get('kind')
    ks = kids(e)
    if k in TRANSPARENT:
        return render(ks[0], keep_casts) if ks else ''
    if k == 'CStyleCastExpr':
        if keep_casts:
            return '(%s)%s' % (e.get('type'), _atom(ks[0], keep_casts))
        return render(ks[0], keep_casts)
    if k == 'DeclRefExpr':
        return e['ref']['name'] if e.get('ref') else '?'
    if k == 'IntegerLiteral':
        return str(e.get('value'))
    if k == 'CharacterLiteral':
        return str(e.get('value'))
    if k == 'FloatingLiteral':
        return str(e.get('value'))
    if k == 'StringLiteral':
        return e.get('value', '""')
    if k == 'MemberExpr':
        return '%s%s%s' % (_atom(ks[0], keep_casts), '->' if e.get('isArrow') else '.', e.get('name'))
    if k == 'ArraySubscriptExpr':
        return '%s[%s]' % (_atom(ks[0], keep_casts), render(ks[1], keep_casts))
    if k == 'CallExpr':
        return '%s(%s)' % (_atom(ks[0], keep_casts), ', '.join(render(a, keep_casts) for a in ks[1:]))
    if k == 'UnaryOperator':
        op = e.get('opcode')
        if e.get('isPostfix'):
            return '%s%s' % (_atom(ks[0], keep_casts), op)
        return '%s%s' % (op, _atom(ks[0], keep_casts))
    if k in ('BinaryOperator', 'CompoundAssignOperator'):
        op = e.get('opcode')
        return '%s %s %s' % (_sub(ks[0], op, keep_casts), op, _sub(ks[1], op, keep_casts, right=True))
    if k == 'ConditionalOperator':
        return '%s ? %s : %s' % (_atom(ks[0], keep_casts), _atom(ks[1], keep_casts), _atom(ks[2], keep_casts))
    if k == 'UnaryExprOrTypeTraitExpr':
        if e.get('argType'):
            return '%s(%s)' % (e.get('name'), e['argType']['qualType'] if isinstance(e['argType'], dict) else e['argType'])
        return '%s(%s)' % (e.get('name'), render(ks[0], keep_casts) if ks else '')
    if k == 'InitListExpr':
        return '{%s}' % ', '.join(render(c, keep_casts) for c in ks)
    if k == 'StmtExpr':
        return '({...})'
    if k == 'OffsetOfExpr':
        return 'offsetof(...)'
    if k == 'CompoundLiteralExpr':
        return '(%s){...}' % e.get('type')
    if k == 'ImplicitValueInitExpr':
        return '0'
    if k == 'PredefinedExpr':
        return e.get('name', '__func__')
    if k == 'OpaqueValueExpr' or k == 'BinaryConditionalOperator':
        return '%s(%s)' % (k, ', '.join(render(c, keep_casts) for c in ks))
    return '<%s>' % k


def _atom(e, keep_casts):
    s = strip(e, casts=not keep_casts)
    t = render(e, keep_casts)
    if s is not None and s.get('kind') in ('BinaryOperator', 'CompoundAssignOperator', 'ConditionalOperator') \
            or (s is not None and s.get('kind') == 'UnaryOperator' and not s.get('isPostfix') and False):
        return '(%s)' % t
    if keep_casts and s is not None and s.get('kind') == 'CStyleCastExpr':
        return '(%s)' % t
    return t


def _sub(e, parent_op, keep_casts, right=False):
    s = strip(e, casts=not keep_casts)
    t = render(e, keep_casts)
    if s is None:
        return t
    k = s.get('kind')
    if k == 'ConditionalOperator':
        return '(%s)' % t
    if k in ('BinaryOperator', 'CompoundAssignOperator'):
        po = _PREC.get(parent_op, 1)
        co = _PREC.get(s.get('opcode'), 1)
        if co < po or (co == po and right) or parent_op in ('&', '|', '^', '<<', '>>') or \
                s.get('opcode') in ('&', '|', '^', '<<', '>>') and parent_op not in ('=',):
            return '(%s)' % t
    return t


ASSIGN_OPS = ('=', '+=', '-=', '*=', '/=', '%=', '<<=', '>>=', '&=', '|=', '^=')


def writes(n):
    """(rendered lvalue, node) for every assignment, ++/-- and address-taken
    argument in the subtree (an out-parameter may be written by the callee)"""
    out = []
    for x in walk(n):
        k = x.get('kind')
        if k in ('BinaryOperator', 'CompoundAssignOperator') and x.get('opcode') in ASSIGN_OPS:
            out.append((render(kids(x)[0]), x))
        elif k == 'UnaryOperator' and x.get('opcode') in ('++', '--'):
            out.append((render(kids(x)[0]), x))
        elif k == 'UnaryOperator' and x.get('opcode') == '&':
            out.append((render(kids(x)[0]), x))
        elif k == 'VarDecl':
            out.append((x.get('name'), x))
    return out


def assignments(n):
    """(lhs node, rhs node, op) for plain/compound assignments and initialised VarDecls"""
    out = []
    for x in walk(n):
        k = x.get('kind')
        if k in ('BinaryOperator', 'CompoundAssignOperator') and x.get('opcode') in ASSIGN_OPS:
            a, b = kids(x)
            out.append((a, b, x.get('opcode'), x))
        elif k == 'VarDecl' and x.get('init') and kids(x):
            out.append((x, kids(x)[-1], 'init', x))
    return out


def lhs_text(a):
    return a.get('name') if a.get('kind') == 'VarDecl' else render(a)


def root_var(e):
    """the variable at the root of an lvalue/access path (p->a.b[i] -> p)"""
    e = strip(e, casts=True)
    while e is not None:
        k = e.get('kind')
        if k == 'DeclRefExpr':
            return e['ref']['name']
        if k in ('MemberExpr', 'ArraySubscriptExpr', 'UnaryOperator', 'CallExpr'):
            ks = kids(e)
            if not ks:
                return None
            e = strip(ks[0], casts=True)
        else:
            return None
    return None


def subexprs_text(e):
    return {render(x) for x in walk(e) if is_expr(x)}
