"""Rule building blocks shared by the property checkers (path idioms of this code base)."""
from . import cx
from .cfg import cfg_of, stmt_text

ERR_SETTERS = {'PyErr_Format', 'PyErr_SetString', 'PyErr_SetObject', 'PyErr_NoMemory', 'PyErr_SetNone',
               'PyErr_BadInternalCall', 'PyErr_SetFromErrno', '_convert_overflow', '_convert_error',
               'PyErr_BadArgument', '_ffi_bad_type', 'PyErr_FormatV'}


def nonnull_facts(text):
    """fact strings that entail `text` != NULL"""
    return {'F:%s == 0' % text, 'T:%s != 0' % text, 'T:%s' % text, 'F:!%s' % text}


def null_facts(text):
    return {'T:%s == 0' % text, 'F:%s != 0' % text, 'F:%s' % text}


def return_value(node):
    """rendered value of a return node ('' for plain return)"""
    ks = cx.kids(node.ast)
    return cx.render(ks[0]) if ks else ''


def is_fail_value(txt):
    return txt in ('0', '-1', 'NULL') or txt.startswith('-')


def error_exit_ok(g, start, allowed_setters=ERR_SETTERS, include_start=False):
    """From `start`, does every path to the function exit set a Python error?
    Returns (ok, witness path) -- witness is a path reaching exit with no setter."""
    setters = {n.id for n in g.nodes if n.ast is not None and
               any(cx.callee_name(c) in allowed_setters for c in cx.calls_in(n.ast))}
    r = g.reach([start], avoid=setters, include_start=include_start)
    if g.exit.id in r:
        p = g.witness_path(start, g.exit.id, avoid=setters, include_start=include_start)
        return False, g.describe_path(p or [])
    return True, None


def exc_class_of(call):
    """'PyExc_IndexError' etc. for a PyErr_Format/SetString call, or the callee name"""
    name = cx.callee_name(call)
    if name in ('PyErr_Format', 'PyErr_SetString', 'PyErr_SetObject', 'PyErr_SetNone'):
        a = cx.call_args(call)
        return cx.render(a[0]) if a else None
    if name == 'PyErr_NoMemory':
        return 'PyExc_MemoryError'
    if name == '_convert_overflow':
        return 'PyExc_OverflowError'
    return name


def single_def(fn, varname):
    """the unique assignment/initialiser of a local variable in a function, or None"""
    found = []
    for lhs, rhs, op, node in cx.assignments(fn):
        if cx.lhs_text(lhs) == varname:
            found.append((rhs, op, node))
    if len(found) == 1 and found[0][1] in ('=', 'init'):
        return found[0][0]
    return None


def callers_of(tu, name):
    """[(function name, call node)] for direct calls anywhere in the TU"""
    out = []
    for fname, fn in tu.functions.items():
        if not tu.has_func(fname):
            continue
        for c in cx.calls_in(fn, name):
            out.append((fname, c))
    return out


def address_taken_in_tables(tu, name):
    """file-scope initialisers (PyMethodDef, PyTypeObject slots, export tables) mentioning a function"""
    out = []
    for vname, v in tu.vars.items():
        if name in cx.refs(v):
            out.append(vname)
    return out


def flag_facts(g, facts, lhs_text):
    """{mask: label} for dominating facts of the form `<lhs_text> & <constant mask>` (mask folded)"""
    from . import absint
    out = {}
    it = absint.Interp(g, {})
    for cn, lab in facts:
        if cn.kind != 'cond':
            continue
        e = cx.strip(cn.ast)
        if e.get('kind') == 'BinaryOperator' and e.get('opcode') == '&':
            a, b = cx.kids(e)
            if cx.render(a) == lhs_text:
                v = it.ev(b, {})
                if isinstance(v, absint.Con):
                    out[v.v] = lab
    return out


def macro_flags(tu, prefix):
    """integer values of object-like macros with the given prefix"""
    out = {}
    for k, v in tu.macros.items():
        if k.startswith(prefix) and v[0] is None:
            try:
                out[k] = int(v[1].split('/*')[0].strip().rstrip('UuLl'), 0)
            except ValueError:
                pass
    return out


def null_store_nodes(g, field_text):
    """CFG nodes that store NULL into `field_text`, directly or through the Py_CLEAR expansion
    (`T *tmp = &field; ...; *tmp = NULL`)"""
    out = []
    ptrs = set()
    norm = lambda s: s.replace('(', '').replace(')', '')
    for n in g.nodes:
        if n.ast is None:
            continue
        for l, r, op, _x in cx.assignments(n.ast):
            if op == 'init' and norm(cx.render(r, keep_casts=False)) == norm('&' + field_text):
                ptrs.add(cx.lhs_text(l))
    for n in g.nodes:
        if n.ast is None:
            continue
        for l, r, op, _x in cx.assignments(n.ast):
            if op != '=' or not is_nullish(r):
                continue
            lt = cx.lhs_text(l)
            if norm(lt) == norm(field_text) or (lt.startswith('*') and lt[1:] in ptrs):
                out.append(n)
    return out


def is_nullish(e):
    return cx.is_null(e)


def is_increment(stmt_ast, lvalue, by=1):
    """the statement adds `by` to the lvalue, in any spelling: x++, ++x, x += 1, x = x + 1, x = 1 + x (by=-1: the decrements)"""
    from .cfg import stmt_text
    t = stmt_text(stmt_ast).replace(' ', '')
    lv = lvalue.replace(' ', '')
    if by == 1:
        return t in (lv + '++', '++' + lv, lv + '+=1', '%s=%s+1' % (lv, lv), '%s=1+%s' % (lv, lv))
    return t in (lv + '--', '--' + lv, lv + '-=1', '%s=%s-1' % (lv, lv))
