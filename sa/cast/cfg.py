"""Statement-level control-flow graph over the compact clang AST, with path queries.

Conditions are decomposed through && || ! so that branch edges carry atomic
facts.  Calls to no-return functions end a path.  A statement kind the
builder does not know raises AnalysisError (exit 2), never a silent pass.
"""
from .. import AnalysisError
from . import cx

NORETURN = {'Py_FatalError', 'abort', 'exit', '_exit', '__assert_fail', '_Py_FatalErrorFunc',
            '__builtin_unreachable', '__builtin_trap', '_Py_FatalErrorFormat'}


class N:
    __slots__ = ('id', 'kind', 'ast', 'succ', 'pred', 'info')

    def __init__(self, i, kind, ast=None, info=None):
        self.id = i
        self.kind = kind      # entry exit abort stmt cond switch case label join return goto
        self.ast = ast
        self.succ = []        # (target id, label)
        self.pred = []
        self.info = info

    def __repr__(self):
        return 'N%d<%s %s>' % (self.id, self.kind, cx.render(self.ast)[:50] if self.ast else '')


class CFG:
    def __init__(self, fn, tu=None):
        self.fn = fn
        self.tu = tu
        self.name = fn.get('name')
        self.nodes = []
        self.entry = self._new('entry')
        self.exit = self._new('exit')
        self.abort = self._new('abort')
        self._labels = {}
        self._gotos = []
        from .loader import body
        b = body(fn)
        if b is None:
            raise AnalysisError('function %s has no body' % self.name)
        first = self._stmt(b, self.exit.id, None, None, None)
        self._edge(self.entry.id, first, None)
        for g, lab in self._gotos:
            if lab not in self._labels:
                raise AnalysisError('goto to unknown label in %s' % self.name)
            self._edge(g, self._labels[lab], None)
        for n in self.nodes:
            for t, l in n.succ:
                self.nodes[t].pred.append((n.id, l))

    # ---- construction ----------------------------------------------------
    def _new(self, kind, ast=None, info=None):
        n = N(len(self.nodes), kind, ast, info)
        self.nodes.append(n)
        return n

    def _edge(self, a, b, label):
        self.nodes[a].succ.append((b, label))

    def _cond(self, e, t, f):
        s = cx.strip(e)
        k = s.get('kind')
        if k == 'BinaryOperator' and s.get('opcode') == '&&':
            a, b = cx.kids(s)
            return self._cond(a, self._cond(b, t, f), f)
        if k == 'BinaryOperator' and s.get('opcode') == '||':
            a, b = cx.kids(s)
            return self._cond(a, t, self._cond(b, t, f))
        if k == 'UnaryOperator' and s.get('opcode') == '!':
            return self._cond(cx.kids(s)[0], f, t)
        if k == 'CallExpr' and cx.callee_name(s) == '__builtin_expect':
            return self._cond(cx.call_args(s)[0], t, f)
        v = cx.int_value(s)
        n = self._new('cond', s)
        if v is not None and k in ('IntegerLiteral',):
            # constant condition (while (1), do {} while (0)): only the live edge
            self._edge(n.id, t if v else f, 'T' if v else 'F')
            n.info = 'const'
            return n.id
        self._edge(n.id, t, 'T')
        self._edge(n.id, f, 'F')
        return n.id

    def _seq(self, stmts, nxt, brk, cont, sw):
        cur = nxt
        for s in reversed(stmts):
            cur = self._stmt(s, cur, brk, cont, sw)
        return cur

    def _stmt(self, s, nxt, brk, cont, sw):
        if s is None:
            return nxt
        k = s.get('kind')
        ks = s.get('inner', [])
        if k == 'CompoundStmt':
            return self._seq([c for c in ks if c], nxt, brk, cont, sw)
        if k == 'NullStmt':
            return nxt
        if k == 'IfStmt':
            real = [c for c in ks]
            cond, then = real[0], real[1]
            els = real[2] if len(real) > 2 else None
            t = self._stmt(then, nxt, brk, cont, sw)
            f = self._stmt(els, nxt, brk, cont, sw) if els is not None else nxt
            return self._cond(cond, t, f)
        if k == 'WhileStmt':
            real = [c for c in ks if c]
            cond, bod = real[0], real[-1]
            head = self._new('join', None, 'while')
            b = self._stmt(bod, head.id, nxt, head.id, sw)
            c = self._cond(cond, b, nxt)
            self._edge(head.id, c, None)
            return head.id
        if k == 'DoStmt':
            bod, cond = ks[0], ks[1]
            head = self._new('join', None, 'do')
            chead = self._new('join', None, 'do-cond')
            c = self._cond(cond, head.id, nxt)
            self._edge(chead.id, c, None)
            b = self._stmt(bod, chead.id, nxt, chead.id, sw)
            self._edge(head.id, b, None)
            return head.id
        if k == 'ForStmt':
            if len(ks) != 5:
                raise AnalysisError('ForStmt with %d slots in %s' % (len(ks), self.name))
            init, _cv, cond, inc, bod = ks
            head = self._new('join', None, 'for')
            inc_id = self._stmt(inc, head.id, None, None, sw) if inc else head.id
            b = self._stmt(bod, inc_id, nxt, inc_id, sw)
            c = self._cond(cond, b, nxt) if cond else b
            self._edge(head.id, c, None)
            return self._stmt(init, head.id, None, None, sw) if init else head.id
        if k == 'SwitchStmt':
            real = [c for c in ks if c]
            cond, bod = real[0], real[-1]
            ctx = {'cases': [], 'default': None}
            self._stmt(bod, nxt, nxt, cont, ctx)
            n = self._new('switch', cx.strip(cond))
            for cid, val in ctx['cases']:
                self._edge(n.id, cid, ('case', val))
            if ctx['default'] is not None:
                self._edge(n.id, ctx['default'], ('default',))
            else:
                self._edge(n.id, nxt, ('default',))
            return n.id
        if k == 'CaseStmt':
            real = [c for c in ks if c]
            val = cx.render(real[0])
            sub = real[-1] if len(real) > 1 else None
            inner = self._stmt(sub, nxt, brk, cont, sw)
            n = self._new('case', real[0], val)
            self._edge(n.id, inner, None)
            if sw is None:
                raise AnalysisError('case outside switch in %s' % self.name)
            sw['cases'].append((n.id, val))
            return n.id
        if k == 'DefaultStmt':
            real = [c for c in ks if c]
            inner = self._stmt(real[-1] if real else None, nxt, brk, cont, sw)
            n = self._new('case', None, 'default')
            self._edge(n.id, inner, None)
            if sw is None:
                raise AnalysisError('default outside switch in %s' % self.name)
            sw['default'] = n.id
            return n.id
        if k == 'BreakStmt':
            if brk is None:
                raise AnalysisError('break outside loop in %s' % self.name)
            n = self._new('stmt', s, 'break')
            self._edge(n.id, brk, None)
            return n.id
        if k == 'ContinueStmt':
            if cont is None:
                raise AnalysisError('continue outside loop in %s' % self.name)
            n = self._new('stmt', s, 'continue')
            self._edge(n.id, cont, None)
            return n.id
        if k == 'GotoStmt':
            n = self._new('goto', s)
            self._gotos.append((n.id, s.get('targetLabelDeclId')))
            return n.id
        if k == 'LabelStmt':
            real = [c for c in ks if c]
            inner = self._stmt(real[-1] if real else None, nxt, brk, cont, sw)
            n = self._new('label', s, s.get('name'))
            self._edge(n.id, inner, None)
            self._labels[s.get('declId')] = n.id
            return n.id
        if k == 'ReturnStmt':
            n = self._new('return', s)
            self._edge(n.id, self.exit.id, None)
            return n.id
        if k == 'DeclStmt' or cx.is_expr(s):
            n = self._new('stmt', s)
            top = cx.strip(s, casts=True) if cx.is_expr(s) else None
            if top is not None and top.get('kind') == 'CallExpr' and cx.callee_name(top) in NORETURN:
                # only an unconditional call ends the path (the _cffi_to_c_int macro has
                # Py_FatalError in one arm of a ternary: that statement does continue)
                self._edge(n.id, self.abort.id, None)
                return n.id
            self._edge(n.id, nxt, None)
            return n.id
        if k == 'AttributedStmt':
            real = [c for c in ks if c and c.get('kind', '').endswith('Stmt') or c and cx.is_expr(c)]
            return self._stmt(real[-1], nxt, brk, cont, sw)
        if k == 'GCCAsmStmt':
            n = self._new('stmt', s, 'asm')
            self._edge(n.id, nxt, None)
            return n.id
        raise AnalysisError('CFG builder: unknown statement kind %s in %s' % (k, self.name))

    # ---- queries ---------------------------------------------------------
    def reach(self, start_ids, avoid=(), avoid_edges=(), include_start=True):
        """nodes reachable from start_ids without entering `avoid` nodes or using `avoid_edges`"""
        avoid = set(avoid)
        avoid_edges = set(avoid_edges)
        seen = set()
        stack = []
        for s in start_ids:
            if include_start:
                if s not in avoid:
                    stack.append(s)
            else:
                for t, l in self.nodes[s].succ:
                    if (s, t, l) not in avoid_edges and t not in avoid:
                        stack.append(t)
        while stack:
            x = stack.pop()
            if x in seen:
                continue
            seen.add(x)
            for t, l in self.nodes[x].succ:
                if t in avoid or t in seen or (x, t, l) in avoid_edges:
                    continue
                stack.append(t)
        return seen

    def coreach(self, target_ids, avoid=(), avoid_edges=()):
        avoid = set(avoid)
        avoid_edges = set(avoid_edges)
        seen = set()
        stack = [t for t in target_ids if t not in avoid]
        while stack:
            x = stack.pop()
            if x in seen:
                continue
            seen.add(x)
            for p, l in self.nodes[x].pred:
                if p in avoid or p in seen or (p, x, l) in avoid_edges:
                    continue
                stack.append(p)
        return seen

    def live(self):
        return self.reach([self.entry.id])

    def must_precede(self, target, pred_ids, avoid_edges=()):
        """every path entry -> target passes through one of pred_ids (target itself excluded)"""
        pred_ids = set(pred_ids) - {target}
        r = self.reach([self.entry.id], avoid=pred_ids, avoid_edges=avoid_edges)
        return target not in r

    def must_follow(self, start, post_ids, to=None):
        """every path from just after `start` to exit (or `to`) passes through one of post_ids"""
        goal = self.exit.id if to is None else to
        r = self.reach([start], avoid=set(post_ids), include_start=False)
        return goal not in r

    def witness_path(self, start, goal, avoid=(), avoid_edges=(), include_start=True):
        """a shortest path start -> goal avoiding nodes/edges (for reports), or None"""
        from collections import deque
        avoid = set(avoid)
        avoid_edges = set(avoid_edges)
        prev = {}
        dq = deque()
        if include_start:
            dq.append(start)
            prev[start] = None
        else:
            for t, l in self.nodes[start].succ:
                if t not in avoid and (start, t, l) not in avoid_edges and t not in prev:
                    prev[t] = start
                    dq.append(t)
        while dq:
            x = dq.popleft()
            if x == goal:
                path = []
                while x is not None:
                    path.append(x)
                    x = prev.get(x)
                    if x == start and not include_start:
                        path.append(x)
                        break
                return list(reversed(path))
            for t, l in self.nodes[x].succ:
                if t in avoid or (x, t, l) in avoid_edges or t in prev:
                    continue
                prev[t] = x
                dq.append(t)
        return None

    def describe_path(self, path, limit=14):
        out = []
        for i in path:
            n = self.nodes[i]
            if n.kind in ('join', 'entry'):
                continue
            line = n.ast.get('line') if n.ast else None
            txt = cx.render(n.ast)[:70] if n.ast is not None else ''
            if n.kind in ('stmt', 'return', 'goto') and n.ast is not None and n.ast.get('kind') in (
                    'ReturnStmt', 'GotoStmt', 'DeclStmt', 'BreakStmt', 'ContinueStmt'):
                txt = stmt_text(n.ast)[:70]
            out.append('%s@%s %s' % (n.kind, line, txt))
        if len(out) > limit:
            out = out[:limit // 2] + ['...'] + out[-limit // 2:]
        return out

    def stmt_nodes(self, pred=None):
        return [n for n in self.nodes if n.ast is not None and (pred is None or pred(n))]

    def nodes_calling(self, names):
        if isinstance(names, str):
            names = {names}
        out = []
        for n in self.nodes:
            if n.ast is None:
                continue
            if any(cx.callee_name(c) in names for c in cx.calls_in(n.ast)):
                out.append(n)
        return out

    def node_of(self, ast_node):
        """CFG node whose statement contains the given AST node (by id)"""
        target = ast_node.get('id')
        for n in self.nodes:
            if n.ast is None:
                continue
            for x in cx.walk(n.ast):
                if x.get('id') == target:
                    return n
        return None

    # facts ------------------------------------------------------------------
    def cond_edges(self):
        for n in self.nodes:
            if n.kind in ('cond', 'switch'):
                for t, l in n.succ:
                    yield n, t, l

    def must_pass_edges(self, target, edges, start=None):
        """every path start(entry) -> target uses one of the given (src, dst, label) edges"""
        r = self.reach([self.entry.id if start is None else start], avoid_edges=edges)
        return target not in r

    def edges_of(self, pred):
        """(src, dst, label) for branch edges whose (cond node, label) satisfies pred"""
        return [(n.id, t, l) for n, t, l in self.cond_edges() if pred(n, l)]

    def dominating_facts(self, target, avoid_edges=()):
        """[(cond node, label)] such that every path entry->target takes that branch edge,
        and nothing between the last such edge and target rewrites what the condition reads.
        `avoid_edges` removes edges first (e.g. the 'an error is already pending' exits)."""
        out = []
        base = list(avoid_edges)
        live = self.reach([self.entry.id], avoid_edges=base)
        if target not in live:
            return out
        back = self.coreach([target], avoid_edges=base)
        for n, t, l in self.cond_edges():
            if n.id not in live or n.id not in back:
                continue
            e = (n.id, t, l)
            if e in base:
                continue
            if target in self.reach([self.entry.id], avoid_edges=base + [e]):
                continue
            # kill check on the region between edge target and `target` (not re-taking e)
            region = self.reach([t], avoid_edges=base + [e]) & self.coreach([target], avoid_edges=base + [e])
            region.discard(target)
            reads = cx.subexprs_text(n.ast)
            roots = cx.refs(n.ast)
            killed = False
            for rid in region:
                rn = self.nodes[rid]
                if rn.ast is None or rn.kind in ('cond', 'switch', 'case') and False:
                    continue
                for lv, _x in cx.writes(rn.ast):
                    if lv in reads or lv in roots:
                        killed = True
                        break
                if killed:
                    break
            if not killed:
                out.append((n, l))
        return out

    def fact_texts(self, target, avoid_edges=()):
        """dominating facts as normalised strings: 'T:expr' / 'F:expr' / 'case V:expr'"""
        out = set()
        for n, l in self.dominating_facts(target, avoid_edges):
            if n.kind == 'cond':
                out.add('%s:%s' % (l, cx.render(n.ast)))
            else:
                out.add('%s:%s' % (' '.join(l), cx.render(n.ast)))
        return out


def stmt_text(s):
    k = s.get('kind')
    if k == 'ReturnStmt':
        ks = cx.kids(s)
        return 'return %s' % (cx.render(ks[0]) if ks else '')
    if k == 'GotoStmt':
        return 'goto'
    if k == 'DeclStmt':
        out = []
        for d in cx.kids(s):
            if d.get('kind') == 'VarDecl':
                ks = cx.kids(d)
                out.append('%s %s%s' % (d.get('type'), d.get('name'), (' = ' + cx.render(ks[-1])) if d.get('init') and ks else ''))
        return '; '.join(out)
    if k == 'BreakStmt':
        return 'break'
    if k == 'ContinueStmt':
        return 'continue'
    return cx.render(s)


_cache = {}


def cfg_of(tu, name):
    key = (id(tu), name)
    if key not in _cache:
        _cache[key] = CFG(tu.func(name), tu)
    return _cache[key]
