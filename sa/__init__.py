"""Static analyser for python-cffi/cffi properties C01..C37 (see /verif/DESIGN.md)."""


class AnalysisError(Exception):
    """An anchor vanished or a tool failed: the run is broken (exit 2), not a verdict."""
