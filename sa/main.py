"""./check <ID> [--tier quick|thorough] [--replay FILE]   (see DESIGN §2.2)"""
import argparse
import importlib
import json
import os
import sys
import traceback

from . import AnalysisError
from .core import Run


def main(argv=None):
    ap = argparse.ArgumentParser(prog='check')
    ap.add_argument('pid')
    ap.add_argument('--tier', default=os.environ.get('VERIF_TIER') or 'quick', choices=['quick', 'thorough'])
    ap.add_argument('--replay')
    a = ap.parse_args(argv)
    pid = a.pid.upper()
    seed = int(os.environ.get('VERIF_SEED') or 0)
    only = None
    if a.replay:
        with open(a.replay) as f:
            rep = json.load(f)
        only = rep['key']
        pid = rep['property']
    try:
        try:
            mod = importlib.import_module('sa.props.%s' % pid.lower())
        except ModuleNotFoundError as e:
            if e.name == 'sa.props.%s' % pid.lower():
                print('ANALYSIS-ERROR no checker for %s' % pid)
                return 2
            raise
        run = Run(pid, a.tier, seed, only_key=only)
        try:
            mod.check(run)
        except AnalysisError as e:
            # part of the analysis could not be carried out; violations already established by the
            # completed rules are still violations (exit 1), otherwise the run is broken (exit 2)
            if not any(not o.ok for o in run.obs):
                raise
            print('ANALYSIS-INCOMPLETE %s' % e)
            run.minimums.clear()
            rc = run.finish()
            if rc == 0:
                raise
            return rc
        rc = run.finish()
        tot = len(run.obs)
        ok = sum(1 for o in run.obs if o.ok)
        print('%s tier=%s obligations=%d discharged=%d rules=%d wall=%.2fs -> %s' % (
            pid, a.tier, tot, ok, len({o.rule for o in run.obs}), __import__('time').time() - run.t0,
            'OK' if rc == 0 else 'VIOLATION'))
        for k, v in run.analysed.items():
            print('  analysed %-22s %d' % (k, len(v)))
        return rc
    except AnalysisError as e:
        print('ANALYSIS-ERROR %s' % e)
        return 2
    except Exception:
        traceback.print_exc()
        print('ANALYSIS-ERROR internal error in checker for %s (traceback above)' % pid)
        return 2


if __name__ == '__main__':
    sys.exit(main())
