"""Exception-escape analysis over the cffi package (ast only).

Import-aware call graph (self.m, module functions, imported symbols, module
aliases, class constructors, name-based class-hierarchy analysis for unknown
receivers, getattr-pattern dispatch) and an inter-procedural fixpoint: which
raise sites (explicit raises, asserts, value-dependent implicit raisers) can
propagate out of each function, taking enclosing try/except handlers into
account at the raise site and at every call site on the way.
"""
import ast

from .index import cffi_mod, u

BUILTIN_BASES = {
    'BaseException': None, 'Exception': 'BaseException', 'ArithmeticError': 'Exception',
    'ZeroDivisionError': 'ArithmeticError', 'OverflowError': 'ArithmeticError', 'FloatingPointError': 'ArithmeticError',
    'LookupError': 'Exception', 'IndexError': 'LookupError', 'KeyError': 'LookupError',
    'ValueError': 'Exception', 'UnicodeError': 'ValueError', 'UnicodeDecodeError': 'UnicodeError',
    'UnicodeEncodeError': 'UnicodeError', 'TypeError': 'Exception', 'AttributeError': 'Exception',
    'AssertionError': 'Exception', 'RuntimeError': 'Exception', 'NotImplementedError': 'RuntimeError',
    'RecursionError': 'RuntimeError', 'OSError': 'Exception', 'IOError': 'Exception', 'EnvironmentError': 'Exception',
    'NameError': 'Exception', 'ImportError': 'Exception', 'StopIteration': 'Exception', 'MemoryError': 'Exception',
    'SystemError': 'Exception', 'EOFError': 'Exception', 'SyntaxError': 'Exception', 'KeyboardInterrupt': 'BaseException',
}

IGNORED_METHODS = set(dir(str)) | set(dir(list)) | set(dir(dict)) | set(dir(set)) | set(dir(tuple)) | {
    'group', 'groups', 'start', 'end', 'span', 'finditer', 'match', 'search', 'sub', 'findall', 'acquire', 'release',
    'write', 'read', 'close', 'getvalue', 'show'}


class Site:
    __slots__ = ('func', 'kind', 'cls', 'node', 'text', 'lineno')

    def __init__(self, func, kind, cls, node, text):
        self.func = func          # qualified name 'module:Class.meth'
        self.kind = kind          # raise | assert | int | ord | div | shift
        self.cls = cls            # exception class name
        self.node = node
        self.text = ' '.join(text.split())
        self.lineno = getattr(node, 'lineno', 0)

    @property
    def key(self):
        return '%s|%s|%s|%s' % (self.func, self.kind, self.cls, self.text)

    @property
    def base_text(self):
        return self.text.split(' #')[0]

    def __repr__(self):
        return '<%s %s %s @%s:%d>' % (self.kind, self.cls, self.text[:40], self.func, self.lineno)


class Package:
    def __init__(self, modnames):
        self.mods = {n: cffi_mod(n) for n in modnames}
        self.funcs = {}           # qual -> (modname, node, classname or None)
        self.classes = {}         # (modname, classname) -> node
        self.class_bases = {}     # classname -> [base names]   (package-wide, by name)
        self.methods_by_name = {}
        self.imports = {}         # modname -> {local name: ('module', m) | ('symbol', m, sym)}
        for mn, m in self.mods.items():
            self.imports[mn] = self._imports(m)
            for q, node in m.defs.items():
                if isinstance(node, ast.ClassDef):
                    self.classes[(mn, q)] = node
                    self.class_bases[q] = [u(b) for b in node.bases]
                elif isinstance(node, (ast.FunctionDef, ast.AsyncFunctionDef)):
                    cls = None
                    parts = q.split('.')
                    if len(parts) >= 2 and (mn, '.'.join(parts[:-1])) in [(mn, k) for k, v in m.defs.items() if isinstance(v, ast.ClassDef)]:
                        cls = '.'.join(parts[:-1])
                    full = '%s:%s' % (mn, q)
                    self.funcs[full] = (mn, node, cls)
                    if cls:
                        self.methods_by_name.setdefault(node.name, []).append(full)
        # class-level aliases:  name = other_method
        for (mn, cq), cnode in self.classes.items():
            for st in cnode.body:
                if isinstance(st, ast.Assign) and isinstance(st.value, ast.Name) and len(st.targets) == 1 and isinstance(st.targets[0], ast.Name):
                    tgt = '%s:%s.%s' % (mn, cq, st.value.id)
                    if tgt in self.funcs:
                        alias = '%s:%s.%s' % (mn, cq, st.targets[0].id)
                        self.funcs[alias] = self.funcs[tgt]
                        self.methods_by_name.setdefault(st.targets[0].id, []).append(tgt)

    def _imports(self, m):
        out = {}
        for n in ast.walk(m.tree):
            if isinstance(n, ast.ImportFrom):
                mod = n.module or ''
                for a in n.names:
                    local = a.asname or a.name
                    if n.level >= 1 and not mod:
                        out[local] = ('module', a.name)
                    elif n.level >= 1:
                        out[local] = ('symbol', mod, a.name)
                    elif mod.startswith('cffi.'):
                        out[local] = ('symbol', mod[5:], a.name)
                    elif mod == 'cffi':
                        out[local] = ('module', a.name)
            elif isinstance(n, ast.Import):
                for a in n.names:
                    if a.name.startswith('cffi.'):
                        out[a.asname or a.name] = ('module', a.name[5:])
        return out

    # -- class hierarchy -----------------------------------------------------------
    def exc_supers(self, cls):
        """cls and all its base classes by name (package classes, then builtins)"""
        seen = []
        todo = [cls]
        while todo:
            c = todo.pop()
            if c in seen or c is None:
                continue
            seen.append(c)
            if c in self.class_bases:
                todo.extend(b.split('.')[-1] for b in self.class_bases[c])
            elif c in BUILTIN_BASES:
                todo.append(BUILTIN_BASES[c])
        return seen

    def mro_names(self, cls):
        out = []
        todo = [cls]
        while todo:
            c = todo.pop(0)
            if c in out:
                continue
            out.append(c)
            todo.extend(b.split('.')[-1] for b in self.class_bases.get(c, []))
        return out

    def find_method(self, mn, cls, name):
        for c in self.mro_names(cls):
            for m2 in self.mods:
                q = '%s:%s.%s' % (m2, c, name)
                if q in self.funcs:
                    return q
        return None

    def subclass_methods(self, cls, name):
        """overrides of `name` in subclasses of cls (dynamic dispatch on self)"""
        out = []
        for c in self.class_bases:
            if c != cls and cls in self.mro_names(c):
                for m2 in self.mods:
                    q = '%s:%s.%s' % (m2, c, name)
                    if q in self.funcs:
                        out.append(q)
        return out

    # -- call resolution -----------------------------------------------------------
    def resolve_name(self, mn, name, enclosing_q=None):
        m = self.mods[mn]
        if enclosing_q:
            q = '%s:%s.%s' % (mn, enclosing_q, name)
            if q in self.funcs:
                return [q]
        q = '%s:%s' % (mn, name)
        if q in self.funcs:
            return [q]
        if (mn, name) in self.classes:
            init = self.find_method(mn, name, '__init__')
            return [init] if init else []
        imp = self.imports[mn].get(name)
        if imp and imp[0] == 'symbol' and imp[1] in self.mods:
            return self.resolve_name(imp[1], imp[2])
        return []

    def callees(self, full):
        mn, node, cls = self.funcs[full]
        qual = full.split(':', 1)[1]
        out = []     # (callee full name, call node)
        from .index import own_nodes
        for n in own_nodes(node):
            if not isinstance(n, ast.Call):
                continue
            f = n.func
            targets = []
            if isinstance(f, ast.Name):
                if f.id == 'getattr' and len(n.args) >= 2:
                    targets = self._getattr_targets(mn, cls, n)
                else:
                    targets = self.resolve_name(mn, f.id, qual)
            elif isinstance(f, ast.Attribute):
                v = f.value
                if isinstance(v, ast.Name) and v.id == 'self' and cls:
                    t = self.find_method(mn, cls, f.attr)
                    if t:
                        targets = [t] + self.subclass_methods(cls, f.attr)
                elif isinstance(v, ast.Name) and self.imports[mn].get(v.id, ('',))[0] == 'module' and self.imports[mn][v.id][1] in self.mods:
                    targets = self.resolve_name(self.imports[mn][v.id][1], f.attr)
                elif isinstance(v, ast.Attribute) and isinstance(v.value, ast.Name) and \
                        self.imports[mn].get(v.value.id, ('',))[0] == 'module' and self.imports[mn][v.value.id][1] in self.mods \
                        and (self.imports[mn][v.value.id][1], v.attr) in self.classes:
                    t = self.find_method(self.imports[mn][v.value.id][1], v.attr, f.attr)      # model.PrimitiveType.meth(...)
                    targets = [t] if t else []
                elif isinstance(v, ast.Call) and isinstance(v.func, ast.Name) and v.func.id == 'super' and cls:
                    for b in self.mro_names(cls)[1:]:
                        t = self.find_method(mn, b, f.attr)
                        if t:
                            targets = [t]
                            break
                if not targets and not (isinstance(v, ast.Name) and v.id == 'self' and False):
                    if f.attr in self.methods_by_name and not (f.attr in IGNORED_METHODS and not self._pkg_defines(f.attr)):
                        # unknown receiver: every method of that name (class-hierarchy analysis by name)
                        if not self._external_receiver(mn, v):
                            targets = list(self.methods_by_name[f.attr])
            for t in targets:
                out.append((t, n))
            # a nested/module function passed as an argument (callback) may be called by the callee
            for a in list(n.args) + [k.value for k in n.keywords]:
                if isinstance(a, ast.Name):
                    for t in self.resolve_name(mn, a.id, qual):
                        if t in self.funcs and (mn, a.id) not in self.classes:
                            out.append((t, n))
        return out

    def _pkg_defines(self, name):
        return name in self.methods_by_name

    def _external_receiver(self, mn, v):
        """receivers known to live outside the package (pycparser, re, os, sys...)"""
        root = v
        while isinstance(root, (ast.Attribute, ast.Call, ast.Subscript)):
            root = root.value if not isinstance(root, ast.Call) else root.func
        if isinstance(root, ast.Name):
            if root.id in ('pycparser', 're', 'os', 'sys', 'weakref', 'types', 'threading', 'warnings', 'lock', 'io'):
                return True
            if root.id.startswith('_r_') or root.id.startswith('_parser_cache'):
                return True
        return False

    def _getattr_targets(self, mn, cls, call):
        a = call.args[1]
        prefix = None
        if isinstance(a, ast.BinOp) and isinstance(a.left, ast.Constant) and isinstance(a.left.value, str):
            prefix = a.left.value.split('%')[0]
        elif isinstance(a, ast.Constant) and isinstance(a.value, str):
            prefix = a.value
            t = self.find_method(mn, cls, prefix) if cls else None
            return [t] if t else []
        if prefix and u(call.args[0]) == 'self' and cls:
            out = []
            for c in self.mro_names(cls):
                for q in self.funcs:
                    if q.split(':', 1)[1].startswith(c + '.' + prefix):
                        out.append(q)
            return out
        return []

    # -- raise sites ---------------------------------------------------------------
    def sites_of(self, full):
        mn, node, cls = self.funcs[full]
        from .index import own_nodes
        out = []
        for n in own_nodes(node):
            if isinstance(n, ast.Raise):
                if n.exc is None:
                    continue          # re-raise: handled through the handler model
                c = n.exc.func if isinstance(n.exc, ast.Call) else n.exc
                name = u(c).split('.')[-1]
                txt = 'raise %s' % name
                out.append(Site(full, 'raise', name, n, txt))
            elif isinstance(n, ast.Assert):
                out.append(Site(full, 'assert', 'AssertionError', n, 'assert ' + u(n.test)))
            elif isinstance(n, ast.Call) and isinstance(n.func, ast.Name) and n.func.id == 'int' and n.args and \
                    not isinstance(n.args[0], ast.Constant):
                out.append(Site(full, 'int', 'ValueError', n, u(n)))
            elif isinstance(n, ast.Call) and isinstance(n.func, ast.Name) and n.func.id == 'ord' and n.args:
                out.append(Site(full, 'ord', 'TypeError', n, u(n)))
            elif isinstance(n, ast.BinOp) and isinstance(n.op, (ast.Div, ast.FloorDiv, ast.Mod)) and not isinstance(n.right, ast.Constant):
                if isinstance(n.op, ast.Mod) and (isinstance(n.left, (ast.Constant, ast.JoinedStr)) or
                                                  (isinstance(n.left, ast.BinOp) and isinstance(n.left.left, ast.Constant))):
                    continue          # string formatting
                if isinstance(n.op, ast.Mod) and isinstance(n.right, ast.Tuple):
                    continue
                if self._value_guarded(mn, node, n, n.right, 'div'):
                    continue
                out.append(Site(full, 'div', 'ZeroDivisionError', n, u(n)))
            elif isinstance(n, ast.BinOp) and isinstance(n.op, (ast.LShift, ast.RShift)) and not isinstance(n.right, ast.Constant):
                if self._value_guarded(mn, node, n, n.right, 'shift'):
                    continue
                out.append(Site(full, 'shift', 'ValueError', n, u(n)))
            elif isinstance(n, ast.Subscript) and isinstance(n.ctx, ast.Load) and isinstance(n.value, ast.Name) and \
                    not isinstance(n.slice, (ast.Constant, ast.Slice)) and n.value.id in self._table_names(mn):
                # a module-level lookup table indexed by a computed key: KeyError unless membership was tested
                if self._membership_guarded(mn, node, n):
                    continue
                out.append(Site(full, 'lookup', 'KeyError', n, u(n)))
        # several textually identical sites in one function get an ordinal so that each is judged on its own
        out.sort(key=lambda s: (s.lineno, getattr(s.node, 'col_offset', 0)))
        counts = {}
        for s in out:
            counts[s.key] = counts.get(s.key, 0) + 1
        seen = {}
        for s in out:
            if counts[s.key] > 1:
                seen[s.key] = seen.get(s.key, 0) + 1
                s.text = '%s #%d' % (s.text, seen[s.key])
        return out

    def _table_names(self, mn):
        cache = self.__dict__.setdefault('_tables', {})
        if mn not in cache:
            names = set()
            for st in self.mods[mn].tree.body:
                if isinstance(st, ast.Assign) and len(st.targets) == 1 and isinstance(st.targets[0], ast.Name) and isinstance(st.value, ast.Dict):
                    names.add(st.targets[0].id)
            cache[mn] = names
        return cache[mn]

    def _membership_guarded(self, mn, fnode, sub):
        """`T[k]` under `if k in T:` (same texts), or inside a try with a KeyError/LookupError/Exception handler"""
        m = self.mods[mn]
        key, tab = u(sub.slice), u(sub.value)
        p = m.parents.get(sub)
        child = sub
        while p is not None and p is not fnode:
            if isinstance(p, ast.If) and child in p.body or isinstance(p, ast.If) and any(child is x for x in p.body):
                t = u(p.test).replace(' ', '')
                if ('%s in %s' % (key, tab)).replace(' ', '') in t and 'notin' not in t:
                    return True
            if isinstance(p, ast.Try) and any(child is x for x in p.body):
                for h in p.handlers:
                    names = [u(h.type)] if h.type is not None and not isinstance(h.type, ast.Tuple) else ([u(x) for x in h.type.elts] if h.type is not None else ['*'])
                    if set(names) & {'KeyError', 'LookupError', 'Exception', '*'}:
                        return True
            child = p
            p = m.parents.get(p)
        return False

    def _value_guarded(self, mn, fnode, node, operand, kind):
        """the operand (a plain name) was tested by an earlier `if <bad value>: raise/return` that
        dominates the operation, with no rebinding in between"""
        if not isinstance(operand, ast.Name):
            return False
        v = operand.id
        bad = {'div': ('%s == 0' % v, '0 == %s' % v, 'not %s' % v), 'shift': ('%s < 0' % v, '0 > %s' % v)}[kind]
        m = self.mods[mn]
        child = node
        p = m.parents.get(child)
        while p is not None:
            for field in ('body', 'orelse', 'finalbody'):
                lst = getattr(p, field, None)
                if isinstance(lst, list) and any(child is x for x in lst):
                    idx = [i for i, x in enumerate(lst) if x is child][0]
                    for prev in reversed(lst[:idx]):
                        if any(isinstance(x, ast.Name) and x.id == v and isinstance(x.ctx, ast.Store) for x in ast.walk(prev)):
                            return False
                        if isinstance(prev, ast.If) and u(prev.test) in bad and prev.body and \
                                isinstance(prev.body[-1], (ast.Raise, ast.Return)):
                            return True
            if p is fnode:
                break
            child = p
            p = m.parents.get(p)
        return False

    def try_context(self, full, target):
        """[(Try node, 'body'|'handler'|'orelse'|'final')] enclosing `target` inside the function, innermost first"""
        mn, fnode, cls = self.funcs[full]
        m = self.mods[mn]
        out = []
        child = target
        p = m.parents.get(child)
        while p is not None and p is not fnode:
            if isinstance(p, ast.Try):
                if child in p.body:
                    out.append((p, 'body'))
                elif child in p.orelse:
                    out.append((p, 'orelse'))
                elif child in p.finalbody:
                    out.append((p, 'final'))
            elif isinstance(p, ast.ExceptHandler):
                pass
            child = p
            p = m.parents.get(p)
        return out

    def caught_by(self, handler, cls):
        if handler.type is None:
            return True
        names = [u(e).split('.')[-1] for e in handler.type.elts] if isinstance(handler.type, ast.Tuple) else [u(handler.type).split('.')[-1]]
        sup = self.exc_supers(cls)
        return any(nm in sup for nm in names)

    def handler_reraises(self, handler):
        for n in ast.walk(handler):
            if isinstance(n, ast.Raise) and n.exc is None:
                return True
            # `raise e` of the caught variable
            if isinstance(n, ast.Raise) and handler.name and isinstance(n.exc, ast.Name) and n.exc.id == handler.name:
                return True
        return False

    def protected(self, full, node, cls):
        """is an exception of class cls raised at `node` stopped inside function `full`?"""
        for tr, where in self.try_context(full, node):
            if where != 'body':
                continue
            for h in tr.handlers:
                if self.caught_by(h, cls):
                    if self.handler_reraises(h):
                        break       # goes on outward with the same class
                    return True
        return False

    # -- fixpoint --------------------------------------------------------------------
    def analyse(self, entries):
        reach = []
        todo = list(entries)
        edges = {}
        while todo:
            f = todo.pop()
            if f in reach or f not in self.funcs:
                continue
            reach.append(f)
            edges[f] = self.callees(f)
            for t, _n in edges[f]:
                if t not in reach:
                    todo.append(t)
        own = {f: self.sites_of(f) for f in reach}
        esc = {f: {} for f in reach}      # f -> {site key: Site}
        for f in reach:
            for s in own[f]:
                if not self.protected(f, s.node, s.cls):
                    esc[f][s.key] = s
        changed = True
        while changed:
            changed = False
            for f in reach:
                for t, call in edges[f]:
                    for k, s in list(esc.get(t, {}).items()):
                        if k in esc[f]:
                            continue
                        if not self.protected(f, call, s.cls):
                            esc[f][k] = s
                            changed = True
        return reach, edges, own, esc

    def call_chain(self, edges, entry, target):
        """a shortest call chain entry -> target (for reports)"""
        from collections import deque
        prev = {entry: None}
        dq = deque([entry])
        while dq:
            x = dq.popleft()
            if x == target:
                out = []
                while x is not None:
                    out.append(x)
                    x = prev[x]
                return list(reversed(out))
            for t, _n in edges.get(x, []):
                if t not in prev:
                    prev[t] = x
                    dq.append(t)
        return None
