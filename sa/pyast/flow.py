"""Small def-use helpers over a single Python function (ast only)."""
import ast

from .index import u


def parents_in(fn):
    p = {}
    for n in ast.walk(fn):
        for c in ast.iter_child_nodes(n):
            p[c] = n
    return p


def params(fn):
    a = fn.args
    return [x.arg for x in a.posonlyargs + a.args + a.kwonlyargs] + \
        ([a.vararg.arg] if a.vararg else []) + ([a.kwarg.arg] if a.kwarg else [])


def bindings(fn, name):
    """nodes that (re)bind `name` in fn: Assign/AugAssign/AnnAssign/For/With/Import targets"""
    out = []
    for n in ast.walk(fn):
        if isinstance(n, ast.Name) and n.id == name and isinstance(n.ctx, (ast.Store, ast.Del)):
            out.append(n)
    return out


def loads(fn, name):
    return [n for n in ast.walk(fn) if isinstance(n, ast.Name) and n.id == name and isinstance(n.ctx, ast.Load)]


def assigned_value(fn, name):
    """the value of the single `name = value` assignment, or None"""
    vals = []
    for n in ast.walk(fn):
        if isinstance(n, ast.Assign) and len(n.targets) == 1 and isinstance(n.targets[0], ast.Name) and n.targets[0].id == name:
            vals.append(n.value)
    stores = bindings(fn, name)
    if len(vals) == 1 and len(stores) == 1:
        return vals[0]
    return None


def use_kinds(fn, name):
    """how each load of `name` is used: 'arg:<callee>:<index or kw>', 'return', 'attr:<attr>', 'other:<text>'"""
    par = parents_in(fn)
    out = []
    for n in loads(fn, name):
        p = par.get(n)
        if isinstance(p, ast.Call) and n in p.args:
            out.append('arg:%s:%d' % (u(p.func), p.args.index(n)))
        elif isinstance(p, ast.keyword) and isinstance(par.get(p), ast.Call):
            out.append('arg:%s:%s' % (u(par[p].func), p.arg))
        elif isinstance(p, ast.Return):
            out.append('return')
        elif isinstance(p, ast.Attribute):
            pp = par.get(p)
            if isinstance(pp, ast.Call) and pp.func is p:
                out.append('call:.%s(%s)' % (p.attr, ', '.join(u(a) for a in pp.args)))
            else:
                out.append('attr:%s' % p.attr)
        elif isinstance(p, ast.withitem):
            out.append('with')
        elif isinstance(p, ast.Compare):
            out.append('compare:%s' % u(p))
        else:
            out.append('other:%s' % u(p)[:60])
    return out


def is_passthrough(fn, name, allowed_prefixes=('arg:', 'return', 'with', 'compare:')):
    """`name` is bound once (or is a never-rebound parameter) and only handed on unchanged"""
    stores = bindings(fn, name)
    isparam = name in params(fn)
    if isparam and stores:
        return False, 'parameter %s is rebound' % name
    if not isparam and len(stores) != 1:
        return False, '%s is bound %d times' % (name, len(stores))
    kinds = use_kinds(fn, name)
    bad = [k for k in kinds if not k.startswith(allowed_prefixes)]
    if bad:
        return False, '%s is used as %s' % (name, bad)
    return True, kinds
