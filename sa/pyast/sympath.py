"""E2c: symbolic path enumeration over straight-line / if / (concretely unrollable) for
Python code whose inputs are touched only through comparisons and +/- constants.

Nothing is executed: the function's ast is walked with an environment of abstract
values.  A value is a Python constant (folded from literals of the analysed source), a
`Lin(sym, k)` (= sym + k, an unknown integer), an `Opq(text)` (opaque), or whatever a
hook returns for a call.  Conditions over unknowns are kept as trees; every path carries
the list of (tree, truth) it assumed, its effects (opaque calls, in order) and its
outcome.  `holds(path, symvals, free)` then evaluates the path condition on a
representative point, which is how a checker compares the *decision table* of the code
with a reference table over the finite set of orderings of the thresholds involved.
"""
import ast
import operator

from .. import AnalysisError
from .index import u


class Lin:
    __slots__ = ('sym', 'k')

    def __init__(self, sym, k=0):
        self.sym, self.k = sym, k

    def __repr__(self):
        return '%s%+d' % (self.sym, self.k) if self.k else self.sym

    def __eq__(self, o):
        return isinstance(o, Lin) and (o.sym, o.k) == (self.sym, self.k)

    def __hash__(self):
        return hash((self.sym, self.k))


class Opq:
    __slots__ = ('text',)

    def __init__(self, text):
        self.text = text

    def __repr__(self):
        return '<%s>' % self.text


class Closure(Opq):
    """a nested def met while walking: still opaque to every rule that does not ask, but carries the ast and the environment it closes over"""
    __slots__ = ('fn', 'env')

    def __init__(self, text, fn, env):
        Opq.__init__(self, text)
        self.fn, self.env = fn, env


class Term:
    """uninterpreted symbolic term: op applied to args (args may be Terms, Lins, constants)"""
    __slots__ = ('op', 'args')

    def __init__(self, op, args=()):
        self.op, self.args = op, tuple(args)

    def __repr__(self):
        return self.op if not self.args else '%s(%s)' % (self.op, ', '.join(map(repr, self.args)))

    def __eq__(self, o):
        return isinstance(o, Term) and (o.op, o.args) == (self.op, self.args)

    def __hash__(self):
        return hash((self.op, self.args))


class Raise(Exception):
    """raised by a hook to model a call that raises `name` on this path"""
    def __init__(self, name):
        Exception.__init__(self, name)
        self.name = name


_OPNAME = {ast.Add: '+', ast.Sub: '-', ast.Mult: '*', ast.FloorDiv: '//', ast.Mod: '%', ast.LShift: '<<', ast.RShift: '>>',
           ast.BitAnd: '&', ast.BitOr: '|', ast.BitXor: '^', ast.Div: '/', ast.Pow: '**'}
_STR_METHODS = ('rstrip', 'lstrip', 'strip', 'startswith', 'endswith', 'lower', 'upper', 'isdigit', 'replace', 'join', 'split', 'find', 'count', 'rfind', 'index')


class Path:
    def __init__(self, env, conds, effects, outcome):
        self.env, self.conds, self.effects, self.outcome = env, conds, effects, outcome

    def __repr__(self):
        return 'Path(%s => %s)' % (' & '.join(('' if t else 'not ') + show(c) for c, t in self.conds), self.outcome)


def show(c):
    if isinstance(c, tuple):
        if c[0] == 'cmp':
            return '%r %s %r' % (c[2], c[1], c[3])
        if c[0] in ('and', 'or', 'xor'):
            return '(' + (' %s ' % c[0]).join(show(x) for x in c[1]) + ')'
        if c[0] == 'not':
            return 'not ' + show(c[1])
        if c[0] == 'free':
            return c[1]
    return repr(c)


_CMP = {ast.Lt: '<', ast.LtE: '<=', ast.Gt: '>', ast.GtE: '>=', ast.Eq: '==', ast.NotEq: '!='}
_CMPF = {'<': operator.lt, '<=': operator.le, '>': operator.gt, '>=': operator.ge, '==': operator.eq, '!=': operator.ne}
_BIN = {ast.Add: operator.add, ast.Sub: operator.sub, ast.Mult: operator.mul, ast.FloorDiv: operator.floordiv,
        ast.Mod: operator.mod, ast.LShift: operator.lshift, ast.RShift: operator.rshift, ast.BitAnd: operator.and_,
        ast.BitOr: operator.or_, ast.BitXor: operator.xor, ast.Pow: operator.pow}


def is_sym_bool(v):
    return isinstance(v, tuple) and v and v[0] in ('cmp', 'and', 'or', 'xor', 'not', 'free')


def _not_none(v):
    return isinstance(v, (Lin, dict)) or (isinstance(v, tuple) and not is_sym_bool(v))


def is_concrete(v):
    return v is None or isinstance(v, (bool, int, str, bytes, float)) or \
        (isinstance(v, (tuple, list)) and not is_sym_bool(v) and all(is_concrete(x) for x in v))


class Evaluator:
    def __init__(self, hooks=None, method_hooks=None, max_paths=4096):
        self.hooks = hooks or {}
        self.method_hooks = method_hooks or {}
        self.max_paths = max_paths
        self.assumptions = []

    # ---- expressions -------------------------------------------------------------------
    def ev(self, e, env, eff):
        if isinstance(e, ast.Constant):
            return e.value
        if isinstance(e, (ast.Name, ast.Attribute)):
            t = u(e)
            if t in env:
                return env[t]
            if isinstance(e, ast.Attribute):
                base = self.ev(e.value, env, eff)
                if isinstance(base, dict) and e.attr in base:
                    return base[e.attr]
            if t in ('True', 'False', 'None'):
                return {'True': True, 'False': False, 'None': None}[t]
            return Opq(t)
        if isinstance(e, ast.Tuple) or isinstance(e, ast.List):
            return tuple(self.ev(x, env, eff) for x in e.elts)
        if isinstance(e, ast.Dict) and all(k is not None for k in e.keys):
            ks = [self.ev(k, env, eff) for k in e.keys]
            if all(is_concrete(k) for k in ks):
                return dict(zip(ks, [self.ev(v, env, eff) for v in e.values]))
            return Opq(u(e))
        if isinstance(e, ast.UnaryOp):
            v = self.ev(e.operand, env, eff)
            if isinstance(e.op, ast.Not):
                return self.neg(self.truth(v))
            if isinstance(v, (int, float)) and not isinstance(v, bool) or isinstance(v, bool):
                return {ast.USub: operator.neg, ast.UAdd: operator.pos, ast.Invert: operator.invert}[type(e.op)](v)
            if isinstance(v, (Term, Lin)):
                if isinstance(e.op, ast.UAdd):
                    return v
                return Term({ast.USub: 'neg', ast.Invert: '~'}[type(e.op)], (v,))
            return Opq(u(e))
        if isinstance(e, ast.BinOp):
            a, b = self.ev(e.left, env, eff), self.ev(e.right, env, eff)
            if isinstance(a, Lin) and isinstance(b, int) and isinstance(e.op, (ast.Add, ast.Sub)):
                return Lin(a.sym, a.k + (b if isinstance(e.op, ast.Add) else -b))
            if isinstance(b, Lin) and isinstance(a, int) and isinstance(e.op, ast.Add):
                return Lin(b.sym, b.k + a)
            if (isinstance(a, Term) or isinstance(b, Term) or (isinstance(a, Lin) and isinstance(b, Lin))) and type(e.op) in _OPNAME \
                    and all(isinstance(x, (Term, Lin, int)) and not isinstance(x, bool) for x in (a, b)):
                return Term(_OPNAME[type(e.op)], (a, b))
            if is_sym_bool(a) and is_sym_bool(b) and isinstance(e.op, ast.BitXor):
                return ('xor', (a, b))
            if is_sym_bool(a) and is_sym_bool(b) and isinstance(e.op, ast.BitAnd):
                return ('and', (a, b))
            if is_sym_bool(a) and is_sym_bool(b) and isinstance(e.op, ast.BitOr):
                return ('or', (a, b))
            if isinstance(a, str) and isinstance(b, str) and isinstance(e.op, ast.Add):
                return a + b
            if isinstance(a, tuple) and isinstance(b, tuple) and not is_sym_bool(a) and not is_sym_bool(b) and isinstance(e.op, ast.Add):
                return a + b
            if isinstance(e.op, ast.Mult) and ((isinstance(a, str) and isinstance(b, int)) or (isinstance(a, int) and isinstance(b, str))) and \
                    not isinstance(a, bool) and not isinstance(b, bool) and (a if isinstance(a, int) else b) < 4096:
                return a * b
            if isinstance(a, str) and isinstance(e.op, ast.Mod) and is_concrete(b):
                try:
                    return a % b
                except Exception:
                    return Opq(u(e))
            if is_concrete(a) and is_concrete(b) and type(e.op) in _BIN and not isinstance(a, str):
                try:
                    return _BIN[type(e.op)](a, b)
                except Exception:
                    return Opq(u(e))
            return Opq(u(e))
        if isinstance(e, ast.Compare):
            parts = []
            left = self.ev(e.left, env, eff)
            for op, rn in zip(e.ops, e.comparators):
                right = self.ev(rn, env, eff)
                parts.append(self.cmp(op, left, right, e))
                left = right
            return self.conj(parts)
        if isinstance(e, ast.BoolOp):
            raw = []
            for x in e.values:
                v = self.ev(x, env, eff)
                raw.append(v)
                if not (is_concrete(v) or isinstance(v, dict)):
                    break
                # Python semantics on concrete operands: the deciding operand is the value
                if isinstance(e.op, ast.Or) and v:
                    return v
                if isinstance(e.op, ast.And) and not v:
                    return v
            else:
                return raw[-1]
            vals = [self.truth(v) for v in raw] + [self.truth(self.ev(x, env, eff)) for x in e.values[len(raw):]]
            return self.conj(vals) if isinstance(e.op, ast.And) else self.disj(vals)
        if isinstance(e, ast.IfExp):
            t = self.truth(self.ev(e.test, env, eff))
            if t is True:
                return self.ev(e.body, env, eff)
            if t is False:
                return self.ev(e.orelse, env, eff)
            return Opq(u(e))
        if isinstance(e, ast.Call):
            return self.call(e, env, eff)
        if isinstance(e, (ast.ListComp, ast.GeneratorExp)) and len(e.generators) == 1 and not e.generators[0].is_async:
            gen = e.generators[0]
            it = self.ev(gen.iter, env, eff)
            if isinstance(it, tuple) and not is_sym_bool(it):
                out = []
                for item in it:
                    en = dict(env)
                    self.bind(gen.target, item, en)
                    keep = True
                    for cond in gen.ifs:
                        t = self.truth(self.ev(cond, en, eff))
                        if t is False:
                            keep = False
                        elif t is not True:
                            return Opq(u(e))
                    if keep:
                        out.append(self.ev(e.elt, en, eff))
                return tuple(out)
            return Opq(u(e))
        if isinstance(e, ast.Subscript):
            base = self.ev(e.value, env, eff)
            if isinstance(e.slice, ast.Slice):
                lo = self.ev(e.slice.lower, env, eff) if e.slice.lower is not None else None
                hi = self.ev(e.slice.upper, env, eff) if e.slice.upper is not None else None
                if isinstance(base, (str, tuple)) and not is_sym_bool(base) and e.slice.step is None and \
                        all(x is None or (isinstance(x, int) and not isinstance(x, bool)) for x in (lo, hi)):
                    return base[lo:hi]
                return Opq(u(e))
            idx = self.ev(e.slice, env, eff)
            if isinstance(base, (tuple, str)) and not is_sym_bool(base) and isinstance(idx, int):
                try:
                    return base[idx]
                except IndexError:
                    return Opq(u(e))
            if isinstance(base, dict) and is_concrete(idx):
                try:
                    return base[idx]
                except (KeyError, TypeError):
                    return Opq(u(e))
            return Opq(u(e))
        return Opq(u(e))

    def cmp(self, op, a, b, node):
        if isinstance(op, (ast.Is, ast.IsNot)):
            if is_concrete(a) and is_concrete(b):
                r = (a is b) or (a == b and a is None)
                return r if isinstance(op, ast.Is) else not r
            if (b is None and _not_none(a)) or (a is None and _not_none(b)):
                return isinstance(op, ast.IsNot)
            t = ('free', '%r is %r' % (a, b))
            return t if isinstance(op, ast.Is) else ('not', t)
        if isinstance(op, (ast.In, ast.NotIn)) and is_concrete(a) and (isinstance(b, dict) or (is_concrete(b) and isinstance(b, (str, tuple)))):
            try:
                r = a in b
            except TypeError:
                return ('free', u(node))
            return r if isinstance(op, ast.In) else not r
        if isinstance(op, (ast.In, ast.NotIn)) and isinstance(a, dict) and isinstance(b, tuple) and not is_sym_bool(b):
            r = any(x is a for x in b)
            return r if isinstance(op, ast.In) else not r
        if type(op) not in _CMP:
            return ('free', u(node))
        o = _CMP[type(op)]
        if o in ('==', '!=') and all(is_sym_bool(x) or isinstance(x, bool) for x in (a, b)) and (is_sym_bool(a) or is_sym_bool(b)):
            x = ('xor', (a, b))
            return x if o == '!=' else ('not', x)
        if isinstance(a, (int, float)) and isinstance(b, (int, float)):
            return _CMPF[o](a, b)
        if isinstance(a, str) and isinstance(b, str):
            return _CMPF[o](a, b)
        if o in ('==', '!=') and is_concrete(a) and is_concrete(b) and not is_sym_bool(a) and not is_sym_bool(b):
            return _CMPF[o](a, b)
        if isinstance(a, Term) or isinstance(b, Term):
            return ('free', '%r %s %r' % (a, o, b))
        if isinstance(a, Lin) and isinstance(b, (int, Lin)) or isinstance(b, Lin) and isinstance(a, int):
            return ('cmp', o, a, b)
        return ('free', '%r %s %r' % (a, o, b))

    def truth(self, v):
        if is_sym_bool(v):
            return v
        if isinstance(v, Lin):
            return ('cmp', '!=', v, 0)
        if isinstance(v, Term):
            return ('free', '%r != 0' % (v,))
        if isinstance(v, Opq):
            return ('free', v.text)
        if isinstance(v, dict):
            return True
        if is_concrete(v):
            return bool(v)
        return ('free', repr(v))

    @staticmethod
    def neg(t):
        if t is True or t is False:
            return not t
        return ('not', t)

    @staticmethod
    def conj(parts):
        rest = []
        for p in parts:
            if p is False:
                return False
            if p is not True:
                rest.append(p)
        if not rest:
            return True
        return rest[0] if len(rest) == 1 else ('and', tuple(rest))

    @staticmethod
    def disj(parts):
        rest = []
        for p in parts:
            if p is True:
                return True
            if p is not False:
                rest.append(p)
        if not rest:
            return False
        return rest[0] if len(rest) == 1 else ('or', tuple(rest))

    def call(self, e, env, eff):
        ft = u(e.func)
        args = []
        for a in e.args:
            if isinstance(a, ast.Starred):
                v = self.ev(a.value, env, eff)
                if isinstance(v, tuple) and not is_sym_bool(v):
                    args.extend(v)
                else:
                    args.append(Opq('*' + u(a.value)))
            else:
                args.append(self.ev(a, env, eff))
        kw = {k.arg: self.ev(k.value, env, eff) for k in e.keywords}
        if ft in self.hooks:
            return self.hooks[ft](args, kw, env, eff)
        if isinstance(e.func, ast.Attribute) and e.func.attr in self.method_hooks:
            recv = self.ev(e.func.value, env, eff)
            return self.method_hooks[e.func.attr](recv, args, kw, env, eff)
        if isinstance(e.func, ast.Attribute) and e.func.attr in _STR_METHODS and not kw and all(is_concrete(a) for a in args):
            recv = self.ev(e.func.value, env, eff)
            if isinstance(recv, str):
                try:
                    r = getattr(recv, e.func.attr)(*args)
                    return tuple(r) if isinstance(r, list) else r
                except Exception:
                    return Opq(u(e))
        if isinstance(e.func, ast.Attribute) and e.func.attr == 'get' and not kw and 1 <= len(args) <= 2 and is_concrete(args[0]):
            recv = self.ev(e.func.value, env, eff)
            if isinstance(recv, dict):
                try:
                    return recv.get(args[0], args[1] if len(args) == 2 else None)
                except TypeError:
                    return Opq(u(e))
        if isinstance(e.func, ast.Attribute) and e.func.attr == 'append' and len(args) == 1 and not kw:
            t = u(e.func.value)
            if isinstance(env.get(t), tuple) and not is_sym_bool(env[t]):
                env[t] = env[t] + (args[0],)      # list modelled as a growing tuple
                return None
        if ft in ('tuple', 'list') and len(args) == 1 and isinstance(args[0], tuple) and not is_sym_bool(args[0]):
            return args[0]
        if ft in ('list', 'tuple', 'set', 'frozenset') and not args:
            return ()
        if ft in ('sum', 'any', 'all') and len(args) == 1 and isinstance(args[0], tuple) and not is_sym_bool(args[0]) and all(isinstance(x, (bool, int)) for x in args[0]):
            return {'sum': sum, 'any': any, 'all': all}[ft](args[0])
        if ft == 'getattr' and len(args) in (2, 3) and isinstance(args[0], dict) and isinstance(args[1], str):
            if args[1] in args[0]:
                return args[0][args[1]]
            if len(args) == 3:
                return args[2]
        if ft == 'sorted' and len(args) == 1 and not kw and isinstance(args[0], tuple) and not is_sym_bool(args[0]) and \
                (all(isinstance(x, str) for x in args[0]) or all(isinstance(x, int) for x in args[0])):
            return tuple(sorted(args[0]))
        if ft == 'reversed' and len(args) == 1 and isinstance(args[0], tuple) and not is_sym_bool(args[0]):
            return tuple(reversed(args[0]))
        if ft == 'enumerate' and len(args) == 1 and isinstance(args[0], tuple) and not is_sym_bool(args[0]):
            return tuple((i, x) for i, x in enumerate(args[0]))
        if ft == 'range' and args and all(isinstance(a, int) and not isinstance(a, bool) for a in args) and abs(args[-1 if len(args) < 3 else 1]) < 4096:
            return tuple(range(*args))
        if ft == 'len' and len(args) == 1 and isinstance(args[0], tuple) and not is_sym_bool(args[0]):
            return len(args[0])
        if ft == 'zip' and args and all(isinstance(a, tuple) and not is_sym_bool(a) for a in args):
            return tuple(zip(*args))
        if ft in ('int', 'tuple', 'len', 'min', 'max', 'abs') and args and all(is_concrete(a) for a in args) and not kw:
            try:
                return {'int': int, 'tuple': tuple, 'len': len, 'min': min, 'max': max, 'abs': abs}[ft](*args)
            except Exception:
                pass
        eff.append((ft, tuple(args)))
        return Opq(u(e))

    # ---- statements --------------------------------------------------------------------
    def block(self, stmts, env, conds, eff):
        """-> list of Path; outcome None means 'fell off the end of the block'"""
        states = [(env, conds, eff)]
        done = []
        for st in stmts:
            nxt = []
            for (en, co, ef) in states:
                for p in self.stmt(st, en, co, ef):
                    if p.outcome is None:
                        nxt.append((p.env, p.conds, p.effects))
                    else:
                        done.append(p)
            states = nxt
            if len(states) + len(done) > self.max_paths:
                raise AnalysisError('sympath: more than %d paths' % self.max_paths)
        return done + [Path(en, co, ef, None) for (en, co, ef) in states]

    def stmt(self, st, env, conds, eff):
        try:
            return self._stmt(st, env, conds, eff)
        except Raise as r:
            return [Path(env, conds, list(eff), ('raise', r.name))]

    def _stmt(self, st, env, conds, eff):
        if isinstance(st, ast.Assign):
            eff = list(eff)
            v = self.ev(st.value, env, eff)
            env = dict(env)
            for t in st.targets:
                self.bind(t, v, env)
            return [Path(env, conds, eff, None)]
        if isinstance(st, ast.AugAssign):
            eff = list(eff)
            v = self.ev(ast.BinOp(left=st.target, op=st.op, right=st.value), env, eff)
            env = dict(env)
            self.bind(st.target, v, env)
            return [Path(env, conds, eff, None)]
        if isinstance(st, ast.Expr):
            eff = list(eff)
            env = dict(env)
            self.ev(st.value, env, eff)
            return [Path(env, conds, eff, None)]
        if isinstance(st, (ast.Import, ast.ImportFrom, ast.Pass, ast.Global, ast.Assert)):
            return [Path(env, conds, eff, None)]
        if isinstance(st, (ast.FunctionDef, ast.ClassDef)):
            env = dict(env)
            env[st.name] = Closure('<local %s>' % st.name, st, env) if isinstance(st, ast.FunctionDef) else Opq('<local %s>' % st.name)
            return [Path(env, conds, eff, None)]
        if isinstance(st, ast.Delete):
            env = dict(env)
            for t in st.targets:
                if isinstance(t, ast.Subscript) and isinstance(env.get(u(t.value)), tuple) and not is_sym_bool(env[u(t.value)]):
                    idx = self.ev(t.slice, env, list(eff)) if not isinstance(t.slice, ast.Slice) else None
                    if isinstance(idx, int) and not isinstance(idx, bool) and -len(env[u(t.value)]) <= idx < len(env[u(t.value)]):
                        seq = list(env[u(t.value)])
                        del seq[idx]
                        env[u(t.value)] = tuple(seq)
                        continue
                raise AnalysisError('sympath: `%s` not modelled (line %d)' % (u(st), st.lineno))
            return [Path(env, conds, eff, None)]
        if isinstance(st, ast.Return):
            eff = list(eff)
            v = self.ev(st.value, env, eff) if st.value is not None else None
            return [Path(env, conds, eff, ('return', v))]
        if isinstance(st, ast.Raise):
            exc = st.exc
            name = u(exc.func) if isinstance(exc, ast.Call) else (u(exc) if exc is not None else 'reraise')
            return [Path(env, conds, eff, ('raise', name))]
        if isinstance(st, ast.Continue):
            return [Path(env, conds, eff, ('continue',))]
        if isinstance(st, ast.Break):
            return [Path(env, conds, eff, ('break',))]
        if isinstance(st, ast.If):
            eff = list(eff)
            t = self.truth(self.ev(st.test, env, eff))
            out = []
            if t is not False:
                out += self.block(st.body, env, conds if t is True else conds + [(t, True)], eff)
            if t is not True:
                out += self.block(st.orelse, env, conds if t is False else conds + [(t, False)], eff)
            return out
        if isinstance(st, ast.Try):
            # handlers are followed only for exceptions a hook models; opaque calls are assumed not to raise
            self.assumptions.append('try at line %d: opaque calls in the body assumed not to raise' % st.lineno)
            out = []
            for p in self.block(st.body, env, conds, eff):
                if p.outcome is None:
                    out += self.block(st.orelse + st.finalbody, p.env, p.conds, p.effects)
                elif p.outcome[0] == 'raise' and self._handler(st, p.outcome[1]) is not None:
                    h = self._handler(st, p.outcome[1])
                    for q in self.block(h.body, p.env, p.conds, p.effects):
                        if q.outcome is None:
                            out += self.block(st.finalbody, q.env, q.conds, q.effects)
                        else:
                            out.append(q)
                else:
                    out.append(p)
            return out
        if isinstance(st, ast.For):
            eff = list(eff)
            it = self.ev(st.iter, env, eff)
            if not (isinstance(it, tuple) and not is_sym_bool(it)):
                raise AnalysisError('sympath: cannot unroll `for %s in %s` (line %d)' % (u(st.target), u(st.iter), st.lineno))
            states = [(env, conds, eff)]
            done = []
            for item in it:
                nxt = []
                for (en, co, ef) in states:
                    en = dict(en)
                    self.bind(st.target, item, en)
                    for p in self.block(st.body, en, co, ef):
                        if p.outcome is None or p.outcome == ('continue',):
                            nxt.append((p.env, p.conds, p.effects))
                        elif p.outcome == ('break',):
                            done.append(Path(p.env, p.conds, p.effects, None))
                        else:
                            done.append(p)
                states = nxt
            return done + [Path(en, co, ef, None) for (en, co, ef) in states]
        if isinstance(st, ast.While):
            states = [(env, conds, list(eff))]
            done = []
            for _round in range(65):
                nxt = []
                for (en, co, ef) in states:
                    t = self.truth(self.ev(st.test, en, ef))
                    if t is False:
                        done.append(Path(en, co, ef, None))
                        continue
                    if t is not True:
                        raise AnalysisError('sympath: `while %s` has a condition over unknowns (line %d)' % (u(st.test), st.lineno))
                    for p in self.block(st.body, en, co, ef):
                        if p.outcome is None or p.outcome == ('continue',):
                            nxt.append((p.env, p.conds, p.effects))
                        elif p.outcome == ('break',):
                            done.append(Path(p.env, p.conds, p.effects, None))
                        else:
                            done.append(p)
                states = nxt
                if not states:
                    return done
            raise AnalysisError('sympath: `while %s` not finished after 64 rounds (line %d)' % (u(st.test), st.lineno))
        raise AnalysisError('sympath: statement kind %s not modelled (line %d)' % (type(st).__name__, st.lineno))

    @staticmethod
    def _handler(st, name):
        for h in st.handlers:
            if h.type is None:
                return h
            names = [u(x) for x in h.type.elts] if isinstance(h.type, ast.Tuple) else [u(h.type)]
            if name in names or 'Exception' in names or 'BaseException' in names:
                return h
        return None

    def bind(self, target, v, env):
        if isinstance(target, (ast.Name, ast.Attribute)):
            env[u(target)] = v
        elif isinstance(target, (ast.Tuple, ast.List)):
            if isinstance(v, tuple) and not is_sym_bool(v) and len(v) == len(target.elts):
                for t, x in zip(target.elts, v):
                    self.bind(t, x, env)
            else:
                for t in target.elts:
                    self.bind(t, Opq(u(t)), env)
        elif isinstance(target, ast.Subscript):
            # a store into a modelled dict rebinds a copy; other container stores are effects the checkers look at in the ast
            t = u(target.value)
            if isinstance(env.get(t), dict) and not isinstance(target.slice, ast.Slice):
                k = self.ev(target.slice, env, [])
                if is_concrete(k):
                    d = dict(env[t])
                    d[k] = v
                    env[t] = d
        else:
            raise AnalysisError('sympath: assignment target %s not modelled' % type(target).__name__)

    def run(self, fn, env):
        return self.block(fn.body, dict(env), [], [])


def module_constants(mod):
    """module-level `NAME = <literal>` bindings (dict/tuple/str/int literals) as an initial environment"""
    env = {}
    for st in mod.tree.body:
        if isinstance(st, ast.Assign) and len(st.targets) == 1 and isinstance(st.targets[0], ast.Name):
            try:
                env[st.targets[0].id] = ast.literal_eval(st.value)
            except Exception:
                pass
    return env


def holds_tree(t, symvals, free):
    if t is True or t is False:
        return t
    k = t[0]
    if k == 'cmp':
        def val(x):
            if isinstance(x, Lin):
                return symvals[x.sym] + x.k
            return x
        return _CMPF[t[1]](val(t[2]), val(t[3]))
    if k == 'and':
        return all(holds_tree(x, symvals, free) for x in t[1])
    if k == 'or':
        return any(holds_tree(x, symvals, free) for x in t[1])
    if k == 'xor':
        return holds_tree(t[1][0], symvals, free) != holds_tree(t[1][1], symvals, free)
    if k == 'not':
        return not holds_tree(t[1], symvals, free)
    if k == 'free':
        if t[1] not in free:
            raise AnalysisError('sympath: free condition %r has no assignment' % t[1])
        return free[t[1]]
    raise AnalysisError('sympath: bad condition tree %r' % (t,))


def holds(path, symvals, free):
    return all(holds_tree(c, symvals, free) == truth for c, truth in path.conds)


def thresholds(paths):
    """integer constants the unknowns are compared with (adjusted for the Lin offset)"""
    out = set()

    def rec(t):
        if isinstance(t, tuple) and t:
            if t[0] == 'cmp':
                a, b = t[2], t[3]
                if isinstance(a, Lin) and isinstance(b, int):
                    out.add(b - a.k)
                elif isinstance(b, Lin) and isinstance(a, int):
                    out.add(a - b.k)
            elif t[0] in ('and', 'or', 'xor'):
                for x in t[1]:
                    rec(x)
            elif t[0] == 'not':
                rec(t[1])
    for p in paths:
        for c, _ in p.conds:
            rec(c)
    return out


def free_names(paths):
    out = set()

    def rec(t):
        if isinstance(t, tuple) and t:
            if t[0] == 'free':
                out.add(t[1])
            elif t[0] in ('and', 'or', 'xor'):
                for x in t[1]:
                    rec(x)
            elif t[0] == 'not':
                rec(t[1])
    for p in paths:
        for c, _ in p.conds:
            rec(c)
    return out
