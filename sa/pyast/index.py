"""E2: index of the Python sources of the repository (ast only, nothing imported)."""
import ast
import os

from .. import AnalysisError
from ..cast.loader import repo_root


class PyMod:
    def __init__(self, path, relname):
        self.path = path
        self.rel = relname
        try:
            with open(path, encoding='utf8') as f:
                self.source = f.read()
        except OSError:
            raise AnalysisError('anchor vanished: %s' % path)
        try:
            self.tree = ast.parse(self.source, filename=path)
        except SyntaxError as e:
            raise AnalysisError('cannot parse %s: %s' % (path, e))
        # statements that do nothing are not part of what the rules look at: `pass` next to other statements, and bare
        # constant expressions (docstrings) -- adding or removing them changes no behaviour
        for n in ast.walk(self.tree):
            for fld in ('body', 'orelse', 'finalbody'):
                b = getattr(n, fld, None)
                if isinstance(b, list) and b and all(isinstance(x, ast.stmt) for x in b):
                    keep = [x for x in b if not isinstance(x, ast.Pass) and not (isinstance(x, ast.Expr) and isinstance(x.value, ast.Constant))]
                    if keep and len(keep) != len(b):
                        b[:] = keep
        self.parents = {}
        for n in ast.walk(self.tree):
            for c in ast.iter_child_nodes(n):
                self.parents[c] = n
        self.defs = {}      # qualname -> node (FunctionDef / ClassDef), nested included
        self._collect(self.tree, '')
        # local names are relabelled with those of the reference tree, by binding (see sa/alpha.py)
        from .. import alpha
        alpha.normalise_py(relname, self.defs)

    def _collect(self, node, prefix):
        for c in ast.iter_child_nodes(node):
            if isinstance(c, (ast.FunctionDef, ast.AsyncFunctionDef, ast.ClassDef)):
                q = prefix + c.name
                self.defs.setdefault(q, c)
                self._collect(c, q + '.')
            elif isinstance(c, (ast.If, ast.Try, ast.With, ast.For, ast.While)):
                self._collect(c, prefix)

    def find(self, qualname):
        n = self.defs.get(qualname)
        if n is None:
            raise AnalysisError('anchor vanished: %s::%s' % (self.rel, qualname))
        return n

    def has(self, qualname):
        return qualname in self.defs

    def where(self, node):
        return '%s:%s' % (self.rel, getattr(node, 'lineno', '?'))

    def qualname_of(self, node):
        for q, n in self.defs.items():
            if n is node:
                return q
        return None

    def enclosing_def(self, node):
        p = self.parents.get(node)
        while p is not None and not isinstance(p, (ast.FunctionDef, ast.AsyncFunctionDef, ast.ClassDef)):
            p = self.parents.get(p)
        return p

    def toplevel_assign(self, name):
        """value node of a module-level `name = ...`"""
        for st in self.tree.body:
            if isinstance(st, ast.Assign):
                for t in st.targets:
                    if isinstance(t, ast.Name) and t.id == name:
                        return st.value
        raise AnalysisError('anchor vanished: %s::%s (module-level assignment)' % (self.rel, name))


_mods = {}


def pymod(rel, root=None):
    root = root or repo_root()
    key = (root, rel)
    if key not in _mods:
        _mods[key] = PyMod(os.path.join(root, rel), rel)
    return _mods[key]


def cffi_mod(name, root=None):
    return pymod('src/cffi/%s.py' % name, root)


def u(node):
    """normalised source of a node"""
    return ' '.join(ast.unparse(node).split())


def calls(node, name=None):
    """ast.Call nodes in subtree, optionally filtered on dotted callee text"""
    out = []
    for n in ast.walk(node):
        if isinstance(n, ast.Call):
            if name is None or u(n.func) == name or (isinstance(name, (set, tuple, list, frozenset)) and u(n.func) in name):
                out.append(n)
    return out


def own_nodes(fn):
    """nodes of a function body excluding nested function/class bodies (lambdas included)"""
    stack = [s for s in fn.body if not isinstance(s, (ast.FunctionDef, ast.AsyncFunctionDef, ast.ClassDef))]
    while stack:
        n = stack.pop()
        yield n
        for c in ast.iter_child_nodes(n):
            if isinstance(c, (ast.FunctionDef, ast.AsyncFunctionDef, ast.ClassDef)):
                continue
            stack.append(c)
