"""C27 — non-aggregate ctypes are canonical over any history (DESIGN §3 C27):
key completeness and cache discipline.

U1 for each constructor ending in get_unique_type every type-distinguishing input
   reaches a key slot by def-use, the slots 0..N-1 are all stored, N is what is passed;
U2 get_or_insert_unique_type returns the live object when the weak reference resolves,
   otherwise inserts a weak reference and records the key; remove_dead_unique_reference
   deletes only when the stored reference is dead;
U3 ctypedescr_dealloc clears weak references first and calls it iff a key was recorded;
U4 model.global_cache re-checks under global_lock before inserting; default key is
   (funcname, args).
"""
import ast

from ..cast import cx, rules
from ..cast.cfg import cfg_of, stmt_text
from ..cast.loader import backend_tu
from ..pyast.index import cffi_mod, u

# constructor -> inputs that distinguish two C types of that kind (confirmed by reading the constructors)
INPUTS = {
    'new_pointer_type': ['ctitem'],
    'new_array_type': ['ctptr', 'length'],
    'new_function_type': ['fresult', 'ellipsis', 'fabi', 'funcbuilder.nargs', 'fct->ct_stuff'],
    'new_primitive_type': ['ptypes'],
    'new_void_type': [],
}


def resolve_refs(fn, e, depth=0):
    """names read by an expression, following single-def locals one level"""
    out = set(cx.subexprs_text(e))
    if depth < 2:
        for name in list(cx.refs(e)):
            d = rules.single_def(fn, name)
            if d is not None:
                out |= resolve_refs(fn, d, depth + 1)
    return out


def u1(run, tu):
    callers = rules.callers_of(tu, 'get_unique_type')
    run.need(len(callers) == 5, 'constructors calling get_unique_type: %d (expected 5)' % len(callers))
    for fn, call in callers:
        f = tu.func(fn)
        g = cfg_of(tu, fn)
        node = g.node_of(call)
        args = cx.call_args(call)
        keyvar = cx.render(args[1])
        ntext = cx.render(args[2])
        stores = []
        for l, r, op, x in cx.assignments(f):
            ls = cx.strip(l) if l.get('kind') != 'VarDecl' else None
            if ls is not None and ls.get('kind') == 'ArraySubscriptExpr' and cx.render(cx.kids(ls)[0]) == keyvar and op == '=':
                stores.append((cx.render(cx.kids(ls)[1]), r, x))
        const_idx = sorted(int(i) for i, _r, _x in stores if i.isdigit())
        loop_idx = [i for i, _r, _x in stores if not i.isdigit()]
        nconst = cx.int_value(args[2])
        if nconst is not None:
            ok = const_idx == list(range(nconst)) and not loop_idx
            detail = 'slots stored %s, length passed %d' % (const_idx, nconst)
        else:
            # 3 + nargs with a loop storing unique_key[3 + i] for i < nargs
            ok = const_idx == [0, 1, 2] and loop_idx == ['3 + i'] and ntext == '3 + funcbuilder.nargs'
            loops = [n for n in g.nodes if n.kind == 'cond' and cx.render(n.ast) == 'i < funcbuilder.nargs']
            st = [g.node_of(x) for i, _r, x in stores if i == '3 + i']
            ok = ok and bool(loops) and bool(st) and any(st[0].id in g.reach([t]) for c in loops for t, l in c.succ if l == 'T')
            detail = 'fixed slots %s, loop slot %s, length %s' % (const_idx, loop_idx, ntext)
        run.ob('U1/every-key-slot-stored-and-counted', fn, 'get_unique_type(td, %s, %s)' % (keyvar, ntext), ok, tu.where(call), detail)
        # all stores dominate the call
        okd = all(g.must_precede(node.id, [g.node_of(x).id]) for i, _r, x in stores if i.isdigit())
        run.ob('U1/key-complete-before-lookup', fn, 'all %s[k] stores precede get_unique_type' % keyvar, okd, tu.where(call))
        reach = set()
        for _i, r, _x in stores:
            reach |= resolve_refs(f, r)
        for inp in INPUTS.get(fn, []):
            ok = inp in reach or any(t.startswith(inp) for t in reach)
            run.ob('U1/distinguishing-input-in-the-key', fn, '%s reaches a key slot' % inp, ok, tu.where(call),
                   None if ok else 'two types differing only in %s would share one ctype object; key reads %s' % (inp, sorted(x for x in reach if len(x) < 30)[:12]))
        if fn not in INPUTS:
            run.ob('U1/constructor-reviewed', fn, 'inputs table', False, tu.where(call), 'new constructor using the unique cache: add its distinguishing inputs')
    # function arguments: the tuple slots the key reads are filled from fargs (arrays decayed to pointers)
    f = tu.func('new_function_type')
    items = [c for c in cx.calls_in(f, 'PyTuple_SET_ITEM') if [cx.render(a) for a in cx.call_args(c)] == ['fct->ct_stuff', '2 + i', 'o']]
    src = [cx.render(r) for l, r, op, _x in cx.assignments(f) if cx.lhs_text(l) == 'o']
    ok = len(items) == 1 and any('fargs' in s_ for s_ in src)
    run.ob('U1/function-key-reads-the-decayed-argument-types', 'new_function_type', 'ct_stuff[2+i] = fargs[i] (arrays -> pointers); key[3+i] = ct_stuff[2+i]', ok, tu.where(f), str(src))
    # the flag word separates ellipsis from abi
    fl = [cx.render(r) for l, r, op, _x in cx.assignments(f) if cx.lhs_text(l) == 'unique_key[1]']
    ok = len(fl) == 1 and fl[0].replace(' ', '') in ('(fabi<<1)|!!ellipsis', '(fabi<<1)|(!!ellipsis)')
    run.ob('U1/ellipsis-and-abi-do-not-overlap-in-the-key', 'new_function_type', 'unique_key[1] = (fabi << 1) | !!ellipsis', ok, tu.where(f), str(fl))


def u2(run, tu):
    fn = 'get_or_insert_unique_type'
    g = cfg_of(tu, fn)
    f = tu.func(fn)
    rets = [n for n in g.nodes if n.kind == 'return' and n.id in g.live()]
    live_ret = [n for n in rets if rules.return_value(n) == 'obj']
    ok = len(live_ret) == 1 and 'T:obj != 0' in g.fact_texts(live_ret[0].id) and 'T:wr != 0' in g.fact_texts(live_ret[0].id)
    look = [c for c in cx.calls_in(f, ('PyDict_GetItemRef', 'PyDict_GetItemWithError', 'PyDict_GetItem'))]
    ok = ok and len(look) == 1 and [cx.render(a) for a in cx.call_args(look[0])][:2] == ['unique_cache', 'key']
    run.ob('U2/live-entry-is-returned', fn, 'if (wr resolves to obj != NULL) return obj', ok, tu.where(f))
    ins = [n for n in g.nodes if n.ast is not None and any(cx.render(cx.call_args(c)[0]) == 'unique_cache' for c in cx.calls_in(n.ast, 'PyDict_SetItem'))]
    ok = len(ins) == 1
    if ok:
        c = cx.calls_in(ins[0].ast, 'PyDict_SetItem')[0]
        ok = [cx.render(a) for a in cx.call_args(c)] == ['unique_cache', 'key', 'wr']
        wr = [cx.render(r) for l, r, op, _x in cx.assignments(f) if cx.lhs_text(l) == 'wr' and 'PyWeakref_NewRef' in cx.render(r)]
        ok = ok and wr == ['PyWeakref_NewRef(x, 0)']
        # insertion only when no live object was found
        pas = g.edges_of(lambda cn, l: cn.kind == 'cond' and ((cx.render(cn.ast) == 'obj != 0' and l == 'F') or (cx.render(cn.ast) == 'wr != 0' and l == 'F')))
        ok = ok and bool(pas) and g.must_pass_edges(ins[0].id, pas)
    run.ob('U2/dead-or-missing-entry-is-replaced-by-a-weak-reference', fn, 'wr = PyWeakref_NewRef(x); PyDict_SetItem(unique_cache, key, wr)', ok, tu.where(f))
    rec = [n for n in g.nodes if n.ast is not None and any(cx.lhs_text(l) == 'x->ct_unique_key' and cx.render(r) == 'key' for l, r, op, _x in cx.assignments(n.ast))]
    xret = [n for n in rets if rules.return_value(n) == 'x']
    ok = len(rec) == 1 and len(xret) == 1 and g.must_precede(xret[0].id, [rec[0].id]) and bool(ins) and g.must_precede(rec[0].id, [ins[0].id])
    run.ob('U2/inserted-type-remembers-its-key', fn, 'x->ct_unique_key = key; return x', ok, tu.where(f))
    fn = 'remove_dead_unique_reference'
    g = cfg_of(tu, fn)
    dl = [n for n in g.nodes if n.ast is not None and cx.calls_in(n.ast, 'PyDict_DelItem')]
    ok = len(dl) == 1
    if ok:
        facts = g.fact_texts(dl[0].id)
        ok = 'T:wr != 0' in facts and 'T:err == 0' in facts
        e = [cx.render(r) for l, r, op, _x in cx.assignments(tu.func(fn)) if cx.lhs_text(l) == 'err' and 'PyWeakref_GetRef' in cx.render(r)]
        ok = ok and e == ['PyWeakref_GetRef(wr, &tmp)']
        c = cx.calls_in(dl[0].ast, 'PyDict_DelItem')[0]
        ok = ok and [cx.render(a) for a in cx.call_args(c)] == ['unique_cache', 'unique_key']
    run.ob('U2/only-dead-references-are-deleted', fn, 'if (wr != NULL && PyWeakref_GetRef(wr, &tmp) == 0) PyDict_DelItem(unique_cache, unique_key)', ok, tu.where(tu.func(fn)))
    # who else touches unique_cache
    users = sorted({fnm for fnm, fnn in tu.functions.items() if tu.has_func(fnm) and 'unique_cache' in cx.refs(fnn)})
    run.ob('U2/cache-touched-only-by-its-three-functions', 'unique_cache', 'users of unique_cache', set(users) <= {'get_or_insert_unique_type', 'remove_dead_unique_reference', 'init_unique_cache', 'init_cffi_backend', 'PyInit__cffi_backend', 'b_init_module', 'init_global_types_dict'} and len(users) >= 2,
           None, str(users))


def u3(run, tu):
    fn = 'ctypedescr_dealloc'
    g = cfg_of(tu, fn)
    rm = [n for n in g.nodes if n.ast is not None and cx.calls_in(n.ast, 'remove_dead_unique_reference')]
    ok = len(rm) == 1 and 'T:ct->ct_unique_key != 0' in g.fact_texts(rm[0].id)
    if ok:
        c = cx.calls_in(rm[0].ast, 'remove_dead_unique_reference')[0]
        ok = cx.render(cx.call_args(c)[0]) == 'ct->ct_unique_key'
    run.ob('U3/dealloc-removes-its-own-entry', fn, 'if (ct->ct_unique_key != NULL) remove_dead_unique_reference(ct->ct_unique_key)', ok, tu.where(tu.func(fn)))
    cw = [n.id for n in g.nodes if n.ast is not None and cx.calls_in(n.ast, 'PyObject_ClearWeakRefs')]
    ok = bool(cw) and bool(rm) and g.must_precede(rm[0].id, cw)
    run.ob('U3/weak-references-cleared-before-removal', fn, 'PyObject_ClearWeakRefs(ct) precedes remove_dead_unique_reference', ok, tu.where(tu.func(fn)))
    # every ctype starts without a key
    init = [fnm for fnm, fnn in tu.functions.items() if tu.has_func(fnm) and any(
        cx.lhs_text(l).endswith('->ct_unique_key') and cx.is_null(r) for l, r, op, _x in cx.assignments(fnn))]
    run.ob('U3/new-ctypes-start-without-a-key', 'ctypedescr_new', 'ct->ct_unique_key = NULL', 'ctypedescr_new' in init, None, str(init))
    writers = sorted({fnm for fnm, fnn in tu.functions.items() if tu.has_func(fnm) and any(
        cx.lhs_text(l).endswith('->ct_unique_key') for l, r, op, _x in cx.assignments(fnn))})
    run.ob('U3/key-field-written-only-by-constructor-and-cache', 'ct_unique_key', 'writers', writers == ['ctypedescr_new', 'get_or_insert_unique_type'], None, str(writers))


def u4(run):
    m = cffi_mod('model')
    f = m.find('global_cache')
    keydef = [s for s in f.body if isinstance(s, ast.Assign) and u(s.targets[0]) == 'key']
    ok = len(keydef) == 1 and u(keydef[0].value) == "kwds.pop('key', (funcname, args))"
    run.ob('U4/default-key-is-constructor-and-arguments', 'global_cache', "key = kwds.pop('key', (funcname, args))", ok, m.where(f))
    w = [s for s in ast.walk(f) if isinstance(s, ast.With) and u(s.items[0].context_expr) == 'global_lock']
    ok = len(w) == 1
    if ok:
        body = [u(s) for s in w[0].body]
        ok = body[0] == 'res1 = cache.get(key)' and isinstance(w[0].body[1], ast.If) and u(w[0].body[1].test) == 'res1 is None'
        ins = [s for s in ast.walk(w[0]) if isinstance(s, ast.Assign) and u(s.targets[0]) == 'cache[key]']
        ok = ok and len(ins) == 1 and u(ins[0].value) == 'res' and ins[0] in w[0].body[1].body
        rets = [u(s.value) for s in ast.walk(w[0]) if isinstance(s, ast.Return)]
        ok = ok and sorted(rets) == ['res', 'res1']
        outside = [s for s in ast.walk(f) if isinstance(s, ast.Assign) and u(s.targets[0]).startswith('cache[') and s not in list(ast.walk(w[0]))]
        ok = ok and not outside
    run.ob('U4/insert-rechecked-under-the-lock', 'global_cache', 'with global_lock: res1 = cache.get(key); if res1 is None: cache[key] = res', ok, m.where(f))
    fast = [s for s in ast.walk(f) if isinstance(s, ast.Return) and u(s.value) == 'ffi._typecache[key]']
    run.ob('U4/cached-type-returned-first', 'global_cache', 'return ffi._typecache[key]', len(fast) == 1, m.where(f))
    wk = [s for s in m.tree.body if isinstance(s, ast.Assign) and u(s.targets[0]) == '_typecache_cffi_backend']
    run.ob('U4/python-cache-holds-weak-values', 'model', '_typecache_cffi_backend = weakref.WeakValueDictionary()', len(wk) == 1 and u(wk[0].value) == 'weakref.WeakValueDictionary()', 'src/cffi/model.py')


def check(run):
    run.explanation = (
        'Key completeness by def-use for the five constructors that end in get_unique_type (every key slot 0..N-1 stored '
        'before the lookup, N as passed, each type-distinguishing input reaching a slot, ellipsis and abi in disjoint bits, '
        'argument types read after array decay), and cache discipline on the CFG: a resolving weak reference returns the '
        'live object, otherwise a weak reference to the new object is inserted and the key recorded; only dead entries are '
        'deleted; dealloc clears weak references first and removes exactly its own entry; the key field and the cache have '
        'no other writers. Python-side cache: insert re-checked under the lock, weak values.')
    tu = backend_tu()
    u1(run, tu)
    u2(run, tu)
    u3(run, tu)
    u4(run)
    run.min_instances('U1', 18)
    run.min_instances('U2', 5)
    run.min_instances('U3', 4)
    run.min_instances('U4', 4)
    run.assume('LOCK_UNIQUE_CACHE expands to nothing on this (GIL) build and is not checked; key words are object addresses kept alive by the type that owns the key')
    run.assume('behaviour over actual GC histories is not decided')
