"""C07 — the Python and the C type-string parsers denote the same type (one structural clause:
sequences of primitive type specifiers).

Equivalence of the two parsers over the whole declarator grammar is a language-equivalence
question and is NOT decided.  What is decided is the part both parsers implement as a small
table: which primitive a sequence of specifiers denotes.

S1 the C parser's specifier phase (parse_complete) is extracted as an automaton: one iteration of
   the `modifiers:` loop and the base-type phase are evaluated by constant propagation (SCCP on the
   clang-AST CFG, nothing executed) for every state (length, sign) x token; the result is a
   transition table and a (state, base token) -> primitive / reject table.
S2 the Python parser's normalisation of `IdentifierType.names` (Parser._get_type_and_quals) is
   walked symbolically for every sequence of up to four modifiers followed by an optional base
   keyword (2387 sequences); the resulting identifier is a primitive iff it is a key of
   PrimitiveType.ALL_PRIMITIVE_TYPES (what resolve_common_type accepts).
S3 for every sequence the two answers agree: the same primitive, or both reject.
"""
import ast
import itertools

from .. import AnalysisError
from ..cast import cx, absint, rules
from ..cast.absint import Con, TOP
from ..cast.cfg import cfg_of, stmt_text
from ..cast.loader import backend_tu
from ..pyast.index import cffi_mod, u
from ..pyast import sympath as sp

MODS = ('short', 'long', 'signed', 'unsigned')
BASES = (None, 'int', 'char', 'double', 'float', 'void', '_Bool')


def token_values(tu):
    e = tu.enums.get('token_e')
    if e is None:
        raise AnalysisError('anchor vanished: enum token_e')
    vals, cur = {}, -1
    for c in cx.kids(e):
        if c.get('kind') == 'EnumConstantDecl':
            ks = cx.kids(c)
            v = cx.int_value(ks[0]) if ks else None
            cur = v if v is not None else cur + 1
            vals[c['name']] = cur
    return vals


def c_automaton(run, tu):
    F = 'parse_complete'
    g = cfg_of(tu, F)
    TOK = token_values(tu)
    labels = [n for n in g.nodes if n.kind == 'label']
    # the `modifiers:` label is the one whose switch tests tok->kind and whose cases include TOK_SHORT
    sw = [n for n in g.nodes if n.kind == 'switch' and cx.render(n.ast) == 'tok->kind']
    mod_sw = None
    for s in sw:
        labs = {l[1] for _t, l in s.succ if l[0] == 'case'}
        if {'TOK_SHORT', 'TOK_LONG', 'TOK_SIGNED', 'TOK_UNSIGNED'} <= labs:
            mod_sw = s
    if mod_sw is None:
        raise AnalysisError('%s: the switch over the modifier keywords not found' % F)
    mod_label = [n for n in labels if any(t == mod_sw.id for t, _l in n.succ)]
    run.need(len(mod_label) == 1, '%s: the label in front of the modifier switch not found' % F)
    after = [t for t, l in mod_sw.succ if l[0] == 'default']
    run.need(len(after) == 1, '%s: the modifier switch has no default exit' % F)
    errs = {n.id for n in g.nodes if n.kind == 'return' and any(cx.callee_name(c) == 'parse_error' for c in cx.calls_in(n.ast))}
    t1nodes = [n for n in g.nodes if n.ast is not None and n.kind == 'stmt' and any(cx.lhs_text(a[0]) == 't1' and a[2] == '=' for a in cx.assignments(n.ast))]
    t1succ = {t for n in t1nodes for t, _l in n.succ}
    prim_idx = rules.macro_flags(tu, '_CFFI_PRIM_')
    OPS = rules.macro_flags(tu, '_CFFI_OP_')
    const = {k: Con(v, 32, True) for k, v in TOK.items()}

    def mk(kind, length, sign):
        env = dict(const)
        env.update({'tok->kind': Con(kind, 32, True), 'modifiers_length': Con(length, 32, True), 'modifiers_sign': Con(sign, 32, True)})
        calls = []

        def nt(args, node, e):
            calls.append(1)
            e.pop('tok->kind', None)
            return TOP
        nt.wants_env = True
        return env, {'next_token': nt}, calls
    trans = {}

    def step(length, sign, m):
        if (length, sign, m) not in trans:
            if True:
                env, hooks, calls = mk(TOK['TOK_' + m.upper()], length, sign)
                it = absint.Interp(g, env, hooks, const_vars=set(TOK))
                it.run_from(mod_sw.id, env, {mod_label[0].id} | errs | set(after))
                hit_err = [x for x in errs if x in it.in_state]
                st = it.in_state.get(mod_label[0].id)
                if hit_err and st is None:
                    trans[(length, sign, m)] = 'reject'
                elif st is not None and not hit_err:
                    nl, ns = st.get('modifiers_length'), st.get('modifiers_sign')
                    if not (isinstance(nl, Con) and isinstance(ns, Con)) or len(calls) != 1:
                        raise AnalysisError('%s: modifier step (%d, %d, %s) does not yield a constant state and one token advance' % (F, length, sign, m))
                    trans[(length, sign, m)] = (nl.v, ns.v)
                else:
                    raise AnalysisError('%s: modifier step (%d, %d, %s) is not deterministic under constant propagation' % (F, length, sign, m))
        return trans[(length, sign, m)]
    base = {}

    def basef(length, sign, b):
        if (length, sign, b) not in base:
            if True:
                kind = TOK['TOK_END'] if b is None else TOK['TOK_' + b.upper()]
                env, hooks, calls = mk(kind, length, sign)
                it = absint.Interp(g, env, hooks, const_vars=set(TOK))
                it.run_from(after[0], env, errs | t1succ)
                hit_err = [x for x in errs if x in it.in_state]
                hit_ok = [x for x in t1succ if x in it.in_state]
                if hit_err and not hit_ok:
                    base[(length, sign, b)] = 'reject'
                elif hit_ok and not hit_err:
                    vals = {repr(it.in_state[x].get('t1')) for x in hit_ok}
                    t1 = it.in_state[hit_ok[0]].get('t1')
                    if len(vals) != 1 or not isinstance(t1, Con):
                        raise AnalysisError('%s: base phase (%d, %d, %s) does not yield a constant opcode' % (F, length, sign, b))
                    if (t1.v & 0xff) != OPS['_CFFI_OP_PRIMITIVE']:
                        raise AnalysisError('%s: base phase (%d, %d, %s) yields a non-primitive opcode %#x' % (F, length, sign, b, t1.v))
                    base[(length, sign, b)] = t1.v >> 8
                else:
                    raise AnalysisError('%s: base phase (%d, %d, %s) is not deterministic under constant propagation' % (F, length, sign, b))
        return base[(length, sign, b)]
    return step, basef, (trans, base)


def c_result(step, basef, seq, b):
    length = sign = 0
    for m in seq:
        r = step(length, sign, m)
        if r == 'reject':
            return 'reject'
        length, sign = r
    return basef(length, sign, b)


def py_result(fn_body, names, prims):
    """identifier the Python normalisation produces for IdentifierType.names == names"""
    rec = []
    ev = sp.Evaluator({'resolve_common_type': lambda a, k, e, f: rec.append(a[1]) or (sp.Opq('tp0'), 0), 'list': lambda a, k, e, f: a[0]})
    ps = ev.block(fn_body, {'type': {'names': tuple(names)}, 'quals': 0}, [], [])
    outs = [p for p in ps]
    if len(outs) != 1:
        raise AnalysisError('Parser._get_type_and_quals: %d paths for names=%r (conditions over unknowns: %s)' % (len(outs), names, sorted(sp.free_names(ps))))
    o = outs[0].outcome
    if o is not None and o[0] == 'raise':
        return 'reject'
    if o is not None and o[0] == 'return' and isinstance(o[1], tuple) and len(o[1]) == 2 and isinstance(o[1][0], sp.Opq) and o[1][0].text == 'model.void_type':
        return 'void'
    if len(rec) != 1 or not isinstance(rec[0], str):
        raise AnalysisError('Parser._get_type_and_quals: names=%r does not reach resolve_common_type with a constant identifier' % (names,))
    return rec[0] if rec[0] in prims else 'reject'


def s4(run):
    """the in-line parser takes a type string only if it parsed as the single parameter of the single declaration
    `void __dummy(...)`: everything else is rejected with a cffi error (as the C parser rejects it)"""
    cp = cffi_mod('cparser')
    fn = cp.find('Parser.parse_type_and_quals')

    def node(cls, **kw):
        d = {'__class__': cls}
        d.update(kw)
        return d

    def h_isinstance(a, k, e, f):
        if len(a) == 2 and isinstance(a[1], sp.Opq):
            return isinstance(a[0], dict) and a[0].get('__class__') == a[1].text.split('.')[-1]
        return sp.Opq('isinstance(?)')
    param = node('Typename', type=node('TypeDecl'))
    good = node('Decl', name='__dummy', type=node('FuncDecl', type=node('TypeDecl'), args=node('ParamList', params=(param,))))
    typedef = node('Typedef', name='__dotdotdot__')
    cases = [
        ('a single type', (typedef, good), True),
        ('the empty string (no parameter list)', (typedef, node('Decl', name='__dummy', type=node('FuncDecl', type=node('TypeDecl'), args=None))), False),
        ('two comma-separated types', (typedef, node('Decl', name='__dummy', type=node('FuncDecl', type=node('TypeDecl'), args=node('ParamList', params=(param, param))))), False),
        ('text that closes the dummy declaration and opens another one', (typedef, good, node('Decl', name='f', type=node('FuncDecl', type=node('TypeDecl'), args=node('ParamList', params=(param,))))), False),
        ('text that re-declares the dummy', (typedef, good, good), False),
        ('text that turns the dummy into a function returning a function', (typedef, node('Decl', name='__dummy', type=node('FuncDecl', type=node('FuncDecl'), args=node('ParamList', params=(param,))))), False),
    ]
    for label, ext, want_ok in cases:
        rec = []
        ev = sp.Evaluator({'isinstance': h_isinstance, 'self._parse': lambda a, k, e, f, ext=ext: ({'ext': ext}, (), 'src'),
                           'self._get_type_and_quals': lambda a, k, e, f: rec.append(a) or sp.Opq('type')})
        ps = ev.run(fn, {'cdecl': 'TEXT'})
        if len(ps) != 1:
            raise AnalysisError('Parser.parse_type_and_quals: %d paths for %s (conditions over unknowns: %s)' % (len(ps), label, sorted(sp.free_names(ps))))
        o = ps[0].outcome
        accepted = o is not None and o[0] == 'return' and len(rec) == 1
        rejected = o is not None and o[0] == 'raise' and o[1] in ('CDefError', 'FFIError', 'api.CDefError')
        run.ob('S4/type-string-must-be-a-single-type', 'Parser.parse_type_and_quals', label, accepted if want_ok else rejected, cp.where(fn),
               'outcome %r' % (o,))


def s5(run, tu):
    """white space between tokens is not significant: the parser may look at the *text* after the current token only
    through a scan that skips white space first (the Python parser never sees white space at all)"""
    names = [n for n, f in tu.functions.items() if tu.has_func(n) and (tu.rel(f.get('file')) or '').endswith('parse_c_type.c')]
    run.need(len(names) >= 5, 'functions of parse_c_type.c not found')
    n_sites = 0
    for name in sorted(names):
        if name in ('next_token',):
            continue            # the tokenizer itself
        fn = tu.func(name)
        raw = []
        for x in cx.walk(fn):
            if cx.is_expr(x) and x.get('kind') == 'ArraySubscriptExpr' and cx.render(x).replace(' ', '').startswith('tok->p[tok->size'):
                raw.append(x)           # the character after the token, read directly
            elif x.get('kind') == 'VarDecl' and x.get('init') and cx.kids(x) and cx.render(cx.kids(x)[-1]).replace(' ', '') == 'tok->p+tok->size':
                raw.append(x)           # a cursor set to the text after the token (to be scanned)
        if not raw:
            continue
        skips = any(st.get('kind') in ('WhileStmt', 'ForStmt', 'DoStmt') and 'is_space' in cx.called_names(st) for st in cx.walk(fn))
        for x in raw:
            n_sites += 1
            direct_char = x.get('kind') == 'ArraySubscriptExpr'
            run.ob('S5/text-after-a-token-is-examined-past-white-space', name, cx.render(x) if direct_char else '%s = tok->p + tok->size' % x.get('name'), skips and not direct_char, tu.where(x),
                   'the character right after the token is examined as is: `(void )` or `( void)` would then differ from `(void)`, which the in-line parser cannot distinguish')
    run.need(n_sites >= 1, 'parse_c_type.c: no look-ahead past the current token found (the lone-void test changed shape)')


def _libc_strtoul_base0(text):
    """ISO C strtoul(text, &end, 0) for text starting with a digit: (value, number of characters consumed)"""
    hexd = '0123456789abcdefABCDEF'
    if text[:1] == '0' and text[1:2] in ('x', 'X') and text[2:3] in hexd and text[2:3] != '':
        i = 2
        while i < len(text) and text[i] in hexd:
            i += 1
        return int(text[2:i], 16), i
    if text[:1] == '0':
        i = 1
        while i < len(text) and text[i] in '01234567':
            i += 1
        return int(text[:i], 8), i
    i = 0
    while i < len(text) and text[i] in '0123456789':
        i += 1
    return int(text[:i], 10), i


def s6(run, tu):
    """array lengths spelled as decimal, octal or hexadecimal literals: both parsers accept the same spellings with the same value.
    C side: the character classes, the extent of an integer token (one pass through the tokenizer branch and one loop iteration, by
    constant propagation) and the `strtoul(p, &end, 0)` / `end == p + size` acceptance test; Python side: Parser._parse_constant walked
    symbolically (the same walk as C09 L1) on one representative of every spelling class"""
    import re
    from . import c09
    # (a) character classes, for all 256 values
    cls = {}
    for name in ('is_digit', 'is_hex_digit'):
        g = cfg_of(tu, name)
        acc = set()
        for c in range(256):
            def sub(a, e, _n='is_digit'):
                v = a[0] if a else TOP
                return Con(1 if isinstance(v, Con) and chr(v.v & 255) in '0123456789' and 'is_digit' in cls and (v.v & 255) in cls['is_digit'] else 0, 32, True) if isinstance(v, Con) else TOP
            it = absint.Interp(g, {'x': Con(c if c < 128 else c - 256, 8, True)}, {'is_digit': sub}, const_vars={'x'}).run()
            vals = set(it.returns.values())
            if len(vals) != 1 or not isinstance(next(iter(vals)), Con):
                raise AnalysisError('%s(%d): not decided by constant propagation' % (name, c))
            if next(iter(vals)).v != 0:
                acc.add(c)
        cls[name] = acc
    want = {'is_digit': set(map(ord, '0123456789')), 'is_hex_digit': set(map(ord, '0123456789abcdefABCDEF'))}
    for name in want:
        run.ob('S6/character-classes-of-a-number', name, 'accepts exactly %s' % ''.join(sorted(map(chr, want[name]))), cls[name] == want[name], tu.where(tu.func(name)),
               'differs on %r' % ''.join(map(chr, sorted(cls[name] ^ want[name]))))
    # (b) extent of an integer token
    F = 'next_token'
    g = cfg_of(tu, F)
    kinds = token_values(tu)
    start = [n for n in g.nodes if n.kind != 'cond' and n.ast is not None and stmt_text(n.ast).replace(' ', '') == 'tok->kind=TOK_INTEGER']
    run.need(len(start) == 1, '%s: the branch that starts a number was not found' % F)
    loop = [n for n in g.nodes if n.kind == 'cond' and 'is_hex_digit' in cx.render(n.ast) and 'tok->size' in cx.render(n.ast)]
    run.need(len(loop) == 1, '%s: the loop that extends a number over hexadecimal digits was not found' % F)
    loop = loop[0]
    guard = [n for n in g.nodes if n.kind == 'cond' and cx.render(n.ast).replace(' ', '') == 'is_digit(*p)']
    run.need(len(guard) == 1 and g.must_precede(start[0].id, [guard[0].id]), '%s: a number no longer starts where is_digit(*p) holds' % F)
    hooks = {'is_hex_digit': lambda a, e: Con(1 if isinstance(a[0], Con) and (a[0].v & 255) in cls['is_hex_digit'] else 0, 32, True) if a and isinstance(a[0], Con) else TOP,
             'is_digit': lambda a, e: Con(1 if isinstance(a[0], Con) and (a[0].v & 255) in cls['is_digit'] else 0, 32, True) if a and isinstance(a[0], Con) else TOP}
    bad0 = []
    for c1 in range(256):
        env = {'p[1]': Con(c1 if c1 < 128 else c1 - 256, 8, True)}
        it = absint.Interp(g, env, hooks, const_vars={'p[1]'})
        it.run_from(start[0].id, env, {loop.id})
        st = it.in_state.get(loop.id) or {}
        v = st.get('tok->size')
        wantsz = 2 if chr(c1) in 'xX' else 1
        if not (isinstance(v, Con) and v.v == wantsz):
            bad0.append((chr(c1), v))
    run.ob('S6/number-token-starts-with-a-digit-and-an-optional-x', F, 'tok->size = 1, or 2 when the second character is x or X', not bad0, tu.where(start[0].ast),
           'second character %r gives size %r' % bad0[0] if bad0 else '')
    body = [t for t, l in loop.succ if l == 'T']
    exits = [t for t, l in loop.succ if l == 'F']
    run.need(len(body) == 1 and len(exits) == 1, '%s: number loop shape' % F)
    badl = []
    for k in (1, 2, 3, 7):
        for c in range(256):
            env = {'tok->size': Con(k, 64, False), 'p[%d]' % k: Con(c if c < 128 else c - 256, 8, True)}
            it = absint.Interp(g, env, hooks, const_vars={'p[%d]' % k})
            it.run_from(loop.id, env, {loop.id, exits[0]} if False else {exits[0]})
            # one pass: either straight to the exit with the size unchanged, or back at the loop head with size + 1
            st_exit = it.in_state.get(exits[0])
            inhex = c in cls['is_hex_digit']
            if inhex:
                # the loop head is revisited with k+1 and then p[k+1] is unknown: both successors become reachable; the size at the exit is then not k
                it2 = absint.Interp(g, env, hooks, const_vars={'p[%d]' % k})
                it2.run_from(body[0], env, {loop.id})
                v = (it2.in_state.get(loop.id) or {}).get('tok->size')
                if not (isinstance(v, Con) and v.v == k + 1):
                    badl.append((k, chr(c), v))
            else:
                v = (st_exit or {}).get('tok->size')
                if not (isinstance(v, Con) and v.v == k):
                    badl.append((k, chr(c), v))
    run.ob('S6/number-token-extends-over-hexadecimal-digits-only', F, 'while (is_hex_digit(p[tok->size])) tok->size++', not badl, tu.where(loop.ast),
           'size %d, next character %r: size becomes %r' % badl[0] if badl else '')
    after = g.reach([exits[0]], include_start=True)
    rets = [n for n in g.nodes if n.id in after and n.kind == 'return']
    # (c) the acceptance test in parse_sequel
    P = 'parse_sequel'
    pg = cfg_of(tu, P)
    pf = tu.func(P)
    convs = [c for c in cx.calls_in(pf) if cx.callee_name(c) in ('strtoul', 'strtoull', '_strtoui64')]
    run.need(len(convs) >= 2, '%s: the strtoul/strtoull calls on an integer token were not found' % P)
    okc = all([cx.render(cx.strip(a, casts=True)).replace(' ', '') for a in cx.call_args(c)] == ['tok->p', '&endptr', '0'] for c in convs)
    run.ob('S6/length-converted-by-strtoul-with-base-0', P, '; '.join(sorted({cx.render(c) for c in convs})), okc, tu.where(convs[0]))
    test = [n for n in pg.nodes if n.kind == 'cond' and cx.render(n.ast).replace(' ', '') == 'endptr!=tok->p+tok->size']
    okt = len(test) == 1 and any(l == 'T' and pg.nodes[t].kind == 'return' and 'parse_error' in cx.called_names(pg.nodes[t].ast) for t, l in test[0].succ)
    run.ob('S6/whole-token-must-be-the-number', P, 'if (endptr != tok->p + tok->size) return parse_error(...)', okt, tu.where(test[0].ast) if test else tu.where(pf))
    if bad0 or badl or not okc or not okt or any(cls[n_] != want[n_] for n_ in want):
        return

    def c_side(text):
        ext = 2 if text[1:2] in ('x', 'X') else 1
        while ext < len(text) and ord(text[ext]) in cls['is_hex_digit']:
            ext += 1
        if ext != len(text):
            return None         # the rest would be another token: outside the classes compared here
        val, used = _libc_strtoul_base0(text)
        return ('accept', val) if used == ext else ('reject',)

    cp = cffi_mod('cparser')
    fn = cp.find('Parser._parse_constant')
    modenv = sp.module_constants(cp)
    reps = [('7', 'decimal'), ('10', 'decimal'), ('1234567890', 'decimal'), ('0', 'zero'), ('00', 'octal zero'), ('010', 'octal'), ('0777', 'octal'),
            ('08', 'bad octal'), ('0179', 'bad octal'), ('0x1f', 'hex'), ('0X1F', 'hex, upper-case prefix'), ('0x1F', 'hex, upper-case digits'), ('0Xab', 'hex, upper-case prefix'),
            ('0xABCdef', 'hex, mixed case'), ('0x0', 'hex zero'), ('0X0', 'hex zero, upper-case prefix'), ('12ab', 'decimal followed by letters'), ('0xfg'[:3], 'hex')]
    for text, clsname in reps:
        c = c_side(text)
        run.need(c is not None, 'S6: representative %r is not one token' % text)
        ev = sp.Evaluator({'isinstance': c09.h_isinstance, 'int': c09.h_int, 'ord': c09.h_ord})
        env = dict(modenv)
        env['exprnode'] = {'__class__': 'Constant', 'value': text, 'coord': {'line': 1}}
        paths = ev.run(fn, env)
        if len(paths) != 1:
            raise AnalysisError('Parser._parse_constant: literal %r gives %d paths' % (text, len(paths)))
        o = paths[0].outcome
        if o is not None and o[0] == 'raise' and o[1] in c09.REJECT:
            py = ('reject',)
        elif o is not None and o[0] == 'return' and c09.value_of(o[1]) is not None:
            py = ('accept', c09.value_of(o[1]))
        else:
            raise AnalysisError('Parser._parse_constant: literal %r: outcome %r not understood' % (text, o))
        run.ob('S6/array-length-spellings-accepted-alike', 'Parser._parse_constant / parse_sequel', '[%s] (%s)' % (text, clsname), py == c, cp.where(fn),
               'the in-line parser: %s; the C parser: %s' % (py, c))


def s7(run, tu):
    """parenthesised declarators: after `(` the C parser decides "grouping" or "parameter list" from the next token.  In C (and for pycparser)
    an abstract declarator in parentheses starts with `*` or `[` (or another `(`); the C parser's test must accept at least `*` and `[`,
    or `int ([3])` / `int *([N])` denote a type for the in-line parser and are rejected by the compiled one"""
    F = 'parse_sequel'
    g = cfg_of(tu, F)
    toks = token_values(tu)
    # the disjuncts `tok->kind == K` that are evaluated under the `check_for_grouping` test and lead to the grouping branch
    guard = [n for n in g.nodes if n.kind == 'cond' and 'check_for_grouping' in cx.render(n.ast)]
    run.need(len(guard) >= 1, '%s: the grouping test not found' % F)
    kinds = set()
    it = absint.Interp(g, {})
    for n in g.nodes:
        if n.kind == 'cond' and n.ast.get('kind') == 'BinaryOperator' and n.ast.get('opcode') == '==' and cx.render(cx.kids(n.ast)[0]) == 'tok->kind':
            facts = g.fact_texts(n.id)
            if any(f.startswith('T:') and 'check_for_grouping' in f for f in facts):
                rhs = cx.render(cx.strip(cx.kids(n.ast)[1], casts=True))
                if rhs in toks:
                    kinds.add(toks[rhs])
                else:
                    v = it.ev(cx.kids(n.ast)[1], {})
                    if isinstance(v, Con):
                        kinds.add(v.v)
    names = {v: k for k, v in toks.items()} if isinstance(toks, dict) else {}
    shown = sorted(chr(k) if 32 < k < 127 else names.get(k, str(k)) for k in kinds)
    need = {ord('*'), ord('[')}
    run.ob('S7/grouping-parentheses-recognised-before-star-and-bracket', F, 'after `(`: grouping if the next token is one of %s' % shown, need <= kinds, tu.where(guard[0].ast),
           'missing %s: `int (%s3])`-style declarators are a type for the in-line parser and a parse error for the C parser' % (sorted(chr(k) for k in need - kinds), '['))


def check(run):
    run.technique = ('sibling decision tables: the specifier automaton of the C parser extracted by constant propagation over the CFG of parse_complete '
                     '(per state x token), the Python normalisation walked symbolically per specifier sequence; compared on all 2387 sequences')
    tu = backend_tu()
    trans, base, tables = c_automaton(run, tu)
    idx_name = {}
    op = cffi_mod('cffi_opcode')
    p2i = ast.literal_eval(ast.unparse(op.toplevel_assign('PRIMITIVE_TO_INDEX')).replace('PRIM_', '"PRIM_').replace(',', '",').replace('}', '"}')) if False else None
    # name of each primitive index, from the C side's own macro names via the Python table
    d = op.toplevel_assign('PRIMITIVE_TO_INDEX')
    consts = {}
    for st in op.tree.body:
        if isinstance(st, ast.Assign) and isinstance(st.targets[0], ast.Name) and st.targets[0].id.startswith('PRIM_') and isinstance(st.value, ast.Constant):
            consts[st.targets[0].id] = st.value.value
    for k, v in zip(d.keys, d.values):
        idx_name[consts[u(v)]] = ast.literal_eval(k)
    idx_name[consts.get('PRIM_VOID', 0)] = 'void'
    m = cffi_mod('model')
    prims = set()
    cls = m.find('PrimitiveType')
    for st in cls.body:
        if isinstance(st, ast.Assign) and u(st.targets[0]) == 'ALL_PRIMITIVE_TYPES':
            prims = {ast.literal_eval(k) for k in st.value.keys}
    run.need(len(prims) > 30, 'PrimitiveType.ALL_PRIMITIVE_TYPES not found')
    cp = cffi_mod('cparser')
    fn = cp.find('Parser._get_type_and_quals')
    branch = None
    for n in ast.walk(fn):
        if isinstance(n, ast.If) and 'IdentifierType' in u(n.test) and u(n.test).startswith('isinstance(type,'):
            branch = n
    run.need(branch is not None, 'Parser._get_type_and_quals: the IdentifierType branch not found')
    groups = {}
    n = 0
    for k in range(0, 5):
        for seq in itertools.product(MODS, repeat=k):
            for b in BASES:
                if k == 0 and b is None:
                    continue
                names = list(seq) + ([b] if b else [])
                c = c_result(trans, base, seq, b)
                cname = 'reject' if c == 'reject' else idx_name.get(c, '?index %s' % c)
                pname = py_result(branch.body, names, prims)
                n += 1
                key = ' '.join(sorted(set(seq))) + ' + ' + (b or 'no base')
                g_ = groups.setdefault(key, {'n': 0, 'bad': []})
                g_['n'] += 1
                if cname != pname:
                    g_['bad'].append((' '.join(names), pname, cname))
    for key, g_ in sorted(groups.items()):
        bad = g_['bad']
        run.ob('S3/specifier-sequences-denote-the-same-primitive', 'Parser._get_type_and_quals / parse_complete', 'specifiers {%s}: %d orderings and multiplicities' % (key, g_['n']),
               not bad, cp.where(branch), ('%r: the Python parser gives %s, the C parser gives %s' % bad[0]) + (' (and %d more)' % (len(bad) - 1) if len(bad) > 1 else '') if bad else 'agree')
    run.saw('specifier sequences compared', ['%d' % n])
    run.saw('C automaton entries (state x modifier, state x base) evaluated', ['%d + %d' % (len(tables[0]), len(tables[1]))])
    run.assume('pycparser hands the specifiers over in source order in IdentifierType.names (its grammar accepts any sequence of specifiers); '
               'decided: the specifier tables of the two parsers; NOT decided: declarators, qualifiers, arrays, function types, typedef and tag lookup; S4 decides that text which is not one type is rejected by the in-line parser too')
    s4(run)
    s5(run, tu)
    s6(run, tu)
    s7(run, tu)
    run.min_instances('S3', 60)
    run.min_instances('S4', 6)
    run.min_instances('S6', 20)
