"""C09 — integer constant expressions in cdef evaluate as C evaluates them (structural clauses).

The property quantifies over expression trees; what is decided here is the finite part the
trees are built from -- the per-node *dispatch tables* of the evaluator:

L1 literal forms: Parser._parse_constant's Constant branch and Parser._add_integer_constant are
   walked symbolically (sa/pyast/sympath.py, nothing executed) on one representative of every
   literal class {decimal, octal, hex, binary} x {no suffix, u, l, ul, LL, ...} x case, and of
   every character-constant class {plain, each simple escape, one-digit octal escape}.  The
   conversion the path applies (int(<digits>, <base>) / ord / table lookup) must denote the C
   value of the class, or the path must reject the literal with CDefError/FFIError.
L2 the suffix is only stripped: if nothing else reads it the C *type* of the literal (unsigned
   arithmetic wraps) is lost -- a contradiction with "as C evaluates them" that is a known finding.
O1 binary operators: for each of + - * / % << >> & | ^ the node {op, left, right} is walked;
   the result must be the same-named operator applied to (left, right) in this order, `/`
   must go through _c_div(left, right), `%` must be left - _c_div(left, right) * right.
O2 _c_div: over the sign classes of (a, b) and {remainder zero, non-zero} the result is
   floor(a/b) + 1 exactly when the signs differ and the remainder is non-zero (= C truncation),
   and b == 0 is rejected.
U1 unary + / - and references to earlier constants.
S1 every place an integer constant expression is accepted routes through these functions.
"""
import ast
import re

from .. import AnalysisError
from ..pyast.index import cffi_mod, u
from ..pyast import sympath as sp
from ..pyast.sympath import Term, Lin, Opq

SIMPLE_ESCAPES = {'a': 7, 'b': 8, 'f': 12, 'n': 10, 'r': 13, 't': 9, 'v': 11, '\\': 92, "'": 39, '"': 34, '?': 63,
                  '0': 0, '1': 1, '2': 2, '3': 3, '4': 4, '5': 5, '6': 6, '7': 7}
REJECT = ('CDefError', 'FFIError', 'api.CDefError', 'api.FFIError', 'FFIError')


def h_int(a, k, e, f):
    """int(s) / int(s, base) on a concrete string: validity decided from the digits, value left symbolic"""
    if not a or not isinstance(a[0], str):
        return Opq('int(?)')
    s = a[0]
    base = a[1] if len(a) > 1 else 10
    if not isinstance(base, int):
        return Opq('int(?, ?)')
    s = s.strip()            # int() ignores surrounding white space and takes one sign
    if s[:1] in ('-', '+'):
        r = h_int([s[1:]] + list(a[1:]), k, e, f) if s[1:2] not in ('-', '+', ' ', '') else None
        if r is None:
            raise sp.Raise('ValueError')
        return Term('neg', (r,)) if s[0] == '-' else r
    pat = {8: r'^(0[oO])?[0-7]+$', 10: r'^[0-9]+$', 16: r'^(0[xX])?[0-9a-fA-F]+$', 2: r'^(0[bB])?[01]+$'}
    if base == 0:
        for b, rx in ((16, r'^0[xX][0-9a-fA-F]+$'), (8, r'^0[oO][0-7]+$'), (2, r'^0[bB][01]+$'), (10, r'^([1-9][0-9]*|0+)$')):
            if re.match(rx, s):
                return Term('int', (s, b))
        raise sp.Raise('ValueError')
    if base not in pat or not re.match(pat[base], s):
        raise sp.Raise('ValueError')
    return Term('int', (s, base))


def h_ord(a, k, e, f):
    if a and isinstance(a[0], str) and len(a[0]) == 1:
        return Term('ord', (a[0],))
    return Opq('ord(?)')


def value_of(v):
    """the integer a result denotes, or None"""
    if isinstance(v, bool):
        return None
    if isinstance(v, int):
        return v
    if isinstance(v, Term):
        if v.op == 'int':
            return int(v.args[0], v.args[1])
        if v.op == 'ord':
            return ord(v.args[0])
        if v.op == 'neg':
            x = value_of(v.args[0])
            return None if x is None else -x
    return None


def h_isinstance(a, k, e, f):
    if len(a) == 2 and isinstance(a[0], dict) and isinstance(a[1], Opq):
        return a[0].get('__class__') == a[1].text.split('.')[-1]
    return Opq('isinstance(?)')


def literal_classes():
    """(text, C value) for one representative of every literal class"""
    out = []
    sufs = ['', 'u', 'U', 'l', 'L', 'ul', 'UL', 'lu', 'll', 'LL', 'ull', 'LLU']
    for digits, base, val in (('7', 10, 7), ('10', 10, 10), ('1234567890', 10, 1234567890), ('0', 10, 0),
                              ('010', 8, 8), ('0777', 8, 511), ('00', 8, 0),
                              ('0x1f', 16, 31), ('0X1F', 16, 31), ('0xabcdef', 16, 0xabcdef), ('0x0', 16, 0), ('0xde', 16, 0xde),
                              ('0b11', 2, 3), ('0B101', 2, 5)):
        for sfx in sufs:
            out.append((digits + sfx, val, 'base %d%s' % (base, ', suffix %s' % sfx if sfx else '')))
    return out


def char_classes():
    out = [("'a'", 97, 'plain'), ("'0'", 48, 'plain'), ("' '", 32, 'plain'), ("'\\\\'", 92, 'escape \\\\')]
    for c, v in sorted(SIMPLE_ESCAPES.items()):
        if c != '\\':
            out.append(("'\\%s'" % c, v, 'escape \\%s' % c))
    return out


def l1_parse_constant(run, m, modenv):
    fn = m.find('Parser._parse_constant')
    F = 'Parser._parse_constant'
    n = 0
    for text, want, cls in literal_classes() + char_classes():
        ev = sp.Evaluator({'isinstance': h_isinstance, 'int': h_int, 'ord': h_ord})
        env = dict(modenv)
        env['exprnode'] = {'__class__': 'Constant', 'value': text, 'coord': {'line': 1}}
        paths = ev.run(fn, env)
        if len(paths) != 1:
            raise AnalysisError('%s: literal %r gives %d paths (conditions over unknowns: %s)' % (F, text, len(paths), sorted(sp.free_names(paths))))
        o = paths[0].outcome
        is_char = text.startswith("'")
        rule = 'L1/character-constant' if is_char else 'L1/integer-literal'
        if o is not None and o[0] == 'raise':
            ok = o[1] in REJECT
            detail = 'rejected with %s' % o[1]
        elif o is not None and o[0] == 'return':
            got = value_of(o[1])
            ok = got == want
            detail = 'evaluates through %r = %s; C gives %d' % (o[1], got, want)
        else:
            ok, detail = False, 'returns nothing'
        run.ob(rule, F, '%s (%s)' % (text, cls), ok, m.where(fn), detail)
        n += 1
    return n


def l1_add_integer_constant(run, m, modenv):
    fn = m.find('Parser._add_integer_constant')
    F = 'Parser._add_integer_constant'
    n = 0
    reps = []
    for text, want, cls in literal_classes():
        reps.append((text, want, cls))
        reps.append(('-' + text, -want, cls + ', negative'))
    for text, want, cls in reps:
        ev = sp.Evaluator({'int': h_int})
        env = dict(modenv)
        env.update({'name': 'NAME', 'int_str': text})
        paths = ev.run(fn, env)
        if len(paths) != 1:
            raise AnalysisError('%s: literal %r gives %d paths' % (F, text, len(paths)))
        p = paths[0]
        o = p.outcome
        if o is not None and o[0] == 'raise':
            ok = o[1] in REJECT
            detail = 'rejected with %s' % o[1]
        else:
            adds = [e for e in p.effects if e[0] == 'self._add_constants']
            decl = [e for e in p.effects if e[0] == 'self._declare']
            got = value_of(adds[0][1][1]) if len(adds) == 1 and len(adds[0][1]) == 2 and adds[0][1][0] == 'NAME' else None
            gotd = value_of(decl[0][1][1]) if len(decl) == 1 and len(decl[0][1]) >= 2 else None
            ok = got == want and gotd == want
            detail = 'registers %r and declares %r; C gives %d' % (adds[0][1][1] if adds else None, decl[0][1][1] if decl else None, want)
        run.ob('L1/macro-or-static-const-literal', F, '%s (%s)' % (text, cls), ok, m.where(fn), detail)
        n += 1
    return n


def l2_suffix(run, m):
    """the unsigned suffix is consumed by rstrip/regex only"""
    for q in ('Parser._parse_constant', 'Parser._add_integer_constant'):
        fn = m.find(q)
        strips = [c for c in ast.walk(fn) if isinstance(c, ast.Call) and isinstance(c.func, ast.Attribute) and c.func.attr == 'rstrip'
                  and c.args and isinstance(c.args[0], ast.Constant) and isinstance(c.args[0].value, str) and 'u' in c.args[0].value.lower()]
        run.need(len(strips) >= 1, '%s: the literal suffix is not stripped with rstrip any more (rule L2 needs re-reading)' % q)
        # anything that looks at the suffix: endswith('u'...), 'u' in s, a regex group, ...
        readers = []
        for n in ast.walk(fn):
            if isinstance(n, ast.Compare) and any(isinstance(x, ast.Constant) and isinstance(x.value, str) and x.value.lower() in ('u', 'ul', 'lu') for x in [n.left] + n.comparators):
                readers.append(u(n))
            if isinstance(n, ast.Call) and isinstance(n.func, ast.Attribute) and n.func.attr in ('endswith', 'find', 'count', 'index') and n.args and \
                    isinstance(n.args[0], ast.Constant) and isinstance(n.args[0].value, str) and 'u' in n.args[0].value.lower():
                readers.append(u(n))
        run.ob('L2/unsigned-suffix-is-interpreted', q, u(strips[0]), bool(readers), m.where(strips[0]),
               'the u/U suffix is stripped and never read: the literal is evaluated as a signed unbounded integer, so '
               'unsigned wrap-around (e.g. `0xFFFFFFFFu + 1`, `1u - 2`, `#define X -1u`) differs from C')
    return 2


COMM = {'+', '*', '&', '|', '^'}


def canon(t):
    if isinstance(t, Term):
        args = tuple(canon(a) for a in t.args)
        if t.op in COMM:
            args = tuple(sorted(args, key=repr))
        return Term(t.op, args)
    return t


def _c_binop(op, a, b):
    import operator
    if op == '/':
        return _c_trunc_div(a, b)
    if op == '%':
        return a - _c_trunc_div(a, b) * b
    return {'+': operator.add, '-': operator.sub, '*': operator.mul, '<<': operator.lshift, '>>': operator.rshift, '&': operator.and_, '|': operator.or_, '^': operator.xor}[op](a, b)


def _o1_grid(fn, modenv, op):
    """[] if the operator agrees with C on the grid, the list of disagreements otherwise, None if some point does not fold to a constant"""
    bad = []
    for a in (-7, -6, -1, 0, 1, 6, 7):
        for b in (-3, -2, -1, 1, 2, 3):
            if op in ('<<', '>>') and (b < 0 or a < 0):
                continue
            vals = {'left': a, 'right': b}
            ev = sp.Evaluator({'isinstance': h_isinstance, 'self._parse_constant': lambda x, k, e, f: vals[x[0]['tag']],
                               'self._c_div': lambda x, k, e, f: _c_trunc_div(x[0], x[1]) if all(isinstance(v, int) for v in x) and x[1] != 0 else Opq('cdiv(?)')})
            env = dict(modenv)
            env['exprnode'] = {'__class__': 'BinaryOp', 'op': op, 'left': {'__class__': 'Leaf', 'tag': 'left'}, 'right': {'__class__': 'Leaf', 'tag': 'right'}, 'coord': {'line': 1}}
            ps = [p_ for p_ in ev.run(fn, env) if p_.outcome]
            if len(ps) != 1 or ps[0].outcome[0] != 'return' or not isinstance(ps[0].outcome[1], int) or isinstance(ps[0].outcome[1], bool):
                return None
            if ps[0].outcome[1] != _c_binop(op, a, b):
                bad.append((a, op, b, ps[0].outcome[1], _c_binop(op, a, b)))
    return bad


def o1(run, m, modenv):
    fn = m.find('Parser._parse_constant')
    F = 'Parser._parse_constant'
    L, R = Term('left'), Term('right')
    want = {'+': Term('+', (L, R)), '-': Term('-', (L, R)), '*': Term('*', (L, R)), '/': Term('cdiv', (L, R)),
            '%': Term('-', (L, Term('*', (Term('cdiv', (L, R)), R)))),
            '<<': Term('<<', (L, R)), '>>': Term('>>', (L, R)), '&': Term('&', (L, R)), '|': Term('|', (L, R)), '^': Term('^', (L, R))}

    def h_rec(a, k, e, f):
        if a and isinstance(a[0], dict) and a[0].get('__class__') == 'Leaf':
            return Term(a[0]['tag'])
        raise AnalysisError('%s: recursive call on %r' % (F, a))

    def h_cdiv(a, k, e, f):
        return Term('cdiv', a)
    n = 0
    for op, expect in sorted(want.items()):
        ev = sp.Evaluator({'isinstance': h_isinstance, 'self._parse_constant': h_rec, 'self._c_div': h_cdiv})
        env = dict(modenv)
        env['exprnode'] = {'__class__': 'BinaryOp', 'op': op, 'left': {'__class__': 'Leaf', 'tag': 'left'},
                           'right': {'__class__': 'Leaf', 'tag': 'right'}, 'coord': {'line': 1}}
        paths = ev.run(fn, env)
        rets = [p for p in paths if p.outcome and p.outcome[0] == 'return']
        raises = [p for p in paths if p.outcome and p.outcome[0] == 'raise']
        other = [p for p in paths if not p.outcome]
        ok = bool(rets) and not other
        detail = ''
        for p in rets:
            got = p.outcome[1]
            if canon(got) != canon(expect):
                ok = False
                plain = isinstance(got, Term) and got.op in sp._OPNAME.values() and set(map(repr, got.args)) <= {'left', 'right'}
                if not plain and not (isinstance(got, Term) and got.op == 'cdiv'):
                    # a form the symbolic comparison cannot read: decide it on a grid of small operands instead (everything folds to constants)
                    verdict = _o1_grid(fn, modenv, op)
                    if verdict is None:
                        raise AnalysisError('%s: operator %r evaluates to %r, which this analysis cannot compare with %r' % (F, op, got, expect))
                    ok = not verdict
                    detail = '; '.join('%d %s %d gives %r, C gives %d' % x for x in verdict[:4])
                    continue
                detail = 'evaluates to %r, C semantics need %r' % (got, expect)
        for p in raises:
            # a rejection is only acceptable on a condition over the operands (negative shift count)
            conds = ' & '.join(('' if t else 'not ') + sp.show(c) for c, t in p.conds)
            if op not in ('<<', '>>') or 'right < 0' not in conds or p.outcome[1] not in REJECT:
                ok = False
                detail = 'rejected with %s under %s' % (p.outcome[1], conds or 'no condition')
        if not rets:
            detail = detail or 'operator not handled'
        run.ob('O1/binary-operator-table', F, 'exprnode.op == %r' % op, ok, m.where(fn), detail or 'returns %r' % (rets[0].outcome[1],))
        n += 1
    # unary
    for op, expect in (('+', Term('x')), ('-', Term('neg', (Term('x'),)))):
        ev = sp.Evaluator({'isinstance': h_isinstance, 'self._parse_constant': h_rec})
        env = dict(modenv)
        env['exprnode'] = {'__class__': 'UnaryOp', 'op': op, 'expr': {'__class__': 'Leaf', 'tag': 'x'}, 'coord': {'line': 1}}
        paths = ev.run(fn, env)
        ok = len(paths) == 1 and paths[0].outcome == ('return', expect)
        run.ob('U1/unary-operator', F, 'unary %s' % op, ok, m.where(fn), 'paths: %r' % (paths,))
        n += 1
    # identifier referring to an earlier constant
    ev = sp.Evaluator({'isinstance': h_isinstance})
    env = dict(modenv)
    env['exprnode'] = {'__class__': 'ID', 'name': 'EARLIER', 'coord': {'line': 1}}
    paths = ev.run(fn, env)
    hit = [p for p in paths if p.outcome and p.outcome[0] == 'return']
    ok = len(hit) == 1 and isinstance(hit[0].outcome[1], Opq) and hit[0].outcome[1].text.replace(' ', '') in (
        'self._int_constants[exprnode.name]',) and any(sp.show(c).replace(' ', '') == 'exprnode.nameinself._int_constants' and t for c, t in hit[0].conds)
    run.ob('U1/earlier-constant-lookup', F, 'ID naming a known constant', ok, m.where(fn), 'paths: %r' % (paths,))
    return n + 1


def _c_trunc_div(a, b):
    q = abs(a) // abs(b)
    return -q if (a < 0) != (b < 0) else q


def o2_grid(run, m):
    """_c_div walked on one small operand pair per class (sign of a, sign of b, exact or not; |a| <, =, > |b|): every statement folds to a
    constant in the walker, so the outcome is decided whatever form the function takes; returns False if some form does not fold"""
    fn = m.find('Parser._c_div')
    F = 'Parser._c_div'
    grid = [(a, b) for a in (-7, -6, -2, -1, 0, 1, 2, 6, 7) for b in (-7, -3, -2, -1, 1, 2, 3, 7)]
    bad, undec = [], 0
    for a, b in grid:
        ps = sp.Evaluator().run(fn, {'a': a, 'b': b})
        o = ps[0].outcome if len(ps) == 1 else None
        if not (o and o[0] == 'return' and isinstance(o[1], int) and not isinstance(o[1], bool)):
            undec += 1
            continue
        if o[1] != _c_trunc_div(a, b):
            bad.append((a, b, o[1], _c_trunc_div(a, b)))
    if undec:
        return False
    run.ob('O2/division-truncates-toward-zero', F, 'grid of %d small operand pairs (all sign and exactness classes)' % len(grid), not bad, m.where(fn),
           '; '.join('%d / %d gives %d, C gives %d' % x for x in bad[:4]))
    return True


def o2(run, m, modenv):
    fn = m.find('Parser._c_div')
    F = 'Parser._c_div'
    if o2_grid(run, m):
        # the symbolic classes below are an additional view; if the function's form is outside what they interpret, the grid has decided
        try:
            return _o2_symbolic(run, m, modenv)
        except AnalysisError:
            run.saw('O2 symbolic classes', ['not interpretable for the present form of _c_div; decided on the grid'])
            return 1
    return _o2_symbolic(run, m, modenv)


def _o2_symbolic(run, m, modenv):
    fn = m.find('Parser._c_div')
    F = 'Parser._c_div'
    ev = sp.Evaluator()
    paths = ev.run(fn, {'a': Lin('a'), 'b': Lin('b')})
    free = sorted(sp.free_names(paths))
    n = 0
    floor = Term('//', (Lin('a'), Lin('b')))
    for a in (-1, 0, 1):
        for b in (-1, 0, 1):
            for rem in (False, True):
                if a == 0 and rem:
                    continue
                fr = {}
                for name in free:
                    # the only unknown the function may test is "remainder non-zero"
                    mm = re.match(r'^%\(a, b\) (!=|==) 0$', name) or re.match(r'^-\(a, \*\(//\(a, b\), b\)\) (!=|==) 0$', name)
                    if not mm:
                        raise AnalysisError('%s: condition %r not interpreted' % (F, name))
                    fr[name] = rem if mm.group(1) == '!=' else not rem
                hit = [p for p in paths if sp.holds(p, {'a': a, 'b': b}, fr)]
                if len(hit) != 1:
                    raise AnalysisError('%s: %d paths for a=%d b=%d' % (F, len(hit), a, b))
                o = hit[0].outcome
                cls = 'a%s0, b%s0, remainder %s' % ('<=>'[a + 1], '<=>'[b + 1], 'non-zero' if rem else 'zero')
                if b == 0:
                    ok = o is not None and o[0] == 'raise' and o[1] in REJECT
                    detail = 'outcome %r' % (o,)
                else:
                    corr = (a < 0) != (b < 0) and rem
                    want = Term('+', (floor, 1)) if corr else floor
                    got = o[1] if o and o[0] == 'return' else None
                    ok = got is not None and canon(got) == canon(want)
                    detail = 'returns %r, truncation toward zero needs %r' % (got, want)
                run.ob('O2/division-truncates-toward-zero', F, cls, ok, m.where(fn), detail)
                n += 1
    return n


def s1(run, m):
    """the places that accept an integer constant expression route through the evaluator"""
    n = 0
    want = {
        'Parser._get_type_and_quals': ('self._parse_constant', 'typenode.dim', 'array length'),
        'Parser._get_struct_union_enum_type': ('self._parse_constant', 'decl.bitsize', 'bitfield width'),
        'Parser._build_enum_type': ('self._parse_constant', 'enum.value', 'enumerator value'),
        'Parser._process_macros': ('self._add_integer_constant', 'value', '#define NAME <literal>'),
    }
    for q, (callee, arg, what) in sorted(want.items()):
        fn = m.find(q)
        cs = [c for c in ast.walk(fn) if isinstance(c, ast.Call) and u(c.func) == callee and c.args and arg in [u(a) for a in c.args]]
        run.ob('S1/constant-expression-sites-use-the-evaluator', q, '%s(%s) for the %s' % (callee, arg, what), len(cs) >= 1, m.where(fn))
        n += 1
    fn = m.find('Parser._internal_parse') if m.has('Parser._internal_parse') else None
    holder = None
    for q, node in m.defs.items():
        if isinstance(node, ast.FunctionDef) and any(isinstance(c, ast.Call) and u(c.func) == 'self._add_integer_constant' and
                                                     any('decl.init' in u(a) for a in c.args) for c in ast.walk(node)):
            holder = (q, node)
    run.need(holder is not None, 'no function routes `static const <int> NAME = <literal>` to _add_integer_constant')
    q, node = holder
    cs = [c for c in ast.walk(node) if isinstance(c, ast.Call) and u(c.func) == 'self._add_integer_constant']
    forms = sorted(u(c.args[1]) for c in cs if len(c.args) == 2)
    ok = 'decl.init.value' in forms and any(f.replace(' ', '') in ("'-'+decl.init.expr.value", '"-"+decl.init.expr.value') for f in forms)
    run.ob('S1/constant-expression-sites-use-the-evaluator', q, 'static const literal and its negation', ok, m.where(node), str(forms))
    return n + 1


def check(run):
    run.technique = ('symbolic walk (Python ast, nothing executed) of Parser._parse_constant / _add_integer_constant / _c_div over one '
                     'representative of every literal class, every operator and every sign class; the conversion or operator term '
                     'each path applies is compared with the C meaning of the class (dispatch-table check), plus call-site routing rules')
    m = cffi_mod('cparser')
    modenv = sp.module_constants(m)
    n = 0
    n += l1_parse_constant(run, m, modenv)
    n += l1_add_integer_constant(run, m, modenv)
    n += l2_suffix(run, m)
    n += o1(run, m, modenv)
    n += o2(run, m, modenv)
    n += s1(run, m)
    run.assume('decided: the per-node tables (literal class -> conversion, operator -> Python operator term, sign class -> rounding); '
               'Python unbounded-int + - * & | ^ << >> agree with C where C does not overflow; not decided: that pycparser builds the '
               'tree C would (precedence/associativity), nor C integer promotion/wrap-around (L2 is a known finding)')
    for rule, k in (('L1/integer-literal', 150), ('L1/character-constant', 20), ('L1/macro-or-static-const-literal', 300), ('O1', 10), ('O2', 12), ('U1', 3), ('S1', 5)):
        run.min_instances(rule, k)
