"""C29 — callback closures stay distinct and bound to their own function (DESIGN §3 C29): free-list ownership.

F1 free_list is written only by more_core, cffi_closure_alloc, cffi_closure_free;
F2 alloc pops exactly the head (after refilling when empty, NULL when still empty); free
   pushes exactly its argument; more_core pushes each block of the fresh mapping once and
   the blocks fit in the mapping;
F3 cffi_closure_free is called only by the callback deallocator and by b_callback's error
   path while no cdata owns the closure yet; the other branch releases through the cdata;
   never both; every error exit with a cdata passes the store that gives it the closure;
F4 b_callback registers invoke_callback with its own info tuple as user data, publishes the
   closure's address as the cdata's function pointer and verifies the user data slot.
"""
from ..cast import cx, rules
from ..cast.cfg import cfg_of, stmt_text
from ..cast.loader import backend_tu


def check(run):
    run.explanation = (
        'Ownership rules for the closure free list: who-may-write over the whole TU, exact shape of pop/push (head only, '
        'argument only), refill loop pushing each fresh block once within the mapping, who-may-call for the free function '
        'with mutual exclusion of the two release routes on b_callback\'s error path, and the binding of each closure to '
        'invoke_callback + its own info tuple.')
    tu = backend_tu()
    writers = sorted({fn for fn, f in tu.functions.items() if tu.has_func(fn) and any(
        cx.lhs_text(l) == 'free_list' for l, r, op, _x in cx.assignments(f))})
    run.ob('F1/free-list-has-three-writers', 'free_list', 'writers of free_list', writers == ['cffi_closure_alloc', 'cffi_closure_free', 'more_core'], None, str(writers))
    readers = sorted({fn for fn, f in tu.functions.items() if tu.has_func(fn) and 'free_list' in cx.refs(f)})
    run.ob('F1/free-list-not-read-elsewhere', 'free_list', 'functions mentioning free_list', readers == ['cffi_closure_alloc', 'cffi_closure_free', 'more_core'], None, str(readers))
    # F2 alloc
    fn = 'cffi_closure_alloc'
    g = cfg_of(tu, fn)
    f = tu.func(fn)
    seq = [stmt_text(n.ast) for n in g.nodes if n.ast is not None and n.kind == 'stmt' and n.ast.get('kind') != 'DeclStmt' and not stmt_text(n.ast).startswith('0')]
    pop = [n for n in g.nodes if n.ast is not None and n.kind == 'stmt' and stmt_text(n.ast) == 'free_list = item->next']
    take = [n for n in g.nodes if n.ast is not None and n.kind == 'stmt' and stmt_text(n.ast) == 'item = free_list']
    rets = [n for n in g.nodes if n.kind == 'return' and not cx.is_null(cx.kids(n.ast)[0])]
    ok = len(pop) == 1 and len(take) == 1 and len(rets) == 1 and rules.return_value(rets[0]) == '&item->closure' and \
        g.must_precede(pop[0].id, [take[0].id]) and g.must_precede(rets[0].id, [pop[0].id])
    # no other write to item between take and pop
    ok = ok and len([1 for l, r, op, _x in cx.assignments(f) if cx.lhs_text(l) == 'item']) == 1
    run.ob('F2/alloc-pops-exactly-the-head', fn, 'item = free_list; free_list = item->next; return &item->closure', ok, tu.where(f), str(seq))
    nn = rules.nonnull_facts('free_list')
    pas = g.edges_of(lambda cn, l: cn.kind == 'cond' and ('%s:%s' % (l, cx.render(cn.ast))) in nn)
    ok = bool(pas) and bool(take) and g.must_pass_edges(take[0].id, pas)
    run.ob('F2/alloc-never-pops-an-empty-list', fn, 'if (!free_list) return NULL', ok, tu.where(f))
    mc = [n for n in g.nodes if n.ast is not None and cx.calls_in(n.ast, 'more_core')]
    ok = len(mc) == 1 and bool(rules.null_facts('free_list') & g.fact_texts(mc[0].id))
    run.ob('F2/refill-only-when-empty', fn, 'if (!free_list) more_core()', ok, tu.where(f))
    # F2 free
    fn = 'cffi_closure_free'
    f = tu.func(fn)
    g = cfg_of(tu, fn)
    item = rules.single_def(f, 'item')
    st = [stmt_text(n.ast) for n in g.nodes if n.ast is not None and n.kind == 'stmt' and n.ast.get('kind') != 'DeclStmt' and stmt_text(n.ast) != '0']
    order = [s for s in st if s in ('item->next = free_list', 'free_list = item')]
    link = [n for n in g.nodes if n.ast is not None and stmt_text(n.ast) == 'item->next = free_list']
    head = [n for n in g.nodes if n.ast is not None and stmt_text(n.ast) == 'free_list = item']
    ok = item is not None and cx.render(item) == 'p' and len(link) == 1 and len(head) == 1 and g.must_precede(head[0].id, [link[0].id])
    run.ob('F2/free-pushes-exactly-its-argument', fn, 'item = p; item->next = free_list; free_list = item', ok, tu.where(f), str(st))
    # F2 more_core
    fn = 'more_core'
    f = tu.func(fn)
    g = cfg_of(tu, fn)
    loop = [n for n in g.nodes if n.kind == 'cond' and cx.render(n.ast) == 'i < count']
    body = []
    if loop:
        t = [x for x, l in loop[0].succ if l == 'T'][0]
        cur = g.nodes[t]
        seen = set()
        while cur.id not in seen and cur.id != loop[0].id:
            seen.add(cur.id)
            if cur.ast is not None and cur.kind == 'stmt':
                body.append(stmt_text(cur.ast))
            if len(cur.succ) != 1:
                break
            cur = g.nodes[cur.succ[0][0]]
    ok = body[:3] == ['item->next = free_list', 'free_list = item', '++item'] and body[3:] in (['++i'], ['i++'])
    run.ob('F2/refill-pushes-each-fresh-block-once', fn, 'for (i = 0; i < count; ++i) { item->next = free_list; free_list = item; ++item; }', ok, tu.where(f), str(body))
    cnt = [cx.render(r) for l, r, op, _x in cx.assignments(f) if cx.lhs_text(l) == 'count']
    mm = cx.calls_in(f, 'mmap')
    sz = cx.render(cx.call_args(mm[0])[1]) if mm else None
    ok = len(cnt) == 1 and sz is not None and cnt[0].replace(' ', '').replace('(', '').replace(')', '') == ('%s/sizeofunion mmapped_block' % sz).replace(' ', '').replace('(', '').replace(')', '')
    if ok and mm:
        cn = [g.node_of(x) for l, r, op, x in cx.assignments(f) if cx.lhs_text(l) == 'count']
        mn = g.node_of(mm[0])
        operands = cx.refs(cx.call_args(mm[0])[1])
        between = (g.reach([cn[0].id], include_start=False) & g.coreach([mn.id])) - {mn.id}
        changed = sorted({lv for i in between if g.nodes[i].ast is not None for lv, _x in cx.writes(g.nodes[i].ast) if lv in operands})
        if changed:
            ok = False
            cnt = cnt + ['but %s is rewritten between the count and the mapping' % ', '.join(changed)]
    run.ob('F2/fresh-blocks-fit-in-the-mapping', fn, 'count = (allocate_num_pages * _pagesize) / sizeof(union mmapped_block); mmap(NULL, allocate_num_pages * _pagesize, ...)', ok,
           tu.where(f), 'count = %s; mmap size = %s' % (cnt, sz))
    # mmap reports failure with MAP_FAILED, which is (void *)-1, not NULL
    def is_failed_test(n):
        if n.kind != 'cond' or n.ast.get('kind') != 'BinaryOperator' or n.ast.get('opcode') != '==':
            return False
        a, b = cx.kids(n.ast)
        sides = {cx.render(cx.strip(a, casts=True)).replace(' ', ''), cx.render(cx.strip(b, casts=True)).replace(' ', '')}
        return 'item' in sides and bool(sides & {'-1', '(-1)'})
    fail = [n for n in g.nodes if is_failed_test(n)]
    ok = bool(fail) and bool(loop) and all(loop[0].id not in g.reach([t]) for c in fail for t, l in c.succ if l == 'T')
    if ok and mm:
        # and nothing is carved out of the result before that test has failed
        passes = [(c.id, t, l) for c in fail for t, l in c.succ if l == 'F']
        ok = loop[0].id not in g.reach([g.node_of(mm[0]).id], avoid_edges=passes)
    other = [cx.render(n.ast) for n in g.nodes if n.kind == 'cond' and 'item ==' in cx.render(n.ast) and not is_failed_test(n)]
    run.ob('F2/failed-mapping-adds-nothing', fn, 'if (item == MAP_FAILED) return', ok, tu.where(f),
           'the result of mmap() is not compared with MAP_FAILED ((void *)-1) before blocks are carved out of it%s: a failed mapping puts closures at address -1 on the free list'
           % (' (it is compared with: %s)' % ', '.join(other) if other else ''))
    # F3
    callers = rules.callers_of(tu, 'cffi_closure_free')
    names = sorted({c for c, _x in callers})
    run.ob('F3/free-called-from-two-places-only', 'cffi_closure_free', 'callers', names == ['b_callback', 'cdataowninggc_dealloc'], None, str(names))
    F = rules.macro_flags(tu, 'CT_')
    for caller, call in callers:
        g = cfg_of(tu, caller)
        node = g.node_of(call)
        arg = cx.render(cx.call_args(call)[0])
        if caller == 'cdataowninggc_dealloc':
            ok = rules.flag_facts(g, g.dominating_facts(node.id), 'cd->c_type->ct_flags').get(F['CT_FUNCTIONPTR']) == 'T'
            src = rules.single_def(tu.func(caller), arg)
            ok = ok and src is not None and cx.render(src).endswith('->closure')
            run.ob('F3/dealloc-frees-its-own-closure', caller, 'cffi_closure_free(cd->closure) for callbacks', ok, tu.where(call))
            # and then frees the object: the closure cannot be freed twice through this object
            dn = [n.id for n in g.nodes if n.ast is not None and cx.calls_in(n.ast, 'cdata_dealloc')]
            run.ob('F3/closure-freed-once-per-cdata', caller, 'cdata_dealloc(cd) follows', bool(dn) and g.must_follow(node.id, dn), tu.where(call))
        else:
            facts = g.fact_texts(node.id)
            ok = 'T:cd == 0' in facts and arg == 'closure'
            run.ob('F3/error-path-frees-only-unowned-closure', caller, 'if (cd == NULL) cffi_closure_free(closure)', ok, tu.where(call), str(sorted(facts)[-3:]))
            dec = [n for n in g.nodes if n.ast is not None and stmt_text(n.ast) == 'Py_DECREF(cd)']
            ok = len(dec) == 1 and 'F:cd == 0' in g.fact_texts(dec[0].id) and node.id not in g.reach([dec[0].id]) and dec[0].id not in g.reach([node.id])
            run.ob('F3/two-release-routes-are-exclusive', caller, 'else Py_DECREF(cd)', ok, tu.where(call))
            # every error exit taken with a cdata passes `cd->closure = closure`
            own = [n.id for n in g.nodes if n.ast is not None and any(cx.lhs_text(l) == 'cd->closure' and cx.render(r) == 'closure' for l, r, op, _x in cx.assignments(n.ast))]
            newcd = [n for n in g.nodes if n.kind == 'cond' and cx.render(n.ast) == 'cd == 0' and any(
                m.ast is not None and cx.calls_in(m.ast, ('_PyObject_GC_New', 'PyObject_GC_New')) for p, _l in n.pred for m in [g.nodes[p]])]
            ok = bool(own) and len(newcd) == 1 and bool(dec)
            if ok:
                t = [x for x, l in newcd[0].succ if l == 'F'][0]
                ok = dec[0].id not in g.reach([t], avoid=own)
            run.ob('F3/cdata-owns-the-closure-before-any-error-exit', caller, 'cd->closure = closure precedes every goto error taken with cd != NULL', ok, tu.where(call))
    # F4
    fn = 'b_callback'
    f = tu.func(fn)
    g = cfg_of(tu, fn)
    prep = cx.calls_in(f, ('ffi_prep_closure', 'ffi_prep_closure_loc'))
    ok = len(prep) >= 1
    for c in prep:
        a = [cx.render(x) for x in cx.call_args(c)]
        ok = ok and a[0] == 'closure' and a[2] == 'invoke_callback' and a[3] == 'infotuple'
    run.ob('F4/closure-bound-to-trampoline-and-own-info', fn, 'ffi_prep_closure(closure, cif, invoke_callback, infotuple)', ok, tu.where(prep[0]) if prep else tu.where(f))
    it = rules.single_def(f, 'infotuple')
    run.ob('F4/info-tuple-built-for-this-callback', fn, 'infotuple = prepare_callback_info_tuple(ct, ob, error_ob, onerror_ob, 1)',
           it is not None and cx.render(it) == 'prepare_callback_info_tuple(ct, ob, error_ob, onerror_ob, 1)', tu.where(f))
    asg = {cx.lhs_text(l): cx.render(r) for l, r, op, _x in cx.assignments(f) if op == '='}
    ok = asg.get('cd->head.c_data') == 'closure_exec' and asg.get('closure_exec') == 'closure' and asg.get('closure') == 'cffi_closure_alloc()'
    run.ob('F4/cdata-function-pointer-is-the-closure-address', fn, 'closure = cffi_closure_alloc(); cd->head.c_data = closure', ok, tu.where(f), str({k: asg.get(k) for k in ('closure', 'closure_exec', 'cd->head.c_data')}))
    succ = [n for n in g.nodes if n.kind == 'return' and rules.return_value(n) == 'cd']
    pas = g.edges_of(lambda cn, l: cn.kind == 'cond' and cx.render(cn.ast) == 'closure->user_data != infotuple' and l == 'F')
    ok = len(succ) == 1 and bool(pas) and g.must_pass_edges(succ[0].id, pas)
    run.ob('F4/user-data-slot-verified-before-success', fn, 'if (closure->user_data != infotuple) -> SystemError', ok, tu.where(f))
    pasn = g.edges_of(lambda cn, l: cn.kind == 'cond' and cx.render(cn.ast) == 'closure == 0' and l == 'F')
    ok = bool(pasn) and bool(succ) and g.must_pass_edges(succ[0].id, pasn)
    run.ob('F4/allocation-failure-reported', fn, 'if (closure == NULL) -> MemoryError', ok, tu.where(f))
    # F5 the cdata's deallocator XDECREFs closure->user_data: when the failed callback is released through the
    # cdata (and the info tuple separately), the slot must have been cleared after it was last written
    dec = [n for n in g.nodes if n.ast is not None and stmt_text(n.ast) == 'Py_DECREF(cd)']
    own = [n for n in g.nodes if n.ast is not None and any(cx.lhs_text(l) == 'cd->closure' and cx.render(r) == 'closure' for l, r, op, _x in cx.assignments(n.ast))]
    clr = [n.id for n in g.nodes if n.ast is not None and any(cx.lhs_text(l) == 'closure->user_data' and cx.is_null(r) for l, r, op, _x in cx.assignments(n.ast))]
    preps = [g.node_of(c) for c in prep]
    okd = bool(dec) and bool(own)
    why = ''
    if okd:
        for src in own + preps:
            if dec[0].id in g.reach([src.id], avoid=set(clr), include_start=False):
                okd = False
                why = 'from `%s` the release `Py_DECREF(cd)` is reachable without `closure->user_data = NULL`: the deallocator would XDECREF a stale or doubly-owned pointer' % stmt_text(src.ast)[:50]
    run.ob('F5/user-data-slot-cleared-before-release-through-the-cdata', fn, 'closure->user_data = NULL on every path to Py_DECREF(cd)', okd, tu.where(dec[0].ast) if dec else tu.where(f), why)
    dl = cfg_of(tu, 'cdataowninggc_dealloc')
    xd = [n for n in dl.nodes if n.ast is not None and 'user_data' in cx.render(n.ast)]
    run.saw('deallocator reads closure->user_data', [stmt_text(n.ast)[:80] for n in xd])
    run.min_instances('F1', 2)
    run.min_instances('F2', 7)
    run.min_instances('F3', 6)
    run.min_instances('F4', 5)
    run.assume('MALLOC_CLOSURE_LOCK expands to nothing on this GIL build and is not checked; libffi\'s own allocator (other platforms) is not analysed')
