"""C28 — embedded-library start-up initialises once and never deadlocks (DESIGN §3 C28):
lock discipline and publication order, on the shipped _embedding.h parsed under a wrapper TU.

M1 every access to `called` lies between the reentrant-mutex acquire and release, which are
   paired on all paths of _cffi_start_python (no return in between);
M2 the init code runs only under !called, after called = 1;
M3 the fast-path pointer is stored on the success branch only and only after the write
   barrier; the failure branch stores NULL into the backend entry so later calls fail;
M4 _cffi_carefully_make_gil: the CAS acquire is followed on every path by the CAS release;
   Python is initialised only when not yet initialised, inside that region;
M5 _cffi_start_and_call_python: a NULL entry zeroes size_of_result bytes and calls nothing;
M6 the lazy creation of the (recursive) start-up mutex happens inside its own CAS-guarded
   region, and the mutex is taken only after that region is left.
"""
from ..cast import cx, rules
from ..cast.cfg import cfg_of, stmt_text
from ..cast.loader import wrapper_tu

CAS = ('__sync_bool_compare_and_swap', '__sync_bool_compare_and_swap_8', '__sync_bool_compare_and_swap_4',
       '__sync_val_compare_and_swap', '__sync_val_compare_and_swap_8')


def cas_nodes(g):
    out = []
    for n in g.nodes:
        if n.ast is None:
            continue
        for c in cx.calls_in(n.ast, CAS):
            out.append((n, [cx.render(a) for a in cx.call_args(c)]))
    return out


def check(run):
    run.explanation = (
        'Lock-discipline and publication-order rules on the CFGs of the embedding start-up code as shipped to generated '
        'modules (the header is parsed by clang under a wrapper translation unit with the macros a generated module '
        'defines): accesses to the once-flag only between acquire and release, release on all paths, init code only under '
        'the flag test after setting it, fast-path pointer stored only on success and only after the write barrier, '
        'CAS-acquired region always CAS-released, NULL entry zeroes the result and calls nothing, lazy mutex creation '
        'inside its own CAS region with a recursive mutex.')
    wt = wrapper_tu()
    fn = '_cffi_start_python'
    g = cfg_of(wt, fn)
    f = wt.func(fn)
    acq = [n.id for n in g.nodes if n.ast is not None and cx.calls_in(n.ast, '_cffi_acquire_reentrant_mutex')]
    rel = [n.id for n in g.nodes if n.ast is not None and cx.calls_in(n.ast, '_cffi_release_reentrant_mutex')]
    run.need(len(acq) == 1 and len(rel) >= 1, '%s: acquire/release of the reentrant mutex not found' % fn)
    uses = [n for n in g.nodes if n.ast is not None and 'called' in cx.refs(n.ast) and n.ast.get('kind') != 'DeclStmt']
    run.need(len(uses) >= 2, '%s: accesses to `called` not found' % fn)
    for n in uses:
        ok = g.must_precede(n.id, acq) and g.must_follow(n.id, rel)
        run.ob('M1/once-flag-accessed-only-under-the-mutex', fn, stmt_text(n.ast) if n.kind != 'cond' else 'if (%s)' % cx.render(n.ast), ok, wt.where(n.ast))
    decl = [d for d in cx.walk(f) if d.get('kind') == 'VarDecl' and d.get('name') == 'called']
    run.ob('M1/once-flag-is-shared-by-all-calls', fn, 'static char called = 0', len(decl) == 1 and decl[0].get('storageClass') == 'static', wt.where(decl[0]) if decl else None)
    ok = g.must_follow(acq[0], rel)
    rets = [n for n in g.nodes if n.kind == 'return' and n.id in g.reach([acq[0]], avoid=rel, include_start=False)]
    run.ob('M1/mutex-released-on-every-path', fn, '_cffi_release_reentrant_mutex()', ok and not rets, wt.where(g.nodes[acq[0]].ast),
           'returns while holding the mutex: %s' % [stmt_text(r.ast) for r in rets])
    # M2
    init = [n for n in g.nodes if n.ast is not None and cx.calls_in(n.ast, '_cffi_initialize_python')]
    setf = [n.id for n in g.nodes if n.ast is not None and n.kind == 'stmt' and stmt_text(n.ast) == 'called = 1']
    notyet = g.edges_of(lambda cn, l: cn.kind == 'cond' and ((cx.render(cn.ast) == 'called' and l == 'F') or (cx.render(cn.ast) == 'called == 0' and l == 'T')))
    ok = len(init) == 1 and bool(notyet) and g.must_pass_edges(init[0].id, notyet) and bool(setf) and g.must_precede(init[0].id, setf)
    # the flag is never reset
    resets = [stmt_text(n.ast) for n in g.nodes if n.ast is not None and n.kind == 'stmt' and stmt_text(n.ast).startswith('called = ') and stmt_text(n.ast) != 'called = 1']
    run.ob('M2/init-code-runs-once', fn, 'if (!called) { called = 1; _cffi_initialize_python(); }', ok and not resets, wt.where(init[0].ast) if init else None, str(resets))
    callers = sorted({c for c, _x in rules.callers_of(wt, '_cffi_initialize_python')})
    run.ob('M2/init-code-has-one-caller', '_cffi_initialize_python', 'callers', callers == [fn], None, str(callers))
    # M3
    pub = [n for n in g.nodes if n.ast is not None and any(cx.lhs_text(l) == '_cffi_call_python' for l, r, op, _x in cx.assignments(n.ast))]
    ok = len(pub) == 1
    if ok:
        facts = g.fact_texts(pub[0].id)
        ok = 'T:_cffi_initialize_python() == 0' in facts
        bar = [n.id for n in g.nodes if n.ast is not None and cx.calls_in(n.ast, '__sync_synchronize')]
        ok = ok and bool(bar) and g.must_precede(pub[0].id, bar)
        # nothing but the barrier between the end of initialisation and the store: no call after the barrier
        for b in bar:
            mid = g.reach([b], include_start=False) & g.coreach([pub[0].id])
            mid.discard(pub[0].id)
            if any(g.nodes[m].ast is not None and cx.calls_in(g.nodes[m].ast) for m in mid):
                ok = False
        val = [cx.render(r) for l, r, op, _x in cx.assignments(pub[0].ast)]
        ok = ok and val == ['_cffi_exports[25]']
    run.ob('M3/fast-path-published-after-barrier-on-success-only', fn, 'cffi_write_barrier(); _cffi_call_python = _cffi_call_python_org', ok,
           wt.where(pub[0].ast) if pub else None)
    others = sorted({fnm for fnm, ff in wt.functions.items() if wt.has_func(fnm) and any(cx.lhs_text(l) == '_cffi_call_python' for l, r, op, _x in cx.assignments(ff))})
    run.ob('M3/fast-path-pointer-has-one-writer', '_cffi_call_python', 'writers', others == [fn], None, str(others))
    initv = wt.vars.get('_cffi_call_python')
    iv = cx.render(cx.kids(initv)[-1]) if initv is not None and cx.kids(initv) else None
    run.ob('M3/slow-path-is-the-initial-target', '_cffi_call_python', '= &_cffi_start_and_call_python', iv in ('&_cffi_start_and_call_python', '_cffi_start_and_call_python'), wt.where(initv) if initv else None, str(iv))
    fail = [n for n in g.nodes if n.ast is not None and any(cx.lhs_text(l) == '_cffi_exports[25]' and cx.is_null(r) for l, r, op, _x in cx.assignments(n.ast))]
    ok = len(fail) == 1 and 'F:_cffi_initialize_python() == 0' in g.fact_texts(fail[0].id)
    run.ob('M3/failed-init-disables-the-entry', fn, '_cffi_call_python_org = NULL', ok, wt.where(fail[0].ast) if fail else None)
    rv = [rules.return_value(n) for n in g.nodes if n.kind == 'return' and n.id in g.reach([acq[0]])]
    run.ob('M3/caller-gets-the-backend-entry', fn, 'return _cffi_call_python_org', rv == ['_cffi_exports[25]'], wt.where(f), str(rv))
    # M4
    fn2 = '_cffi_carefully_make_gil'
    g2 = cfg_of(wt, fn2)
    cs = cas_nodes(g2)
    take = [n for n, a in cs if a[1:] == ['old_value', 'locked_value']]
    give = [n for n, a in cs if a[1:] == ['locked_value', 'old_value']]
    run.need(len(take) == 1 and len(give) == 1, '%s: CAS acquire/release not found' % fn2)
    t_succ = [t for t, l in take[0].succ if l == 'T']
    g_done = [(give[0].id, t, l) for t, l in give[0].succ if l == 'T']
    ok = bool(t_succ) and g2.exit.id not in g2.reach(t_succ, avoid_edges=g_done) or (bool(t_succ) and all(
        g2.exit.id not in g2.reach([t], avoid=[give[0].id]) for t in t_succ))
    run.ob('M4/cas-lock-always-released', fn2, 'while (!CAS(lock, locked_value, old_value)) ; on every path after the acquire', ok, wt.where(take[0].ast))
    # the releasing CAS can only leave its loop on success
    lp = [t for t, l in give[0].succ if l == 'F']
    ok = bool(lp) and all(give[0].id in g2.reach([t]) and g2.exit.id not in g2.reach([t], avoid=[give[0].id]) for t in lp)
    run.ob('M4/release-retried-until-it-succeeds', fn2, 'CAS release loop', ok, wt.where(give[0].ast))
    pyinit = [n for n in g2.nodes if n.ast is not None and cx.calls_in(n.ast, ('_cffi_py_initialize', 'Py_InitializeEx', 'Py_Initialize'))]
    ok = len(pyinit) == 1 and 'F:Py_IsInitialized()' in g2.fact_texts(pyinit[0].id) and \
        g2.must_precede(pyinit[0].id, [take[0].id]) and g2.must_follow(pyinit[0].id, [give[0].id])
    run.ob('M4/python-initialised-once-inside-the-region', fn2, 'if (!Py_IsInitialized()) Py_InitializeEx()', ok, wt.where(pyinit[0].ast) if pyinit else None)
    oldv = [n for n in g2.nodes if n.ast is not None and n.kind == 'stmt' and stmt_text(n.ast) == 'old_value = *lock']
    free = g2.edges_of(lambda cn, l: cn.kind == 'cond' and cx.render(cn.ast) == 'old_value == 0' and l == 'T')
    ok = bool(oldv) and bool(free) and g2.must_pass_edges(take[0].id, free)
    run.ob('M4/lock-taken-only-when-free', fn2, 'if (old_value == 0) CAS(lock, old_value, locked_value)', ok, wt.where(take[0].ast))
    lk = rules.single_def(wt.func(fn2), 'lock')
    run.ob('M4/lock-word-lives-in-libpython', fn2, 'lock = &PyCapsule_Type.<slot>', lk is not None and cx.render(lk).startswith('&PyCapsule_Type.'), wt.where(wt.func(fn2)), cx.render(lk) if lk is not None else None)
    ordr = [n for n in g.nodes if n.kind == 'cond' and cx.calls_in(n.ast, fn2)]
    ok = len(ordr) == 1 and g.must_precede(acq[0], [ordr[0].id])
    run.ob('M4/gil-made-before-taking-the-startup-mutex', fn, 'if (_cffi_carefully_make_gil() != 0) return NULL; _cffi_acquire_reentrant_mutex()', ok, wt.where(f))
    # M5
    fn3 = '_cffi_start_and_call_python'
    g3 = cfg_of(wt, fn3)
    call = [n for n in g3.nodes if n.ast is not None and any(cx.callee_text(c) == 'fnptr' for c in cx.calls_in(n.ast))]
    ok = len(call) == 1 and bool(rules.nonnull_facts('fnptr') & g3.fact_texts(call[0].id))
    run.ob('M5/no-call-through-a-null-entry', fn3, 'if (fnptr != NULL) fnptr(externpy, args)', ok, wt.where(call[0].ast) if call else None)
    ms = [n for n in g3.nodes if n.ast is not None and cx.calls_in(n.ast, 'memset')]
    ok = len(ms) == 1 and bool(rules.null_facts('fnptr') & g3.fact_texts(ms[0].id))
    if ok:
        a = [cx.render(x) for x in cx.call_args(cx.calls_in(ms[0].ast, 'memset')[0])]
        ok = a == ['args', '0', 'externpy->size_of_result']
        nul = g3.edges_of(lambda cn, l: cn.kind == 'cond' and ('%s:%s' % (l, cx.render(cn.ast))) in rules.null_facts('fnptr'))
        ok = ok and all(g3.exit.id not in g3.reach([t], avoid=[ms[0].id]) for _s, t, _l in nul if ms[0].id in g3.reach([t]))
    run.ob('M5/failed-start-zeroes-the-result', fn3, 'if (fnptr == NULL) memset(args, 0, externpy->size_of_result)', ok, wt.where(ms[0].ast) if ms else None)
    src = rules.single_def(wt.func(fn3), 'fnptr')
    run.ob('M5/entry-comes-from-start-python', fn3, 'fnptr = _cffi_start_python()', src is not None and cx.render(src) == '_cffi_start_python()', wt.where(wt.func(fn3)))
    # M6
    fn4 = '_cffi_acquire_reentrant_mutex'
    g4 = cfg_of(wt, fn4)
    cs4 = cas_nodes(g4)
    enter = [n for n, a in cs4 if a[1:] == ['0', '1']]
    leave = [n for n, a in cs4 if a[1:] == ['1', '0']]
    run.need(len(enter) == 1 and len(leave) == 1, '%s: CAS region not found' % fn4)
    mi = [n for n in g4.nodes if n.ast is not None and cx.calls_in(n.ast, 'pthread_mutex_init')]
    ok = len(mi) == 1 and g4.must_precede(mi[0].id, [enter[0].id]) and g4.must_follow(mi[0].id, [leave[0].id]) and \
        'F:_cffi_embed_startup_lock_ready' in g4.fact_texts(mi[0].id)
    rdy = [n for n in g4.nodes if n.ast is not None and n.kind == 'stmt' and stmt_text(n.ast) == '_cffi_embed_startup_lock_ready = 1']
    ok = ok and len(rdy) == 1 and g4.must_precede(rdy[0].id, [mi[0].id]) and g4.must_follow(rdy[0].id, [leave[0].id])
    run.ob('M6/mutex-created-once-inside-its-cas-region', fn4, 'CAS(&lock,0,1); if (!ready) { pthread_mutex_init; ready = 1; } CAS(&lock,1,0)', ok, wt.where(mi[0].ast) if mi else None)
    st = [n for n in g4.nodes if n.ast is not None and cx.calls_in(n.ast, 'pthread_mutexattr_settype')]
    ok = len(st) == 1 and 'PTHREAD_MUTEX_RECURSIVE' in (wt.text(st[0].ast) or cx.render(st[0].ast)) and bool(mi) and g4.must_precede(mi[0].id, [st[0].id])
    run.ob('M6/startup-mutex-is-recursive', fn4, 'pthread_mutexattr_settype(&attr, PTHREAD_MUTEX_RECURSIVE)', ok, wt.where(st[0].ast) if st else None)
    lk4 = [n for n in g4.nodes if n.ast is not None and cx.calls_in(n.ast, 'pthread_mutex_lock')]
    ok = len(lk4) == 1 and g4.must_precede(lk4[0].id, [leave[0].id]) and [t for t, l in leave[0].succ if l == 'T'] and \
        all(lk4[0].id in g4.reach([t]) for t, l in leave[0].succ if l == 'T')
    run.ob('M6/mutex-taken-after-leaving-the-cas-region', fn4, 'pthread_mutex_lock(&_cffi_embed_startup_lock) last', ok, wt.where(lk4[0].ast) if lk4 else None)
    e_loop = [t for t, l in enter[0].succ if l == 'F']
    ok = bool(e_loop) and all(enter[0].id in g4.reach([t]) for t in e_loop) and all(g4.exit.id not in g4.reach([t], avoid=[enter[0].id]) for t in e_loop)
    run.ob('M6/cas-region-entered-only-by-the-winner', fn4, 'while (!CAS(&lock, NULL, 1)) ;', ok, wt.where(enter[0].ast))
    rl = wt.func('_cffi_release_reentrant_mutex')
    c = cx.calls_in(rl, 'pthread_mutex_unlock')
    run.ob('M6/release-unlocks-the-same-mutex', '_cffi_release_reentrant_mutex', 'pthread_mutex_unlock(&_cffi_embed_startup_lock)',
           len(c) == 1 and cx.render(cx.call_args(c[0])[0]) == '&_cffi_embed_startup_lock', wt.where(rl))
    run.min_instances('M1', 4)
    run.min_instances('M3', 5)
    run.min_instances('M4', 6)
    run.min_instances('M5', 3)
    run.min_instances('M6', 5)
    run.assume('liveness under real schedulers (spin loops make progress) is not decided; only the POSIX/GCC configuration of this sandbox is parsed')
