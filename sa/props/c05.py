"""C05 — floating-point and complex stores round-trip with C conversion semantics (structural clauses).

The IEEE arithmetic is the compiler's; what is decided is that the code hands it the right
conversion and never narrows on the way:

F1 write_raw_float_data / read_raw_float_data: per size, a temporary of exactly the C type of
   that size is converted from / to double and sizeof(type) bytes are copied; float and double
   both covered; anything else fatal.
F2 write_raw_complex_data / read_raw_complex_data: the real part goes to offset 0 and the
   imaginary part to offset sizeof(type), each converted like F1.
F3 long double is bit-exact: every value passed to write_raw_longdouble_data is either a
   `long double` variable all of whose definitions are read_raw_longdouble_data(...) (no
   floating narrowing cast anywhere on the expression), or the widening of a double that does
   not come from a long double; convert_from_object, convert_to_object and do_cast each have
   the first kind under "both sides are long double"; _cffi_to_c_long_double returns the raw read.
F4 the store / cast / read paths use these helpers with ct->ct_size and PyFloat_AsDouble /
   PyFloat_FromDouble (and the generated-code macros map float/double to them).
"""
import re

from .. import AnalysisError
from ..cast import cx, rules
from ..cast.cfg import cfg_of, stmt_text
from ..cast.loader import backend_tu, wrapper_tu

NARROW = ('float', 'double')


def branches(tu, F, pattern):
    """{type: (cond node, region node list)} for `size == <pattern % type>` branches"""
    g = cfg_of(tu, F)
    out = {}
    for n in g.nodes:
        if n.kind != 'cond':
            continue
        t = cx.render(n.ast)
        if t.strip() == '0':
            continue
        m = re.match(pattern, t)
        if not m:
            raise AnalysisError('%s: branch condition %r not understood' % (F, t))
        tsucc = [s for s, l in n.succ if l == 'T']
        region = [g.nodes[i] for i in g.reach(tsucc, avoid={g.exit.id}) if g.nodes[i].ast is not None]
        out[m.group(1)] = (n, region)
    return g, out


def decls_copies(region):
    decls, copies, rets, asg = [], [], [], []
    for x in region:
        if x.kind == 'return':
            rets.append(x)
        for d in cx.walk(x.ast):
            if d.get('kind') == 'VarDecl':
                ks = cx.kids(d)
                decls.append((d.get('name'), d.get('type'), cx.render(ks[-1]) if d.get('init') and ks else None))
        for c in cx.calls_in(x.ast):
            if cx.callee_name(c) in ('_cffi_memcpy', 'memcpy', '__builtin_memcpy'):
                copies.append([cx.render(a) for a in cx.call_args(c)])
        for a in cx.assignments(x.ast):
            if a[2] == '=':
                asg.append((cx.lhs_text(a[0]), cx.render(a[1])))
    return decls, copies, rets, asg


def f0(run, tu):
    """the store helpers convert the value they are given: nothing rewrites `source` first (clamping or rounding by hand
    replaces the compiler's round-to-nearest conversion by something else near the limits)"""
    for F in ('write_raw_float_data', 'write_raw_longdouble_data', 'write_raw_complex_data'):
        fn = tu.func(F)
        ws = [(lv, x) for n in cx.walk(fn) if cx.is_expr(n) or n.get('kind') in ('DeclStmt',) for lv, x in cx.writes(n) if lv == 'source' or lv.startswith('source.')]
        ws = [(lv, x) for lv, x in ws if x.get('kind') != 'ParmVarDecl']
        run.ob('F1/value-converted-as-given', F, 'no assignment to `source` before the conversion', not ws, tu.where(ws[0][1]) if ws else tu.where(fn),
               'source is rewritten (%s): the stored value is no longer the C conversion of the Python float' % (cx.render(ws[0][1])[:60] if ws else ''))


def f1(run, tu):
    F = 'write_raw_float_data'
    g, br = branches(tu, F, r'^size == sizeof\((.+)\)$')
    for typ, (n, region) in sorted(br.items()):
        decls, copies, rets, _a = decls_copies(region)
        ok = typ in NARROW and len(decls) == 1 and decls[0][1] == typ and decls[0][2] == 'source' and \
            copies == [['target', '&' + decls[0][0], 'sizeof(%s)' % typ]] and len(rets) == 1
        run.ob('F1/store-converts-to-the-type-of-that-size', F, 'size == sizeof(%s): %s r = source; memcpy(target, &r, sizeof(%s))' % (typ, typ, typ),
               ok, tu.where(n.ast), 'temp %s, copy %s' % (decls, copies))
    for t in NARROW:
        run.ob('F1/float-and-double-covered', F, t, t in br, tu.where(tu.func(F)))
    F = 'read_raw_float_data'
    g, br = branches(tu, F, r'^size == sizeof\((.+)\)$')
    for typ, (n, region) in sorted(br.items()):
        decls, copies, rets, _a = decls_copies(region)
        ok = typ in NARROW and len(decls) == 1 and decls[0][1] == typ and \
            copies == [['&' + decls[0][0], 'target', 'sizeof(%s)' % typ]] and len(rets) == 1 and rules.return_value(rets[0]) == decls[0][0]
        run.ob('F1/load-reads-the-type-of-that-size', F, 'size == sizeof(%s): %s r; memcpy(&r, target, sizeof(%s)); return r' % (typ, typ, typ),
               ok, tu.where(n.ast), 'temp %s, copy %s' % (decls, copies))
    for t in NARROW:
        run.ob('F1/float-and-double-covered', F, t, t in br, tu.where(tu.func(F)))
    for F, typ in (('read_raw_longdouble_data', 'long double'), ('write_raw_longdouble_data', 'long double')):
        g, br = branches(tu, F, r'^size == sizeof\((.+)\)$')
        run.ob('F1/long-double-helpers-use-long-double', F, 'size == sizeof(long double)', list(br) == ['long double'], tu.where(tu.func(F)), str(list(br)))
        if 'long double' in br:
            decls, copies, rets, _a = decls_copies(br['long double'][1])
            tmp = [d for d in decls if d[0] != 'size']
            if F.startswith('read'):
                ok = len(tmp) == 1 and tmp[0][1] == typ and copies == [['&' + tmp[0][0], 'target', 'sizeof(long double)']] and rets and rules.return_value(rets[0]) == tmp[0][0]
            else:
                ok = len(tmp) == 1 and tmp[0][1] == typ and tmp[0][2] == 'source' and copies == [['target', '&' + tmp[0][0], 'sizeof(long double)']]
            run.ob('F1/long-double-helpers-use-long-double', F, 'temporary of type long double, sizeof(long double) bytes', bool(ok), tu.where(tu.func(F)), 'temp %s copy %s' % (tmp, copies))
        fn = tu.func(F)
        sig = fn.get('type', '')
        run.ob('F1/long-double-helpers-use-long-double', F, 'signature %s' % sig, 'long double' in sig, tu.where(fn))


def f2(run, tu):
    F = 'write_raw_complex_data'
    g, br = branches(tu, F, r'^size == 2 \* sizeof\((.+)\)$')
    for typ, (n, region) in sorted(br.items()):
        decls, copies, rets, _a = decls_copies(region)
        d = {name: (ty, init) for name, ty, init in decls}
        re_v = [k for k, v in d.items() if v[1] == 'source.real']
        im_v = [k for k, v in d.items() if v[1] == 'source.imag']
        ok = typ in NARROW and len(re_v) == 1 and len(im_v) == 1 and d[re_v[0]][0] == typ and d[im_v[0]][0] == typ and \
            ['target', '&' + re_v[0], 'sizeof(%s)' % typ] in copies and \
            any(c[1] == '&' + im_v[0] and c[0].replace(' ', '') == 'target+sizeof(%s)' % typ and c[2] == 'sizeof(%s)' % typ for c in copies) and len(copies) == 2
        run.ob('F2/complex-store-real-then-imaginary', F, 'size == 2*sizeof(%s)' % typ, ok, tu.where(n.ast), 'temps %s copies %s' % (decls, copies))
    for t in NARROW:
        run.ob('F2/float-and-double-complex-covered', F, t, t in br, tu.where(tu.func(F)))
    F = 'read_raw_complex_data'
    g, br = branches(tu, F, r'^size == 2 \* sizeof\((.+)\)$')
    for typ, (n, region) in sorted(br.items()):
        decls, copies, rets, asg = decls_copies(region)
        if typ == 'double' and any(c[0] == '&r' for c in copies):
            ok = copies == [['&r', 'target', '2 * sizeof(double)']] and rets and rules.return_value(rets[0]) == 'r'
        else:
            names = {name: ty for name, ty, _i in decls}
            src = {}
            for c in copies:
                src[c[0].lstrip('&')] = (c[1].replace(' ', ''), c[2])
            a = dict(asg)
            rp, ip = a.get('r.real'), a.get('r.imag')
            ok = rp in names and ip in names and names[rp] == typ and names[ip] == typ and \
                src.get(rp) in (('target+0', 'sizeof(%s)' % typ), ('target', 'sizeof(%s)' % typ)) and \
                src.get(ip) == ('target+sizeof(%s)' % typ, 'sizeof(%s)' % typ) and rets and rules.return_value(rets[0]) == 'r'
        run.ob('F2/complex-load-real-then-imaginary', F, 'size == 2*sizeof(%s)' % typ, bool(ok), tu.where(n.ast), 'copies %s assignments %s' % (copies, asg))
    for t in NARROW:
        run.ob('F2/float-and-double-complex-covered', F, t, t in br, tu.where(tu.func(F)))


def narrowing_casts(e):
    """floating casts inside an expression: (from type, to type)"""
    out = []
    for n in cx.walk(e):
        if n.get('castKind') == 'FloatingCast':
            ks = cx.kids(n)
            out.append((ks[0].get('type') if ks else None, n.get('type')))
    return out


def decl_id(ref):
    """id of the variable a DeclRefExpr names"""
    r = ref.get('ref')
    return r.get('id') if isinstance(r, dict) else None


def var_defs(fn, ref):
    """definitions (rhs nodes) of the variable that the DeclRefExpr `ref` names (scope-exact, by declaration id)"""
    did = decl_id(ref)
    if did is None:
        raise AnalysisError('cannot resolve the declaration of %s' % cx.render(ref))
    out = []
    for a in cx.assignments(fn):
        lhs = cx.strip(a[0], casts=True) if a[0].get('kind') != 'VarDecl' else a[0]
        if lhs.get('kind') == 'VarDecl' and lhs.get('id') == did:
            out.append(a[1])
        elif lhs.get('kind') == 'DeclRefExpr' and decl_id(lhs) == did:
            out.append(a[1])
    return out


def f3(run, tu):
    exact_sites = {}
    n = 0
    for fname, call in rules.callers_of(tu, 'write_raw_longdouble_data'):
        fn = tu.func(fname)
        arg = cx.call_args(call)[1]
        core = cx.strip(arg)
        casts = narrowing_casts(arg)
        kind = None
        ok = False
        detail = ''
        if arg.get('type') != 'long double' and cx.strip(arg, casts=True).get('type') != 'long double' and not casts:
            detail = 'argument of type %s' % arg.get('type')
        narrowing = [c for c in casts if c[0] == 'long double' and c[1] in ('double', 'float')]
        base = cx.strip(arg, casts=True)
        if narrowing:
            kind, ok, detail = 'narrowed', False, 'the expression narrows a long double: %s' % narrowing
        elif base.get('kind') == 'DeclRefExpr' and base.get('type') == 'long double':
            name = cx.render(base)
            defs = var_defs(fn, base)
            srcs = [cx.callee_name(c) for d in defs for c in cx.calls_in(d)]
            bad = [cx.render(d, keep_casts=True) for d in defs if narrowing_casts(d) and any(c[0] == 'long double' for c in narrowing_casts(d))]
            if name == 'source' and fname == 'write_raw_longdouble_data':
                continue
            ok = bool(defs) and all(cx.callee_name(cx.strip(d, casts=True)) == 'read_raw_longdouble_data' for d in defs) and not bad
            kind = 'exact'
            detail = '%s defined by %s' % (name, [cx.render(d, keep_casts=True) for d in defs])
        elif base.get('type') == 'double':
            name = cx.render(base)
            defs = var_defs(fn, base) if base.get('kind') == 'DeclRefExpr' else [base]
            from_ld = [cx.render(d, keep_casts=True) for d in defs if any(cx.callee_name(c) == 'read_raw_longdouble_data' for c in cx.calls_in(d))]
            ok = not from_ld
            kind = 'widened double'
            detail = 'double %s defined by %s' % (name, [cx.render(d, keep_casts=True)[:60] for d in defs])
        else:
            raise AnalysisError('%s: argument %s of write_raw_longdouble_data not classified' % (fname, cx.render(arg, keep_casts=True)))
        if kind == 'exact' and ok:
            exact_sites.setdefault(fname, []).append(call)
        run.ob('F3/long-double-never-narrowed-on-the-way-to-a-store', fname, 'write_raw_longdouble_data(.., %s) [%s]' % (cx.render(arg, keep_casts=True), kind),
               ok, tu.where(call), detail)
        n += 1
    F_ = rules.macro_flags(tu, 'CT_')
    ld = F_['CT_IS_LONGDOUBLE']
    for fname in ('convert_from_object', 'convert_to_object', 'do_cast'):
        sites = exact_sites.get(fname, [])
        okf = False
        why = 'no bit-exact long double -> long double store'
        g = cfg_of(tu, fname)
        for c in sites:
            node = g.node_of(c)
            facts = g.fact_texts(node.id)
            hit = [f for f in facts if f.startswith('T:') and re.search(r'ct_flags & %d$' % ld, f)]
            want = 1 if fname == 'convert_to_object' else 2
            neg = [f for f in facts if f.startswith('F:!(') and re.search(r'ct_flags & %d\)$' % ld, f)]
            if len(hit) + len(neg) >= want:
                okf = True
            why = 'facts at the store: %s' % sorted(f for f in facts if str(ld) in f)
        run.ob('F3/long-double-to-long-double-path-is-bit-exact', fname, 'source and target long double -> raw read, raw write', okf,
               tu.where(sites[0]) if sites else tu.where(tu.func(fname)), why)
    # the bit-exact path of do_cast tests whether the *converted source* is a long double cdata: a cdata source must therefore reach that
    # test through the one conversion that keeps a long double as a cdata (convert_to_object), or unconverted; any other conversion of
    # the source is only allowed where the source is known not to be a long double
    g = cfg_of(tu, 'do_cast')
    dc = tu.func('do_cast')
    for l_, r_, o_, x_ in cx.assignments(dc):
        if cx.lhs_text(l_) != 'io' or o_ not in ('=', 'init'):
            continue
        rr = cx.strip(r_, casts=True)
        if rr.get('kind') != 'CallExpr':
            okc, why = cx.render(rr) == 'ob', 'io = %s' % cx.render(rr)
        elif cx.callee_name(rr) == 'convert_to_object':
            a_ = [cx.render(y) for y in cx.call_args(rr)]
            okc, why = a_ == ['cdsrc->c_data', 'cdsrc->c_type'], 'convert_to_object(%s)' % ', '.join(a_)
        else:
            facts = g.fact_texts(g.node_of(x_).id)
            excl = [f for f in facts if f.startswith('F:') and re.search(r'cdsrc->c_type->ct_flags & %d$' % ld, f)]
            okc = bool(excl)
            why = ('%s turns a long double cdata into a Python float (53 significant bits) before the "both sides are long double" test is made; '
                   'facts here: %s' % (cx.render(rr)[:50], sorted(f for f in facts if 'cdsrc' in f)))
        run.ob('F3/cdata-source-reaches-the-long-double-test-unnarrowed', 'do_cast', 'io = %s' % cx.render(rr)[:60], okc, tu.where(x_), why)
    # a byte is a value in 0..255: the cast of a bytes object of length 1 reads it as unsigned char
    cb = tu.func('check_bytes_for_float_compatible')
    reads = [(l_, r_, x_) for l_, r_, o_, x_ in cx.assignments(cb) if cx.lhs_text(l_).replace(' ', '') == '*out_value' and 'ob_sval' in cx.render(r_, keep_casts=True) or
             (cx.lhs_text(l_).replace(' ', '') == '*out_value' and 'PyBytes' in cx.render(r_, keep_casts=True))]
    run.need(len(reads) == 1, 'check_bytes_for_float_compatible: the read of the single byte not found')
    casts = [c_ for c_ in cx.walk(reads[0][1]) if c_.get('kind') in ('CStyleCastExpr', 'ImplicitCastExpr') and (c_.get('type') or '').strip() == 'unsigned char']
    explicit = [c_ for c_ in cx.walk(reads[0][1]) if c_.get('kind') == 'CStyleCastExpr' and (c_.get('type') or '').strip() == 'unsigned char']
    run.ob('F4/byte-source-read-as-unsigned-char', 'check_bytes_for_float_compatible', '*out_value = %s' % cx.render(reads[0][1], keep_casts=True)[:70], bool(explicit), tu.where(reads[0][2]),
           'the byte is read through plain char (signed on this platform): bytes 0x80..0xff become negative numbers')
    F = '_cffi_to_c_long_double'
    g = cfg_of(tu, F)
    rets = [r for r in g.nodes if r.kind == 'return']
    raw = [r for r in rets if cx.callee_name(cx.strip(cx.kids(r.ast)[0], casts=True)) == 'read_raw_longdouble_data' and not narrowing_casts(r.ast)]
    okr = len(raw) == 1 and any(re.search(r'ct_flags & %d$' % ld, f) and f.startswith('T:') for f in g.fact_texts(raw[0].id)) and \
        tu.func(F).get('type', '').startswith('long double')
    run.ob('F3/long-double-to-long-double-path-is-bit-exact', F, 'long double cdata argument -> return read_raw_longdouble_data(data)', okr, tu.where(tu.func(F)))
    # no reader of a long double narrows it except where a Python float / truth value is asked for
    allowed = {'cdata_float': 'float(cdata) is a Python float by definition', 'cdata_repr': 'formatting with %LE keeps long double',
               '_my_PyObject_AsBool': 'comparison with 0.0 only'}
    for fname, call in rules.callers_of(tu, 'read_raw_longdouble_data'):
        fn = tu.func(fname)
        # find the narrowing casts applied directly on the call result
        bad = []
        for x in cx.walk(fn):
            if x.get('castKind') == 'FloatingCast' and x.get('type') in ('double', 'float'):
                inner = cx.strip(cx.kids(x)[0], casts=True)
                if inner.get('id') == call.get('id') or (inner.get('kind') == 'CallExpr' and cx.callee_name(inner) == 'read_raw_longdouble_data'):
                    bad.append(x)
        if bad:
            run.ob('F3/raw-long-double-read-not-narrowed', fname, cx.render(bad[0], keep_casts=True), fname in allowed, tu.where(bad[0]),
                   allowed.get(fname, 'a long double read is narrowed to %s' % bad[0].get('type')))
    return n


def f4(run, tu):
    F_ = rules.macro_flags(tu, 'CT_')
    ld = F_['CT_IS_LONGDOUBLE']
    for fname, dst in (('convert_from_object', 'data'), ('do_cast', 'cd->c_data')):
        g = cfg_of(tu, fname)
        cs = [c for c in cx.calls_in(tu.func(fname)) if cx.callee_name(c) == 'write_raw_float_data']
        run.need(len(cs) == 1, '%s: expected one write_raw_float_data' % fname)
        a = [cx.render(x) for x in cx.call_args(cs[0])]
        node = g.node_of(cs[0])
        facts = g.fact_texts(node.id)
        notld = any(re.search(r'ct->ct_flags & %d' % ld, f) and (f.startswith('F:ct') or f.startswith('T:!(')) for f in facts)
        vref = cx.strip(cx.call_args(cs[0])[1], casts=True)
        defs = [cx.render(d) for d in var_defs(tu.func(fname), vref)]
        okd = all(d.startswith('PyFloat_AsDouble(') or d in ('ordinal', '0', 'io->ob_sval[0]') or 'check_bytes' in d for d in defs) and any(d.startswith('PyFloat_AsDouble(') for d in defs)
        run.ob('F4/float-store-through-the-helper', fname, 'write_raw_float_data(%s)' % ', '.join(a),
               a == [dst, 'value', 'ct->ct_size'] and notld and okd, tu.where(cs[0]), 'value defined by %s; facts %s' % (defs, sorted(f for f in facts if str(ld) in f)))
    g = cfg_of(tu, 'convert_to_object')
    cs = [c for c in cx.calls_in(tu.func('convert_to_object')) if cx.callee_name(c) == 'read_raw_float_data']
    run.need(len(cs) == 1, 'convert_to_object: expected one read_raw_float_data')
    a = [cx.render(x) for x in cx.call_args(cs[0])]
    fn = tu.func('convert_to_object')
    pf = [c for c in cx.calls_in(fn) if cx.callee_name(c) == 'PyFloat_FromDouble']
    okp = any(cx.render(cx.call_args(c)[0]) == 'value' for c in pf)
    run.ob('F4/float-load-through-the-helper', 'convert_to_object', 'PyFloat_FromDouble(read_raw_float_data(%s))' % ', '.join(a), a == ['data', 'ct->ct_size'] and okp, tu.where(cs[0]))
    # complex
    for fname in ('convert_from_object', 'do_cast'):
        cs = [c for c in cx.calls_in(tu.func(fname)) if cx.callee_name(c) == 'write_raw_complex_data']
        run.need(len(cs) == 1, '%s: expected one write_raw_complex_data' % fname)
        a = [cx.render(x) for x in cx.call_args(cs[0])]
        run.ob('F4/complex-store-through-the-helper', fname, 'write_raw_complex_data(%s)' % ', '.join(a), a[1] == 'value' and a[2] == 'ct->ct_size', tu.where(cs[0]))
    # generated-code macros
    w = wrapper_tu()
    want = {'_cffi_to_c_double': 'PyFloat_AsDouble', '_cffi_from_c_double': 'PyFloat_FromDouble', '_cffi_from_c_float': 'PyFloat_FromDouble',
            '_cffi_to_c_float': 'PyFloat_AsDouble'}
    for mname, body in sorted(want.items()):
        got = w.macros.get(mname)
        txt = got[1].replace(' ', '') if got else None
        run.ob('F4/generated-code-macros', '_cffi_include.h', '#define %s %s' % (mname, got[1] if got else '?'), txt == body.replace(' ', ''), 'src/cffi/_cffi_include.h', 'expected %s' % body)


def check(run):
    run.technique = ('clang-AST rules: per-size shape of the raw float/complex store and load helpers (types of the temporaries, copy '
                     'lengths and offsets), cast-kind inspection (FloatingCast) on every expression reaching a long double store, '
                     'dominance facts for the long double -> long double paths, wiring of the store/cast/read paths and header macros')
    tu = backend_tu()
    f0(run, tu)
    f1(run, tu)
    f2(run, tu)
    f3(run, tu)
    f4(run, tu)
    run.assume('decided: which C conversion each store/load applies and that a long double never passes through a narrower type; '
               'not decided: the IEEE behaviour of the compiler\'s conversions, PyFloat_AsDouble/__float__ themselves, NaN payloads')
    for rule, k in (('F1', 12), ('F2', 8), ('F3/long-double-never-narrowed-on-the-way-to-a-store', 5), ('F3/long-double-to-long-double-path-is-bit-exact', 4), ('F4', 8)):
        run.min_instances(rule, k)
