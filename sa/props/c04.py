"""C04 — ffi.cast to integer and character types follows C conversion rules (structural clauses).

The property's arithmetic ("x reduced modulo 2**(8*sizeof T)") is carried by three
mechanisms whose *presence and wiring* are visible in the code; they are what is decided:

K1 cast_to_integer_or_char dispatches every source kind the property lists to a value:
   pointer/array/function cdata -> its address (flag mask covers the three kinds);
   str -> the ordinal returned by the single-character helper (failure -> TypeError);
   bytes -> _convert_to_char; a _Bool target -> _my_PyObject_AsBool; anything else ->
   _my_PyLong_AsUnsignedLongLong(ob, strict=0), failing only when the helper reports an error.
K2 every successful return writes exactly that value through
   write_raw_integer_data(cd->c_data, value, ct->ct_size); for a _Bool target the value is
   normalised with !! on every path before the write.
K3 write_raw_integer_data narrows by conversion to the *unsigned* C type of the requested
   size and copies sizeof(that type) bytes -- i.e. reduction modulo 2**(8*size) -- for sizes
   1, 2, 4 and 8; any other size is fatal.
K4 with strict == 0, _my_PyLong_AsUnsignedLongLong masks Python ints
   (PyLong_AsUnsignedLongLongMask), converts other objects through nb_int (truncation toward
   zero for floats is CPython's float.__int__) with strict passed on, and refuses only
   objects without nb_int.
K5 do_cast routes SIGNED|UNSIGNED|CHAR targets to cast_to_integer_or_char and, for pointer
   targets, rebuilds the address from _my_PyLong_AsUnsignedLongLong(ob, 0) -- the two halves of
   the intptr_t round trip; int(cdata) reads back with the signedness of the type.
"""
import re

from .. import AnalysisError
from ..cast import cx, rules
from ..cast.cfg import cfg_of, stmt_text
from ..cast.loader import backend_tu

UNSIGNED_OF_SIZE = {'unsigned char': 1, 'unsigned short': 2, 'unsigned int': 4, 'unsigned long': 8, 'unsigned long long': 8}


def mask_of(text):
    """fold a rendered mask expression like '(16 | 256) | 32'"""
    t = text.strip()
    if not re.match(r'^[\d\s|()<]+$', t):
        return None
    try:
        return eval(t, {'__builtins__': {}})
    except Exception:
        return None


def flag_mask_facts(facts, lhs):
    """{truth: [mask, ...]} for facts of the form `lhs & MASK`"""
    out = {'T': [], 'F': []}
    for f in facts:
        lab, txt = f.split(':', 1)
        m = re.match(r'^%s & (.+)$' % re.escape(lhs), txt)
        if m and lab in out:
            v = mask_of(m.group(1))
            if v is not None:
                out[lab].append(v)
    return out


def k1_k2(run, tu, F_):
    F = 'cast_to_integer_or_char'
    g = cfg_of(tu, F)
    fn = tu.func(F)
    writes = [n for n in g.nodes if n.ast is not None and n.kind == 'stmt' and any(cx.callee_name(c) == 'write_raw_integer_data' for c in cx.calls_in(n.ast))]
    run.need(len(writes) == 1, '%s: expected exactly one write_raw_integer_data call' % F)
    w = writes[0]
    wc = [c for c in cx.calls_in(w.ast) if cx.callee_name(c) == 'write_raw_integer_data'][0]
    wargs = [cx.render(a) for a in cx.call_args(wc)]
    run.ob('K2/value-written-with-the-size-of-the-type', F, 'write_raw_integer_data(%s)' % ', '.join(wargs),
           wargs == ['cd->c_data', 'value', 'ct->ct_size'], tu.where(wc))
    # definitions of value
    defs = []
    norm = []
    for n in g.nodes:
        if n.ast is None or n.kind != 'stmt':
            continue
        for a in cx.assignments(n.ast):
            if cx.lhs_text(a[0]) == 'value' and a[2] in ('=', 'init'):
                rhs = cx.render(a[1])
                if rhs.replace(' ', '') in ('!!value', 'value!=0'):
                    norm.append(n)
                else:
                    defs.append((n, rhs, a[1]))
    run.need(len(defs) >= 5, '%s: expected at least five definitions of value, found %d' % (F, len(defs)))
    seen = {}
    for n, rhs, node in defs:
        facts = g.fact_texts(n.id)
        calls = [cx.callee_name(c) for c in cx.calls_in(node)]
        kind = None
        ok = False
        detail = ''
        if rhs == 'ob->c_data':
            kind = 'pointer/array/function cdata -> address'
            fm = flag_mask_facts(facts, 'ob->c_type->ct_flags')
            want = F_['CT_POINTER'] | F_['CT_FUNCTIONPTR'] | F_['CT_ARRAY']
            ok = any(m == want for m in fm['T'])
            detail = 'guard masks %s, expected CT_POINTER|CT_FUNCTIONPTR|CT_ARRAY = %d' % (fm['T'], want)
        elif rhs == 'func_cdata->c_data':
            kind = 'built-in function object of a lib -> its address'
            ok = any('func_cdata != 0' in f and f.startswith('T:') for f in facts)
            detail = str(sorted(f for f in facts if 'func_cdata' in f))
        elif rhs == 'ordinal':
            kind = 'one-character str -> code point'
            ok = any(f.startswith('F:_my_PyUnicode_AsSingleChar32(ob, &ordinal') and f.endswith('< 0') for f in facts) and \
                any(f.startswith('T:PyType_HasFeature(Py_TYPE(ob), 1 << 28)') for f in facts)
            detail = 'dominating facts: %s' % sorted(f for f in facts if 'Unicode' in f or 'HasFeature' in f)
        elif '_my_PyLong_AsUnsignedLongLong' in calls:
            kind = 'int / float / other number -> non-strict integer conversion'
            c = [c for c in cx.calls_in(node) if cx.callee_name(c) == '_my_PyLong_AsUnsignedLongLong'][0]
            a = [cx.render(x) for x in cx.call_args(c)]
            ok = a == ['ob', '0']
            detail = 'arguments %s (strict must be 0)' % a
            # failure only when the helper reports one
            run.ob('K1/number-conversion-fails-only-on-helper-error', F, 'value == -1 && PyErr_Occurred() -> NULL',
                   _only_error_exit(g, n), tu.where(node))
        elif rhs == 'res':
            src = None
            for p in g.nodes:
                if p.ast is not None and p.kind == 'stmt':
                    for a in cx.assignments(p.ast):
                        if cx.lhs_text(a[0]) == 'res' and p.id in g.coreach([n.id]):
                            nm = [cx.callee_name(c) for c in cx.calls_in(a[1])]
                            if nm and g.must_precede(n.id, {p.id}):
                                src = nm[0]
            if src == '_convert_to_char':
                kind = '1-byte bytes -> the byte'
                ok = any(f.startswith('T:PyType_HasFeature(Py_TYPE(ob), 1 << 27)') for f in facts) and 'F:res < 0' in facts
            elif src == '_my_PyObject_AsBool':
                kind = '_Bool target -> truth value'
                fm = flag_mask_facts(facts, 'ct->ct_flags')
                ok = F_['CT_IS_BOOL'] in fm['T'] and 'F:res < 0' in facts
            detail = 'res comes from %s; facts %s' % (src, sorted(f for f in facts if 'res' in f or 'ct_flags' in f or 'HasFeature' in f))
        if kind is None:
            raise AnalysisError('%s: definition `value = %s` (line %s) not classified' % (F, rhs, tu.where(node)))
        seen.setdefault(kind, []).append(ok)
        run.ob('K1/source-kind-dispatch', F, 'value = %s  [%s]' % (cx.render(node, keep_casts=True), kind), ok, tu.where(node), detail)
        # K2: from every definition, all paths to a successful return pass through the write
        rets = [r for r in g.nodes if r.kind == 'return' and rules.return_value(r) == 'cd']
        run.need(len(rets) >= 1, '%s: no `return cd`' % F)
        cd_ok = g.edges_of(lambda cn, l: (cx.render(cn.ast).replace(' ', ''), l) in (('cd!=0', 'F'), ('cd==0', 'T'), ('cd', 'F'), ('!cd', 'T')))
        r = g.reach([n.id], avoid={w.id}, avoid_edges=cd_ok, include_start=False)
        run.ob('K2/every-successful-return-wrote-the-value', F, 'value = %s ... return cd' % rhs, not any(x.id in r for x in rets), tu.where(node),
               'a path reaches `return cd` with cd != NULL without write_raw_integer_data')
    for kind in ('pointer/array/function cdata -> address', 'one-character str -> code point', '1-byte bytes -> the byte',
                 '_Bool target -> truth value', 'int / float / other number -> non-strict integer conversion'):
        run.ob('K1/every-listed-source-kind-has-a-branch', F, kind, bool(seen.get(kind)), tu.where(fn))
    # _Bool normalisation
    boolc = [n for n in g.nodes if n.kind == 'cond' and flag_mask_facts({'T:' + cx.render(n.ast)}, 'ct->ct_flags')['T'] == [F_['CT_IS_BOOL']]]
    okn = False
    if norm:
        f_edges = [(n.id, t, l) for n in boolc for t, l in n.succ if l == 'F']
        # removing the "not a _Bool" edges, the write is unreachable without passing a normalisation
        r = g.reach([g.entry.id], avoid={x.id for x in norm}, avoid_edges=f_edges)
        okn = w.id not in r
    run.ob('K2/bool-target-normalised-before-the-write', F, 'if (ct->ct_flags & CT_IS_BOOL) value = !!value', okn, tu.where(norm[0].ast) if norm else tu.where(fn),
           'for a _Bool target a path reaches the write without `value = !!value`')
    return 1


def _only_error_exit(g, defnode):
    """after `value = helper(...)`: a NULL return is reachable only through `value == -1` T and PyErr_Occurred() T"""
    rets0 = [r for r in g.nodes if r.kind == 'return' and rules.return_value(r) in ('0', 'NULL')]
    e1 = g.edges_of(lambda cn, l: cx.render(cn.ast).replace(' ', '') in ('value==-1',) and l == 'T')
    e2 = g.edges_of(lambda cn, l: cx.render(cn.ast) == 'PyErr_Occurred()' and l == 'T')
    if not e1 or not e2:
        return False
    for r in rets0:
        if r.id in g.reach([defnode.id], include_start=False):
            if r.id in g.reach([defnode.id], avoid_edges=e1, include_start=False):
                # reachable without the sentinel test: only via paths that do not start at this definition's continuation
                if r.id in g.reach([defnode.id], avoid_edges=e1 + e2, include_start=False):
                    return False
    # and the sentinel alone (without a pending error) does not fail
    for r in rets0:
        if r.id in g.reach([defnode.id], avoid_edges=e2, include_start=False):
            return False
    return True


def k3(run, tu):
    F = 'write_raw_integer_data'
    g = cfg_of(tu, F)
    fn = tu.func(F)
    sizes = {}
    for n in g.nodes:
        if n.kind != 'cond':
            continue
        t = cx.render(n.ast)
        m = re.match(r'^size == sizeof\((.+)\)$', t)
        if not m:
            if t.strip() in ('0',):
                continue
            raise AnalysisError('%s: branch condition %r not understood' % (F, t))
        typ = m.group(1)
        tsucc = [s for s, l in n.succ if l == 'T']
        region = g.reach(tsucc, avoid={g.exit.id})
        decls, copies, rets = [], [], []
        for i in region:
            x = g.nodes[i]
            if x.ast is None:
                continue
            if x.kind == 'return':
                rets.append(x)
            for d in cx.walk(x.ast):
                if d.get('kind') == 'VarDecl' and d.get('init'):
                    decls.append((d.get('name'), d.get('type'), cx.render(cx.kids(d)[-1])))
            for c in cx.calls_in(x.ast):
                if cx.callee_name(c) in ('_cffi_memcpy', 'memcpy', '__builtin_memcpy'):
                    copies.append([cx.render(a) for a in cx.call_args(c)])
        ok_t = typ in UNSIGNED_OF_SIZE
        ok_d = len(decls) == 1 and decls[0][1] == typ and decls[0][2] == 'source'
        ok_c = len(copies) == 1 and decls and copies[0] == ['target', '&' + decls[0][0], 'sizeof(%s)' % typ]
        # the branch ends in a return without touching anything else
        ok_r = len(rets) == 1
        run.ob('K3/narrowing-store-per-size', F, 'size == sizeof(%s): %s r = source; memcpy(target, &r, sizeof(%s))' % (typ, typ, typ),
               ok_t and ok_d and ok_c and ok_r, tu.where(n.ast),
               'type %s (unsigned: %s), temp %s, copy %s' % (typ, ok_t, decls, copies))
        if ok_t:
            sizes.setdefault(UNSIGNED_OF_SIZE[typ], []).append(typ)
    for s in (1, 2, 4, 8):
        run.ob('K3/all-integer-sizes-covered', F, '%d-byte integers' % s, s in sizes, tu.where(fn), str(sizes))
    fatal = [n for n in g.nodes if n.ast is not None and any((cx.callee_name(c) or '').startswith('_Py_FatalError') or cx.callee_name(c) == 'Py_FatalError' for c in cx.calls_in(n.ast))]
    run.ob('K3/unknown-size-is-fatal', F, 'Py_FatalError("... bad integer size")', len(fatal) == 1, tu.where(fn))
    return len(sizes)


def k4(run, tu):
    F = '_my_PyLong_AsUnsignedLongLong'
    g = cfg_of(tu, F)
    fn = tu.func(F)
    strict_t = g.edges_of(lambda cn, l: cx.render(cn.ast).replace(' ', '') in ('strict', 'strict!=0') and l == 'T') + \
        g.edges_of(lambda cn, l: cx.render(cn.ast).replace(' ', '') in ('!strict', 'strict==0') and l == 'F')
    run.need(strict_t, '%s: no test of `strict`' % F)
    live = g.reach([g.entry.id], avoid_edges=strict_t)
    rets = [n for n in g.nodes if n.kind == 'return' and n.id in live]
    texts = sorted(set(stmt_text(n.ast) for n in rets))
    mask = [n for n in rets if 'PyLong_AsUnsignedLongLongMask(ob)' in stmt_text(n.ast)]
    pl = g.edges_of(lambda cn, l: 'PyType_HasFeature(Py_TYPE(ob), 1 << 24)' in cx.render(cn.ast) and l == 'T')
    run.need(pl, '%s: no PyLong_Check(ob) test' % F)
    # under PyLong_Check(ob) and !strict the only return is the masking one
    under = g.reach([e[1] for e in pl], avoid_edges=strict_t)
    urets = [n for n in g.nodes if n.kind == 'return' and n.id in under]
    run.ob('K4/python-int-is-masked', F, 'PyLong_Check(ob) && !strict -> return PyLong_AsUnsignedLongLongMask(ob)',
           len(mask) == 1 and urets == mask, tu.where(fn), 'returns reachable for an int with strict == 0: %s' % [stmt_text(n.ast) for n in urets])
    # every way out with strict == 0 is one of: the masking conversion, the result of the recursive call on the
    # nb_int result, or the error value -- a value computed here (e.g. a float cast by hand) is not C's modular reduction
    for r in rets:
        txt = stmt_text(r.ast)
        e = cx.strip(cx.kids(r.ast)[0], casts=True) if cx.kids(r.ast) else None
        okx = 'PyLong_AsUnsignedLongLongMask(' in txt or rules.return_value(r) in ('-1', 'res')
        if not okx and e is not None and e.get('kind') == 'DeclRefExpr':
            d = rules.single_def(fn, cx.render(e))
            okx = d is not None and F in [cx.callee_name(c) for c in cx.calls_in(d)]
        run.ob('K4/non-strict-exits-are-mask-recursion-or-error', F, txt[:90], okx, tu.where(r.ast),
               'a result computed outside PyLong_AsUnsignedLongLongMask: out-of-range values are not reduced modulo 2**64 the way C does')
    strict_only = [n for n in g.nodes if n.ast is not None and n.id in live and any(cx.callee_name(c) == 'PyLong_AsUnsignedLongLong' for c in cx.calls_in(n.ast))]
    neg = [n for n in g.nodes if n.ast is not None and n.id in live and 'PyExc_OverflowError' in cx.render(n.ast)]
    run.ob('K4/no-range-error-when-not-strict', F, 'strict == 0: neither PyLong_AsUnsignedLongLong nor the OverflowError exit is reachable',
           not strict_only and not neg, tu.where(fn), 'reachable: %s' % [stmt_text(n.ast) for n in strict_only + neg])
    # refusal only without nb_int
    te = [n for n in g.nodes if n.ast is not None and n.id in live and 'PyExc_TypeError' in cx.render(n.ast) and 'an integer is required' in cx.render(n.ast)]
    run.need(len(te) == 1, '%s: expected one "an integer is required" exit' % F)
    nb_edges = g.edges_of(lambda cn, l: cx.render(cn.ast).replace(' ', '') in ('nb==0', 'nb->nb_int==0') and l == 'T')
    ok = bool(nb_edges) and te[0].id not in g.reach([g.entry.id], avoid_edges=strict_t + nb_edges)
    run.ob('K4/floats-are-not-refused-when-not-strict', F, 'TypeError only when the object has no nb_int', ok, tu.where(te[0].ast),
           'with strict == 0 the refusal is reachable on another condition')
    # conversion through nb_int, strict passed on
    rec = [c for c in cx.calls_in(fn) if cx.callee_name(c) == F]
    run.need(len(rec) == 1, '%s: expected one recursive call' % F)
    a = [cx.render(x) for x in cx.call_args(rec[0])]
    run.ob('K4/converted-number-handled-with-the-same-strictness', F, '%s(%s)' % (F, ', '.join(a)), a == ['io', 'strict'], tu.where(rec[0]))
    ios = [cx.render(x[1]) for x in cx.assignments(fn) if cx.lhs_text(x[0]) == 'io']
    run.ob('K4/other-objects-go-through-nb-int', F, 'io = (*nb->nb_int)(ob)', len(ios) == 1 and 'nb->nb_int' in ios[0] and ios[0].endswith('(ob)'), tu.where(fn), str(ios))
    return 1


def k5(run, tu, F_):
    F = 'do_cast'
    g = cfg_of(tu, F)
    fn = tu.func(F)
    cs = [c for c in cx.calls_in(fn) if cx.callee_name(c) == 'cast_to_integer_or_char']
    run.need(len(cs) == 1, '%s: expected one call of cast_to_integer_or_char' % F)
    node = g.node_of(cs[0])
    fm = flag_mask_facts(g.fact_texts(node.id), 'ct->ct_flags')
    want = F_['CT_PRIMITIVE_SIGNED'] | F_['CT_PRIMITIVE_UNSIGNED'] | F_['CT_PRIMITIVE_CHAR']
    a = [cx.render(x) for x in cx.call_args(cs[0])]
    run.ob('K5/integer-and-char-targets-routed', F, 'ct_flags & (SIGNED|UNSIGNED|CHAR) -> cast_to_integer_or_char(ct, ob)',
           want in fm['T'] and a == ['ct', 'ob'], tu.where(cs[0]), 'guard masks %s, args %s' % (fm['T'], a))
    # pointer target: address rebuilt from the non-strict integer
    conv = [c for c in cx.calls_in(fn) if cx.callee_name(c) == '_my_PyLong_AsUnsignedLongLong']
    run.need(len(conv) >= 1, '%s: no integer -> pointer conversion' % F)
    okc = all([cx.render(x) for x in cx.call_args(c)] == ['ob', '0'] for c in conv)
    run.ob('K5/pointer-from-integer-not-strict', F, '_my_PyLong_AsUnsignedLongLong(ob, 0)', okc, tu.where(conv[0]))
    news = [c for c in cx.calls_in(fn) if cx.callee_name(c) == 'new_simple_cdata' and cx.render(cx.call_args(c)[0]) == 'value']
    run.ob('K5/pointer-from-integer-keeps-the-address', F, 'new_simple_cdata((char *)(Py_intptr_t)value, ct)',
           len(news) == 1 and cx.render(cx.call_args(news[0])[1]) == 'ct', tu.where(news[0]) if news else tu.where(fn))
    # reading back
    F2 = 'cdata_int'
    g2 = cfg_of(tu, F2)
    rs = [c for c in cx.calls_in(tu.func(F2)) if cx.callee_name(c) == 'read_raw_signed_data']
    run.need(len(rs) == 1, '%s: expected one read_raw_signed_data' % F2)
    n2 = g2.node_of(rs[0])
    facts = g2.fact_texts(n2.id)
    want2 = F_['CT_PRIMITIVE_SIGNED'] | F_['CT_PRIMITIVE_FITS_LONG']
    okf = any(re.match(r'^T:\(cd->c_type->ct_flags & \(?%s\)?\) == \(?%s\)?$' % (re.escape(m), re.escape(m)), f) for f in facts
              for m in ['%d | %d' % (F_['CT_PRIMITIVE_SIGNED'], F_['CT_PRIMITIVE_FITS_LONG']), str(want2)])
    a = [cx.render(x) for x in cx.call_args(rs[0])]
    run.ob('K5/int-of-signed-cdata-reads-signed', F2, 'read_raw_signed_data(cd->c_data, cd->c_type->ct_size) under SIGNED|FITS_LONG',
           okf and a == ['cd->c_data', 'cd->c_type->ct_size'], tu.where(rs[0]), 'facts %s' % sorted(facts))
    # K6: int() of a character cdata: 1 byte unsigned, 2 bytes unsigned, 4 bytes signed exactly when wchar_t is signed
    g3 = cfg_of(tu, F2)
    sw = [n for n in g3.nodes if n.kind == 'switch' and cx.render(n.ast).endswith('ct_size')]
    rets = [n for n in g3.nodes if n.kind == 'return' and any(f.startswith("('case',") or 'case' in f for f in g3.fact_texts(n.id)) and
            any(re.search(r'ct_flags & %d$' % F_['CT_PRIMITIVE_CHAR'], f) and f.startswith('T:') for f in g3.fact_texts(n.id))]
    seen = {}
    for r in rets:
        facts = g3.fact_texts(r.id)
        size = None
        for f in facts:
            mm = re.match(r"^case (\S+):.*ct_size$", f)
            if mm:
                size = mm.group(1)
        signed_w = any(re.search(r'ct_flags & %d$' % F_['CT_IS_SIGNED_WCHAR'], f) and f.startswith('T:') for f in facts)
        unsigned_w = any(re.search(r'ct_flags & %d$' % F_['CT_IS_SIGNED_WCHAR'], f) and f.startswith('F:') for f in facts)
        txt = cx.render(cx.kids(r.ast)[0], keep_casts=True)
        read_t = re.search(r"\*\(?\((\w+) \*\)cd->c_data", txt) or re.search(r"\((unsigned char)\)cd->c_data\[0\]", txt)
        rt = read_t.group(1) if read_t else None
        key = (size, 'signed wchar' if signed_w else 'unsigned wchar' if unsigned_w else 'any')
        seen[key] = rt
        want = None
        if size in ('1', 'sizeof(char)'):
            want = {'unsigned char'}
        elif size == '2':
            want = {'cffi_char16_t', 'uint16_t'}
        elif size == '4':
            want = {'int32_t', 'int'} if signed_w else {'uint32_t', 'cffi_char32_t', 'unsigned int'} if unsigned_w else set()
        run.ob('K6/int-of-a-character-reads-with-the-signedness-of-the-type', F2, 'size %s, %s: %s' % (size, key[1], txt[:70]), rt in (want or ()), tu.where(r.ast),
               'read through %s, expected one of %s (a 4-byte character is signed exactly when CT_IS_SIGNED_WCHAR)' % (rt, sorted(want or [])))
    run.saw('cdata_int character cases', [str(sorted(seen.items()))])
    return 1


def k8(run, tu, F_):
    """the source kinds are available to every integer target: the branch for a built-in function object of an API-mode lib (its address)
    is not placed under a test of the *target* type (a function cast to _Bool is true, like any non-null pointer)"""
    F = 'cast_to_integer_or_char'
    g = cfg_of(tu, F)
    ext = [n for n in g.nodes if n.ast is not None and cx.calls_in(n.ast, 'try_extract_directfnptr')]
    run.need(len(ext) == 1, '%s: the built-in function branch not found' % F)
    facts = sorted(f for f in g.fact_texts(ext[0].id) if 'ct->ct_flags' in f and 'ob' not in f.split(':', 1)[1].replace('ob_', ''))
    run.ob('K1/function-objects-cast-to-every-integer-target', F, 'try_extract_directfnptr(ob)', not facts, tu.where(ext[0].ast),
           'reached only when %s: for the excluded target type the function object goes to the number conversion and raises TypeError' % facts)


def k7(run, tu):
    """a cast to _Bool is `x != 0`: every answer _my_PyObject_AsBool gives by itself is a comparison `... != 0` (negative numbers and
    NaN are true), the others are the error value or the answer of the recursion on the converted number"""
    F = '_my_PyObject_AsBool'
    g = cfg_of(tu, F)
    n = 0
    for r in g.nodes:
        if r.kind != 'return' or r.id not in g.live():
            continue
        ks = cx.kids(r.ast)
        run.need(bool(ks), '%s: a return without a value' % F)
        e = cx.strip(ks[0], casts=True)
        txt = cx.render(e)
        if txt in ('-1', 'res'):
            continue
        n += 1
        ok = False
        if e.get('kind') == 'BinaryOperator' and e.get('opcode') == '!=':
            a, b = cx.kids(e)
            zero = lambda t: cx.render(cx.strip(t, casts=True)).rstrip('.0') in ('', '0') or cx.render(cx.strip(t, casts=True)) in ('0', '0.', '0.0')
            ok = zero(a) or zero(b)
        run.ob('K7/bool-cast-is-nonzero-test', F, 'return %s' % txt[:70], ok, tu.where(r.ast), 'a _Bool cast must answer `value != 0`; this answer makes some non-zero value (a negative number) false')
    run.need(n >= 3, '%s: fewer direct answers than confirmed by hand (%d)' % (F, n))
    res = [cx.render(r_) for l_, r_, o_, _x in cx.assignments(tu.func(F)) if cx.lhs_text(l_) == 'res']
    run.ob('K7/recursion-answers-for-the-converted-number', F, 'res = %s' % res, set(res) <= {'_my_PyObject_AsBool(io)', '-1'} and '_my_PyObject_AsBool(io)' in res, tu.where(tu.func(F)))


def check(run):
    run.technique = ('clang-AST/CFG rules: source-kind dispatch and dominance facts in cast_to_integer_or_char, must-pass-through of the '
                     'single narrowing store, per-size shape of write_raw_integer_data, reachability of _my_PyLong_AsUnsignedLongLong '
                     'with strict fixed to 0, routing in do_cast and cdata_int')
    tu = backend_tu()
    F_ = rules.macro_flags(tu, 'CT_')
    k1_k2(run, tu, F_)
    k3(run, tu)
    k4(run, tu)
    k5(run, tu, F_)
    k7(run, tu)
    k8(run, tu, F_)
    run.assume('decided: which conversion every source kind goes through, that the value is stored by an unsigned narrowing conversion of '
               'the target size, and the non-strict behaviour of the number helper; not decided: CPython\'s PyLong_AsUnsignedLongLongMask / '
               'float.__int__ themselves, nor the character helpers (_my_PyUnicode_AsSingleChar32, _convert_to_char)')
    for rule, k in (('K1/source-kind-dispatch', 6), ('K1/every-listed-source-kind-has-a-branch', 5), ('K2', 8), ('K3', 10), ('K4', 5), ('K5', 4), ('K6', 4), ('K7', 4)):
        run.min_instances(rule, k)
