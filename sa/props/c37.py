"""C37 — closed dlopen libraries refuse further symbol access (DESIGN §3 C37).

H1 every dlsym(h, ..) is dominated by a test establishing h != NULL whose
   failing side sets an error and returns failure;
H2 every close of a handle stored in an object field is null-guarded and leaves
   NULL in that field (or the object is being deallocated);
H3 the function that NULLs a LibObject handle also clears the lib's cache dict,
   on every path, before it can report a dlclose failure;
H4 in-line mode: __cffi_close__ closes the backend lib and clears the instance
   dict; variable accessors go to the backend on every access.
"""
import ast

from ..cast import cx
from ..cast.cfg import cfg_of
from ..cast.loader import backend_tu
from ..cast import rules
from ..pyast.index import cffi_mod, u, calls


def _guard_summaries(tu, run):
    """functions G(obj) that return >= 0 only when obj->field != NULL (and set an error otherwise)"""
    out = {}
    for name in tu.functions:
        if not tu.has_func(name):
            continue
        fn = tu.func(name)
        ps = [p for p in cx.kids(fn) if p.get('kind') == 'ParmVarDecl']
        if len(ps) != 1 or fn.get('type', '').split('(')[0].strip() != 'int':
            continue
        g = cfg_of(tu, name)
        rets = [n for n in g.nodes if n.kind == 'return' and n.id in g.live()]
        if not rets or len(g.nodes) > 30:
            continue
        fields = None
        ok = True
        for r in rets:
            v = rules.return_value(r)
            facts = g.fact_texts(r.id)
            if v == '0':
                fs = set()
                for f in facts:
                    for pat in ('F:%s->' % ps[0]['name'],):
                        if f.startswith(pat) and f.endswith(' == 0'):
                            fs.add(f[len('F:'):-len(' == 0')])
                fields = fs if fields is None else fields & fs
            elif v == '-1':
                # the failing return must have set an error on every path to it
                setters = {n.id for n in g.nodes if n.ast is not None and
                           any(cx.callee_name(c) in rules.ERR_SETTERS for c in cx.calls_in(n.ast))}
                if not g.must_precede(r.id, setters):
                    ok = False
            else:
                ok = False
        if ok and fields:
            out[name] = (ps[0]['name'], fields)
    return out


def _h1(run, tu):
    sums = _guard_summaries(tu, run)
    run.saw('null-guard summaries', ['%s: >=0 implies %s != NULL' % (k, ', '.join(sorted(v[1]))) for k, v in sums.items()])
    n = 0
    for fname in sorted(tu.functions):
        if not tu.has_func(fname):
            continue
        fn = tu.func(fname)
        sites = cx.calls_in(fn, 'dlsym')
        if not sites:
            continue
        g = cfg_of(tu, fname)
        for call in sites:
            n += 1
            h = cx.render(cx.call_args(call)[0])
            node = g.node_of(call)
            facts = g.fact_texts(node.id)
            direct = rules.nonnull_facts(h) & facts
            via = None
            for gname, (pname, fields) in sums.items():
                for fld in fields:
                    # field text is 'param->f'; instantiate with the actual argument
                    suffix = fld[len(pname):]
                    if h.endswith(suffix):
                        obj = h[:-len(suffix)]
                        if {'F:%s(%s) < 0' % (gname, obj), 'T:%s(%s) == 0' % (gname, obj),
                                'T:%s(%s) >= 0' % (gname, obj), 'F:%s(%s)' % (gname, obj),
                                'F:%s(%s) != 0' % (gname, obj)} & facts:
                            via = gname
            ok = bool(direct) or via is not None
            detail = 'guard: %s' % (sorted(direct)[0] if direct else ('via %s' % via if via else 'none'))
            path = None
            if not ok:
                p = g.witness_path(g.entry.id, node.id)
                path = g.describe_path(p or [])
                detail = 'no dominating test that %s is non-NULL; facts at the call: %s' % (h, sorted(facts))
            run.ob('H1/guard-before-dlsym', fname, 'dlsym(%s, ...)' % h, ok, tu.where(call), detail, path=path)
            # failing side of a direct guard must set an error and return failure
            if direct:
                for cn, lab in g.dominating_facts(node.id):
                    if '%s:%s' % (lab, cx.render(cn.ast)) in direct:
                        other = [t for t, l in cn.succ if l != lab]
                        for t in other:
                            okp, wit = rules.error_exit_ok(g, t, include_start=True)
                            run.ob('H1/closed-branch-sets-error', fname, 'if (%s) -> error' % cx.render(cn.ast),
                                   okp, tu.where(cn.ast), 'path reaching exit without an error set' if not okp else None,
                                   path=wit)
    run.saw('dlsym call sites', ['%d' % n])
    return n


def _resolve_handle(fn, e):
    """(object text, field) if the expression is obj->field, directly or via a single-def local"""
    s = cx.strip(e, casts=True)
    if s.get('kind') == 'MemberExpr':
        return cx.render(cx.kids(s)[0]), s.get('name'), cx.render(s)
    if s.get('kind') == 'DeclRefExpr' and s['ref'].get('kind') == 'VarDecl':
        d = rules.single_def(fn, s['ref']['name'])
        if d is not None:
            ds = cx.strip(d, casts=True)
            if ds.get('kind') == 'MemberExpr':
                return cx.render(cx.kids(ds)[0]), ds.get('name'), cx.render(ds)
    return None


def _closers(tu):
    """dlclose plus wrappers passing a parameter straight to dlclose"""
    closers = {'dlclose': 0}
    for name in tu.functions:
        if not tu.has_func(name):
            continue
        fn = tu.func(name)
        ps = [p['name'] for p in cx.kids(fn) if p.get('kind') == 'ParmVarDecl']
        for c in cx.calls_in(fn, 'dlclose'):
            a = cx.strip(cx.call_args(c)[0], casts=True)
            if a.get('kind') == 'DeclRefExpr' and a['ref']['name'] in ps:
                closers[name] = ps.index(a['ref']['name'])
    return closers


DEALLOC_FREE = {'PyObject_Free', 'PyObject_GC_Del', 'PyObject_Del', 'PyObject_Free'}


def _h2_h3(run, tu):
    closers = _closers(tu)
    run.saw('close primitives', sorted(closers))
    nsites = 0
    for fname in sorted(tu.functions):
        if not tu.has_func(fname):
            continue
        fn = tu.func(fname)
        g = None
        for cname, argi in closers.items():
            for call in cx.calls_in(fn, cname):
                args = cx.call_args(call)
                if argi >= len(args):
                    continue
                nsites += 1
                g = g or cfg_of(tu, fname)
                node = g.node_of(call)
                h = cx.render(args[argi])
                # null guard: either a dominating fact here, or the wrapper guards itself (checked at its own site)
                facts = g.fact_texts(node.id)
                if cname == 'dlclose':
                    ps = [p['name'] for p in cx.kids(fn) if p.get('kind') == 'ParmVarDecl']
                    freshly_opened = False
                    d = rules.single_def(fn, h)
                    if d is not None and cx.calls_in(d) and cx.callee_name(cx.calls_in(d)[0]) in ('dlopen', 'b_do_dlopen'):
                        freshly_opened = True
                    ok = bool(rules.nonnull_facts(h) & facts)
                    run.ob('H2/close-is-null-guarded', fname, 'dlclose(%s)' % h, ok, tu.where(call),
                           'facts: %s' % sorted(facts) if not ok else None)
                    if freshly_opened:
                        continue
                res = _resolve_handle(fn, args[argi])
                if res is None:
                    continue
                obj, field, full = res
                frees = [n.id for n in g.nodes if n.ast is not None and
                         any(cx.callee_name(c) in DEALLOC_FREE and cx.render(cx.call_args(c)[0]) == obj
                             for c in cx.calls_in(n.ast))]
                stores = [n.id for n in g.nodes if n.ast is not None and
                          any(cx.lhs_text(l) == full and cx.is_null(r) and op == '='
                              for l, r, op, _x in cx.assignments(n.ast))]
                if frees and g.must_follow(node.id, frees):
                    run.ob('H2/handle-nulled-after-close', fname, '%s(%s): object freed' % (cname, h), True,
                           tu.where(call), 'the owning object is deallocated on every path after the close')
                    continue
                ok = bool(stores) and (g.must_follow(node.id, stores) or g.must_precede(node.id, stores))
                path = None
                if not ok:
                    p = g.witness_path(node.id, g.exit.id, avoid=stores, include_start=False)
                    path = g.describe_path(p or [])
                run.ob('H2/handle-nulled-after-close', fname, '%s(%s) closes %s' % (cname, h, full), ok,
                       tu.where(call), 'no `%s = NULL` on every path through the close' % full if not ok else None,
                       path=path)
                # H3: for the lib object of out-of-line mode the attribute cache must be dropped too
                if field == 'l_libhandle':
                    clears = [n.id for n in g.nodes if n.ast is not None and
                              any(cx.render(cx.call_args(c)[0]) == '%s->l_dict' % obj
                                  for c in cx.calls_in(n.ast, 'PyDict_Clear'))]
                    ok3 = bool(clears) and all(g.must_follow(s, clears) or g.must_precede(s, clears) for s in stores) \
                        and g.must_precede(node.id, clears)
                    run.ob('H3/cache-cleared-before-close-result', fname,
                           'PyDict_Clear(%s->l_dict) with %s = NULL' % (obj, full), ok3, tu.where(call),
                           None if ok3 else 'the cached addresses/functions survive the close on some path')
    run.saw('close call sites', ['%d' % nsites])
    # every store of NULL into l_libhandle anywhere must come with the clear (who-may-write)
    for fname in sorted(tu.functions):
        if not tu.has_func(fname):
            continue
        fn = tu.func(fname)
        for l, r, op, x in cx.assignments(fn):
            t = cx.lhs_text(l)
            if t.endswith('->l_libhandle') and cx.is_null(r):
                g = cfg_of(tu, fname)
                obj = t[:-len('->l_libhandle')]
                node = g.node_of(x)
                clears = [n.id for n in g.nodes if n.ast is not None and
                          any(cx.render(cx.call_args(c)[0]) == '%s->l_dict' % obj
                              for c in cx.calls_in(n.ast, 'PyDict_Clear'))]
                ok = bool(clears) and (g.must_follow(node.id, clears) or g.must_precede(node.id, clears))
                run.ob('H3/null-store-implies-clear', fname, '%s = NULL' % t, ok, tu.where(x),
                       None if ok else 'a path through the store skips PyDict_Clear')


def _h5(run, tu):
    """the explicit close entry points leave the library object closed on *every* path to a successful return:
    the handle field is NULL (stored, or already tested NULL) -- that field is all the access guards look at"""
    from ..cast.cfg import cfg_of
    for fname, field in (('dl_close_lib', 'dlobj->dl_handle'), ('ffi_dlclose', 'lib->l_libhandle')):
        g = cfg_of(tu, fname)
        fn = tu.func(fname)
        stores = [n.id for n in g.nodes if n.ast is not None and any(cx.lhs_text(l) == field and cx.is_null(r) for l, r, op, _x in cx.assignments(n.ast))]
        # aliases of the field tested for NULL: `libhandle = lib->l_libhandle; if (libhandle != NULL)`
        names = {field}
        for l, r, op, _x in cx.assignments(fn):
            if cx.render(r) == field and op in ('=', 'init'):
                names.add(cx.lhs_text(l))
        already = g.edges_of(lambda cn, l: any((cx.render(cn.ast).replace(' ', ''), l) in ((n_ + '!=0', 'F'), (n_ + '==0', 'T'), (n_, 'F'), ('!' + n_, 'T')) for n_ in {x.replace(' ', '') for x in names}))
        rets = [n for n in g.nodes if n.kind == 'return' and not cx.is_null(cx.kids(n.ast)[0]) and rules.return_value(n) not in ('0', 'NULL')]
        run.need(bool(rets), '%s: no successful return found' % fname)
        ok = True
        for r in rets:
            if r.id in g.reach([g.entry.id], avoid=set(stores), avoid_edges=already):
                ok = False
        run.ob('H5/explicit-close-always-leaves-the-handle-null', fname, '%s = NULL (or already NULL) before every successful return' % field, ok, tu.where(fn),
               'a path returns success with the handle still set: later reads, writes and symbol fetches on the "closed" library keep working')


def _h4(run):
    m = cffi_mod('api')
    close = m.find('_make_ffi_library.FFILibrary.__cffi_close__')
    body_calls = [u(c.func) for c in calls(close)]
    run.ob('H4/close-calls-backend', '_make_ffi_library.FFILibrary.__cffi_close__', 'backendlib.close_lib()',
           'backendlib.close_lib' in body_calls, m.where(close), 'calls: %s' % body_calls)
    run.ob('H4/close-clears-instance-dict', '_make_ffi_library.FFILibrary.__cffi_close__', 'self.__dict__.clear()',
           'self.__dict__.clear' in body_calls, m.where(close), 'calls: %s' % body_calls)
    # backendlib must be the object produced by load_library (not rebound)
    mk = m.find('_make_ffi_library')
    binds = [n for n in ast.walk(mk) if isinstance(n, ast.Assign) and any(isinstance(t, ast.Name) and t.id == 'backendlib' for t in n.targets)]
    run.ob('H4/backendlib-single-binding', '_make_ffi_library', 'backendlib = _load_backend_lib(...)',
           len(binds) == 1 and u(binds[0].value).startswith('_load_backend_lib('), m.where(mk),
           'bindings: %s' % [u(b) for b in binds])
    av = m.find('_make_ffi_library.accessor_variable')
    # the property getter/setter must call the backend on each access with the C name; no address is cached
    lambdas = [n for n in ast.walk(av) if isinstance(n, ast.Lambda)]
    texts = [u(l.body) for l in lambdas]
    aliases = {}
    for n in ast.walk(av):
        if isinstance(n, ast.Assign) and len(n.targets) == 1 and isinstance(n.targets[0], ast.Name):
            aliases[n.targets[0].id] = u(n.value)
    def resolves(t, meth):
        fn = t.split('(')[0]
        return aliases.get(fn, fn) == 'backendlib.%s' % meth
    ok_r = any(resolves(t, 'read_variable') for t in texts)
    ok_w = any(resolves(t, 'write_variable') for t in texts)
    run.ob('H4/variable-read-hits-backend', '_make_ffi_library.accessor_variable', 'property getter',
           ok_r and len(lambdas) == 2, m.where(av), 'lambdas: %s aliases: %s' % (texts, aliases))
    run.ob('H4/variable-write-hits-backend', '_make_ffi_library.accessor_variable', 'property setter',
           ok_w and len(lambdas) == 2, m.where(av), 'lambdas: %s' % texts)
    # FFI.dlclose routes to __cffi_close__
    dc = m.find('FFI.dlclose')
    cs = [u(c.func) for c in calls(dc)]
    run.ob('H4/dlclose-routes-to-close', 'FFI.dlclose', "type(lib).__cffi_close__(lib)",
           any('__cffi_close__' in c for c in cs), m.where(dc), 'calls: %s' % cs)
    # functions fetched for the first time go through load_function on the backend (H1-guarded in C)
    af = m.find('_make_ffi_library.accessor_function')
    cs = [u(c.func) for c in calls(af)]
    run.ob('H4/function-fetch-hits-backend', '_make_ffi_library.accessor_function', 'backendlib.load_function',
           'backendlib.load_function' in cs, m.where(af), 'calls: %s' % cs)


def check(run):
    run.explanation = (
        'Guard-dominance and typestate rules over the clang AST/CFG of the whole C backend TU and the ast of '
        'cffi/api.py: every dlsym in the TU is dominated by a non-NULL test of its handle (directly or through a '
        'verified guard function) whose failing side sets an error; every close of a handle stored in an object '
        'is null-guarded and leaves NULL in the field (or the object is freed); NULLing a lib handle implies '
        'clearing its attribute cache; the in-line FFILibrary closes the backend lib, clears its dict and '
        'reads/writes variables through the backend on every access.')
    tu = backend_tu()
    n = _h1(run, tu)
    run.need(n >= 4, 'expected at least 4 dlsym call sites in the TU, found %d' % n)
    _h2_h3(run, tu)
    _h4(run)
    _h5(run, tu)
    run.min_instances('H5', 2)
    run.min_instances('H1/guard-before-dlsym', 4)
    run.min_instances('H2/handle-nulled-after-close', 3)
    run.min_instances('H2/close-is-null-guarded', 3)
    run.min_instances('H3/null-store-implies-clear', 1)
    run.min_instances('H4', 6)
    run.assume('dlsym/dlclose are reached only through direct calls (no function pointers to them in the TU)')
    run.assume('struct fields are not modified by callees between a guard and the guarded use unless the callee is passed their address')
