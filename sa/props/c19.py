"""C19 — buffers, from_buffer and memmove match a byte-array model (DESIGN §3 C19):
bounds, clamp, pairing, overlap and field-initialisation clauses.

B1 mb_item / mb_ass_item: the range test dominates the dereference and raises IndexError;
B2 mb_slice / mb_ass_slice: for every ordering of (left, right, 0, size) constant
   propagation through the clamps gives 0 <= left <= right <= size at the copy; the
   length mismatch test dominates memcpy; the source view is released on all paths;
B3 negative indices are normalised with += size in both subscript functions;
B4 b_memmove copies with memmove and releases both views on all paths;
B5 direct_from_buffer: fixed arrays reject short buffers with ValueError, open arrays get
   len // itemsize items, the view is released on error exits or stored in the cdata;
B6 every Py_buffer field a consumer of _fetch_as_buffer reads is written on every
   successful path of that producer.
"""
from .. import AnalysisError
from ..cast import cx, rules, absint
from ..cast.absint import Con
from ..cast.cfg import cfg_of, stmt_text
from ..cast.loader import backend_tu


def b1(run, tu):
    for fn, deref in (('mb_item', 'self->mb_data + idx'), ('mb_ass_item', 'self->mb_data[idx]')):
        g = cfg_of(tu, fn)
        users = [n for n in g.nodes if n.ast is not None and deref in cx.subexprs_text(n.ast)]
        run.need(users, '%s: dereference %s not found' % (fn, deref))
        for n in users:
            for cond, lab in (('idx < 0', 'F'), ('idx >= self->mb_size', 'F')):
                pas = g.edges_of(lambda cn, l, cond=cond, lab=lab: cn.kind == 'cond' and cx.render(cn.ast) == cond and l == lab)
                ok = bool(pas) and g.must_pass_edges(n.id, pas)
                run.ob('B1/range-test-dominates-access', fn, '%s needs !(%s)' % (deref, cond), ok, tu.where(n.ast))
        for cn in g.nodes:
            if cn.kind == 'cond' and cx.render(cn.ast) in ('idx < 0', 'idx >= self->mb_size'):
                for t, l in cn.succ:
                    if l == 'T':
                        cls = {rules.exc_class_of(c) for m in g.reach([t]) if g.nodes[m].ast is not None for c in cx.calls_in(g.nodes[m].ast, ('PyErr_SetString', 'PyErr_Format'))
                               if m == t or g.nodes[m].kind == 'stmt'}
                        first = g.nodes[t]
                        c = cx.calls_in(first.ast, ('PyErr_SetString', 'PyErr_Format')) if first.ast is not None else []
                        run.ob('B1/out-of-range-raises-IndexError', fn, 'if (%s)' % cx.render(cn.ast), bool(c) and rules.exc_class_of(c[0]) == 'PyExc_IndexError', tu.where(cn.ast))


def clamp_grid():
    for size in (0, 1, 4):
        for left in range(-2, 8):
            for right in range(-2, 8):
                yield left, right, size


def b2(run, tu):
    for fn, user in (('mb_slice', 'PyBytes_FromStringAndSize'), ('mb_ass_slice', 'memcpy')):
        g = cfg_of(tu, fn)
        nodes = [n for n in g.nodes if n.ast is not None and cx.calls_in(n.ast, user)]
        run.need(len(nodes) == 1, '%s: %s not found once' % (fn, user))
        node = nodes[0]
        call = cx.calls_in(node.ast, user)[0]
        args = [cx.render(a) for a in cx.call_args(call)]
        if fn == 'mb_slice':
            run.ob('B2/copy-uses-clamped-bounds', fn, '%s(%s)' % (user, ', '.join(args)), args == ['self->mb_data + left', 'right - left'], tu.where(call))
        else:
            cnt = rules.single_def(tu.func(fn), 'count')
            run.ob('B2/copy-uses-clamped-bounds', fn, '%s(%s)' % (user, ', '.join(args)),
                   args == ['self->mb_data + left', 'src_view.buf', 'count'] and cnt is not None and cx.render(cnt) == 'right - left', tu.where(call))
        bad = []
        npts = 0
        for left, right, size in clamp_grid():
            env = {'left': Con(left, 64, True), 'right': Con(right, 64, True), 'self->mb_size': Con(size, 64, True)}
            hooks = {'_fetch_as_buffer': lambda a, n: Con(0, 32, True)}
            it = absint.Interp(g, env, hooks, const_vars={'self->mb_size'}).run()
            st = it.in_state.get(node.id)
            npts += 1
            if st is None:
                continue
            l2, r2 = st.get('left'), st.get('right')
            if not (isinstance(l2, Con) and isinstance(r2, Con)):
                from .. import AnalysisError
                raise AnalysisError('C19: clamps of %s not followed by constant propagation at (%d,%d,%d)' % (fn, left, right, size))
            # a zero-length copy touches no memory whatever its address; otherwise the range must lie inside [0, size]
            if not (r2.v - l2.v == 0 or 0 <= l2.v <= r2.v <= size):
                bad.append({'left': left, 'right': right, 'size': size, 'after': (l2.v, r2.v)})
            if r2.v - l2.v < 0:
                bad.append({'left': left, 'right': right, 'size': size, 'after': (l2.v, r2.v), 'why': 'negative length'})
            # the clamps must not change an already valid slice
            if 0 <= left <= right <= size and (l2.v, r2.v) != (left, right):
                bad.append({'left': left, 'right': right, 'size': size, 'after': (l2.v, r2.v), 'why': 'valid slice altered'})
        run.ob('B2/clamps-keep-the-copy-inside-the-buffer', fn, 'all orderings of (left, right, 0, size): %d points' % npts, not bad, tu.where(call),
               None if not bad else 'violated at %s' % bad[:4])
    # mb_ass_slice: length test dominates memcpy, release on all paths
    fn = 'mb_ass_slice'
    g = cfg_of(tu, fn)
    mc = [n for n in g.nodes if n.ast is not None and cx.calls_in(n.ast, 'memcpy')][0]
    pas = g.edges_of(lambda cn, l: cn.kind == 'cond' and ((cx.render(cn.ast) == 'count != src_view.len' and l == 'F') or (cx.render(cn.ast) == 'count == src_view.len' and l == 'T')))
    run.ob('B2/length-mismatch-test-dominates-copy', fn, 'if (count != src_view.len) -> ValueError', bool(pas) and g.must_pass_edges(mc.id, pas), tu.where(mc.ast))
    for cn in g.nodes:
        if cn.kind == 'cond' and cx.render(cn.ast) == 'count != src_view.len':
            for t, l in cn.succ:
                if l == 'T':
                    cls = {rules.exc_class_of(c) for m in g.reach([t]) if g.nodes[m].ast is not None for c in cx.calls_in(g.nodes[m].ast, ('PyErr_SetString', 'PyErr_Format'))}
                    run.ob('B2/length-mismatch-raises-ValueError', fn, 'if (count != src_view.len)', cls == {'PyExc_ValueError'} and mc.id not in g.reach([t]), tu.where(cn.ast))
    release_pairing(run, tu, fn, '_fetch_as_buffer', 'src_view', 'B2/view-released-on-all-paths')


def release_pairing(run, tu, fn, acquire, var, rule):
    g = cfg_of(tu, fn)
    acq = [n for n in g.nodes if n.ast is not None and any(cx.render(cx.call_args(c)[1]) == '&%s' % var for c in cx.calls_in(n.ast, acquire))]
    run.need(len(acq) == 1, '%s: acquire of %s not found' % (fn, var))
    a = acq[0]
    rel = [n.id for n in g.nodes if n.ast is not None and any(cx.render(cx.call_args(c)[0]) == '&%s' % var for c in cx.calls_in(n.ast, 'PyBuffer_Release'))]
    # success side of the acquire
    succ = [t for t, l in a.succ if (a.kind == 'cond' and l == 'F') or a.kind != 'cond']
    ok = bool(rel) and all(g.exit.id not in g.reach([t], avoid=rel) for t in succ)
    path = None
    if not ok and succ:
        path = g.describe_path(g.witness_path(succ[0], g.exit.id, avoid=rel) or [])
    run.ob(rule, fn, 'PyBuffer_Release(&%s) after %s succeeded' % (var, acquire), ok, tu.where(a.ast), path=path)
    # never released on the failure side (the view is not valid there)
    fail = [t for t, l in a.succ if a.kind == 'cond' and l == 'T']
    okf = all(not (set(rel) & g.reach([t])) for t in fail)
    run.ob(rule.replace('released-on-all-paths', 'not-released-when-acquire-failed'), fn, 'failure branch of %s(&%s)' % (acquire, var), okf, tu.where(a.ast))
    # released at most once per path: no release node reaches another release node
    once = all(not (set(rel) - {r}) & g.reach([r], include_start=False) for r in rel)
    run.ob(rule.replace('released-on-all-paths', 'released-once'), fn, 'single release per path of %s' % var, once, tu.where(a.ast))


def b3(run, tu):
    for fn, callee in (('mb_subscript', 'mb_item'), ('mb_ass_subscript', 'mb_ass_item')):
        g = cfg_of(tu, fn)
        calls = [n for n in g.nodes if n.ast is not None and cx.calls_in(n.ast, callee)]
        run.need(len(calls) == 1, '%s: call of %s not found' % (fn, callee))
        norm = [n for n in g.nodes if n.ast is not None and n.kind == 'stmt' and stmt_text(n.ast) in ('i += self->mb_size', 'i = i + self->mb_size')]
        ok = len(norm) == 1 and 'T:i < 0' in g.fact_texts(norm[0].id) and calls[0].id in g.reach([norm[0].id])
        # and the non-negative path does not pass through it
        pas = g.edges_of(lambda cn, l: cn.kind == 'cond' and cx.render(cn.ast) == 'i < 0' and l == 'F')
        ok = ok and bool(pas) and norm[0].id not in g.reach([t for _s, t, _l in pas])
        run.ob('B3/negative-index-normalised-once', fn, 'if (i < 0) i += self->mb_size; %s(self, i, ...)' % callee, ok, tu.where(calls[0].ast))
        conv = [c for c in cx.calls_in(tu.func(fn), 'PyNumber_AsSsize_t')]
        run.ob('B3/index-overflow-is-IndexError', fn, 'PyNumber_AsSsize_t(item, PyExc_IndexError)', len(conv) == 1 and cx.render(cx.call_args(conv[0])[1]) == 'PyExc_IndexError', tu.where(tu.func(fn)))
        # slices: only step 1, handed to the clamping helper
        sl = 'mb_slice' if fn == 'mb_subscript' else 'mb_ass_slice'
        sc = [n for n in g.nodes if n.ast is not None and cx.calls_in(n.ast, sl)]
        oks = len(sc) == 1 and 'T:step == 1' in g.fact_texts(sc[0].id)
        a = [cx.render(x) for x in cx.call_args(cx.calls_in(sc[0].ast, sl)[0])][:3] if sc else []
        run.ob('B3/slices-need-step-1-and-use-resolved-bounds', fn, '%s(%s)' % (sl, ', '.join(a)), oks and a == ['self', 'start', 'stop'], tu.where(sc[0].ast) if sc else None)


def b4(run, tu):
    fn = 'b_memmove'
    f = tu.func(fn)
    mm = cx.calls_in(f, 'memmove')
    mc = cx.calls_in(f, 'memcpy')
    ok = len(mm) == 1 and not mc and [cx.render(a) for a in cx.call_args(mm[0])] == ['dest_view.buf', 'src_view.buf', 'n']
    run.ob('B4/overlap-safe-copy-primitive', fn, 'memmove(dest_view.buf, src_view.buf, n)', ok, tu.where(mm[0]) if mm else tu.where(f))
    g = cfg_of(tu, fn)
    for var in ('src_view', 'dest_view'):
        release_pairing(run, tu, fn, '_fetch_as_buffer', var, 'B4/view-released-on-all-paths')
    neg = [n for n in g.nodes if n.kind == 'cond' and cx.render(n.ast) == 'n < 0']
    node = g.node_of(mm[0]) if mm else None
    pas = g.edges_of(lambda cn, l: cn.kind == 'cond' and cx.render(cn.ast) == 'n < 0' and l == 'F')
    run.ob('B4/negative-size-rejected', fn, 'if (n < 0) -> ValueError', bool(pas) and node is not None and g.must_pass_edges(node.id, pas), tu.where(f))
    dst = [c for c in cx.calls_in(f, '_fetch_as_buffer') if cx.render(cx.call_args(c)[1]) == '&dest_view']
    run.ob('B4/destination-must-be-writable', fn, '_fetch_as_buffer(dest_obj, &dest_view, 1)', len(dst) == 1 and cx.render(cx.call_args(dst[0])[2]) == '1', tu.where(f))


def b5(run, tu):
    fn = 'direct_from_buffer'
    g = cfg_of(tu, fn)
    f = tu.func(fn)
    defs = {}
    for l, r, op, x in cx.assignments(f):
        defs.setdefault(cx.lhs_text(l), []).append((cx.render(r), x))
    ml = [d for d in defs.get('minimumlength', []) if d[0] != '0']
    ok = len(ml) == 1 and ml[0][0] == 'ct->ct_size' and 'T:ct->ct_length >= 0' in g.fact_texts(g.node_of(ml[0][1]).id)
    run.ob('B5/fixed-array-needs-its-full-size', fn, 'minimumlength = ct->ct_size (fixed-length arrays)', ok, tu.where(ml[0][1]) if ml else tu.where(f))
    creat = [n for n in g.nodes if n.ast is not None and cx.calls_in(n.ast, ('PyObject_GC_New', '_PyObject_GC_New'))]
    run.need(len(creat) == 1, '%s: creation of the cdata not found' % fn)
    pas = g.edges_of(lambda cn, l: cn.kind == 'cond' and ((cx.render(cn.ast) == 'view->len < minimumlength' and l == 'F') or (cx.render(cn.ast) == 'view->len >= minimumlength' and l == 'T')))
    run.ob('B5/short-buffer-test-dominates-creation', fn, 'if (view->len < minimumlength) -> ValueError', bool(pas) and g.must_pass_edges(creat[0].id, pas), tu.where(creat[0].ast))
    for cn in g.nodes:
        if cn.kind == 'cond' and cx.render(cn.ast) == 'view->len < minimumlength':
            for t, l in cn.succ:
                if l == 'T':
                    first = g.nodes[t]
                    c = cx.calls_in(first.ast, ('PyErr_Format', 'PyErr_SetString')) if first.ast is not None else []
                    run.ob('B5/short-buffer-raises-ValueError', fn, 'if (view->len < minimumlength)', bool(c) and rules.exc_class_of(c[0]) == 'PyExc_ValueError', tu.where(cn.ast))
    al = [d for d in defs.get('arraylength', []) if '/' in d[0]]
    ok = len(al) == 1 and al[0][0] == 'view->len / ct->ct_itemdescr->ct_size' and 'T:ct->ct_itemdescr->ct_size > 0' in g.fact_texts(g.node_of(al[0][1]).id)
    run.ob('B5/open-array-gets-len-div-itemsize-items', fn, 'arraylength = view->len / itemsize', ok, tu.where(al[0][1]) if al else tu.where(f))
    # any other definition of the item count from the byte count is only right for one-byte items
    for txt, x in defs.get('arraylength', []):
        if txt.replace(' ', '') in ('view->len',):
            facts = g.fact_texts(g.node_of(x).id)
            one = any(f.replace(' ', '') in ('T:ct->ct_itemdescr->ct_size==1', 'F:ct->ct_itemdescr->ct_size!=1') for f in facts)
            if any(f.replace(' ', '') == 'T:ct->ct_flags&%d' % rules.macro_flags(tu, 'CT_')['CT_POINTER'] for f in facts):
                continue      # pointer ctypes: the value is a byte count kept for the record, no item count exists
            run.ob('B5/byte-count-used-as-item-count-only-for-one-byte-items', fn, 'arraylength = view->len', one, tu.where(x),
                   'guarded by %s: for wider items the array would claim len(buffer) items instead of len(buffer) // itemsize' % sorted(f for f in facts if 'itemdescr' in f))
    lens = [d[0] for d in defs.get('((CDataObject_frombuf *)cd)->length', []) + defs.get('cd->length', [])]
    stored = [cx.render(r) for l, r, op, x in cx.assignments(f) if cx.lhs_text(l).endswith('->length')]
    run.ob('B5/recorded-length-is-the-computed-one', fn, '->length = arraylength', stored == ['arraylength'], tu.where(f), str(stored))
    data = [cx.render(r) for l, r, op, x in cx.assignments(f) if cx.lhs_text(l) == 'cd->c_data']
    run.ob('B5/cdata-aliases-the-buffer', fn, 'cd->c_data = view->buf', data == ['view->buf'], tu.where(f), str(data))
    # exactly one of {release, transfer}
    acq = [n for n in g.nodes if n.kind == 'cond' and cx.calls_in(n.ast, '_my_PyObject_GetContiguousBuffer')]
    run.need(len(acq) == 1, '%s: acquire not found' % fn)
    rel = [n.id for n in g.nodes if n.ast is not None and any(cx.render(cx.call_args(c)[0]) == 'view' for c in cx.calls_in(n.ast, 'PyBuffer_Release'))]
    xfer = [n.id for n in g.nodes if n.ast is not None and any(cx.lhs_text(l).endswith('->bufferview') and cx.render(r) == 'view' for l, r, op, _x in cx.assignments(n.ast))]
    succ = [t for t, l in acq[0].succ if l == 'F']
    ok = bool(rel) and bool(xfer) and all(g.exit.id not in g.reach([t], avoid=rel + xfer) for t in succ)
    both = any(set(rel) & g.reach([x]) for x in xfer) or any(set(xfer) & g.reach([r]) for r in rel)
    run.ob('B5/view-released-or-transferred-exactly-once', fn, 'PyBuffer_Release(view) on error exits, ->bufferview = view on success', ok and not both, tu.where(acq[0].ast))
    fr = [n.id for n in g.nodes if n.ast is not None and any(cx.render(cx.call_args(c)[0]) == 'view' for c in cx.calls_in(n.ast, 'PyObject_Free'))]
    okf = bool(fr) and all(g.exit.id not in g.reach([t], avoid=fr + xfer) for t, l in acq[0].succ)
    run.ob('B5/view-struct-freed-or-owned', fn, 'PyObject_Free(view) on every failing exit', okf, tu.where(acq[0].ast))
    # contiguous-buffer helper: what it hands out is one run of view->len bytes
    h = cfg_of(tu, '_my_PyObject_GetContiguousBuffer')
    hf = tu.func('_my_PyObject_GetContiguousBuffer')
    gb = [c for c in cx.calls_in(hf) if cx.callee_name(c) == 'PyObject_GetBuffer']
    run.need(len(gb) == 1, '_my_PyObject_GetContiguousBuffer: expected one PyObject_GetBuffer')
    flagarg = cx.strip(cx.call_args(gb[0])[2], casts=True)
    arms = [flagarg]
    if flagarg.get('kind') == 'ConditionalOperator':
        arms = cx.kids(flagarg)[1:3]
    it = absint.Interp(h, {})
    vals = [it.ev(a, {}) for a in arms]
    run.need(all(isinstance(v, Con) for v in vals), '_my_PyObject_GetContiguousBuffer: buffer request flags are not constants')
    PyBUF_ND, PyBUF_STRIDES_BIT, PyBUF_INDIRECT_BIT = 0x0008, 0x0010, 0x0100
    simple = all((v.v & (PyBUF_STRIDES_BIT | PyBUF_INDIRECT_BIT)) == 0 for v in vals)
    succ_rets = [n for n in h.nodes if n.kind == 'return' and rules.return_value(n) == '0']
    contig = h.edges_of(lambda cn, l: (cx.render(cn.ast).replace(' ', '').startswith('!PyBuffer_IsContiguous(view') and l == 'F') or
                        (cx.render(cn.ast).replace(' ', '').startswith('PyBuffer_IsContiguous(view') and l == 'T'))
    tested = bool(contig) and bool(succ_rets) and all(h.must_pass_edges(r.id, contig) for r in succ_rets)
    run.ob('B5/only-contiguous-views-are-accepted', '_my_PyObject_GetContiguousBuffer',
           'PyObject_GetBuffer(x, view, %s) then PyBuffer_IsContiguous' % cx.render(flagarg), simple or tested, tu.where(gb[0]),
           'request flags %s %s strides; the contiguity test %s every successful return' % (
               [hex(v.v) for v in vals], 'do not ask for' if simple else 'ask for', 'dominates' if tested else 'does NOT dominate'))
    for cn in h.nodes:
        if cn.kind == 'cond' and 'PyBuffer_IsContiguous' in cx.render(cn.ast):
            for t, l in cn.succ:
                if l == 'F':
                    relh = [n.id for n in h.nodes if n.ast is not None and cx.calls_in(n.ast, 'PyBuffer_Release')]
                    run.ob('B5/non-contiguous-view-released', '_my_PyObject_GetContiguousBuffer', 'PyBuffer_Release(view) before failing',
                           bool(relh) and h.exit.id not in h.reach([t], avoid=relh), tu.where(cn.ast))


def b6(run, tu):
    prod = '_fetch_as_buffer'
    g = cfg_of(tu, prod)
    f = tu.func(prod)
    # fields written on each successful path
    written_sets = []
    for r in [n for n in g.nodes if n.kind == 'return' and n.id in g.live()]:
        v = rules.return_value(r)
        if v == '-1':
            continue
        if cx.calls_in(r.ast):
            callee = cx.callee_name(cx.calls_in(r.ast)[0])
            written_sets.append((stmt_text(r.ast), 'ALL' if callee == '_my_PyObject_GetContiguousBuffer' else set()))
            continue
        ws = set()
        for n in g.nodes:
            if n.ast is None or not g.must_precede(r.id, [n.id]):
                continue
            for l, rr, op, _x in cx.assignments(n.ast):
                t = cx.lhs_text(l)
                if t.startswith('view->'):
                    ws.add(t[len('view->'):])
        written_sets.append((stmt_text(r.ast) + ' [cdata path]', ws))
    run.need(len(written_sets) >= 2, '%s: success paths not recognised' % prod)
    definitely = None
    for _t, ws in written_sets:
        if ws == 'ALL':
            continue
        definitely = ws if definitely is None else definitely & ws
    run.saw('Py_buffer fields written on every successful path of _fetch_as_buffer', sorted(definitely or []))
    # the delegate fills everything through PyObject_GetBuffer
    h = tu.func('_my_PyObject_GetContiguousBuffer')
    run.ob('B6/buffer-path-fills-the-whole-view', '_my_PyObject_GetContiguousBuffer', 'PyObject_GetBuffer(x, view, ...)',
           any(cx.render(cx.call_args(c)[1]) == 'view' for c in cx.calls_in(h, 'PyObject_GetBuffer')), tu.where(h))
    RELEASE_READS = {'obj'}       # PyBuffer_Release(&v) looks at v.obj (CPython: `if (obj == NULL) return;`)
    n = 0
    for fn, call in rules.callers_of(tu, prod):
        arg = cx.render(cx.call_args(call)[1])
        if not arg.startswith('&'):
            continue
        var = arg[1:]
        fnode = tu.func(fn)
        reads = {}
        for x in cx.walk(fnode):
            if x.get('kind') == 'MemberExpr' and not x.get('isArrow') and cx.render(cx.kids(x)[0]) == var:
                reads.setdefault(x['name'], x)
        if any(cx.render(cx.call_args(c)[0]) == '&%s' % var for c in cx.calls_in(fnode, 'PyBuffer_Release')):
            reads.setdefault('obj', call)
        for field, node in sorted(reads.items()):
            n += 1
            ok = field in (definitely or set())
            run.ob('B6/consumer-reads-only-initialised-fields', fn, '%s.%s after %s(..., &%s, ...)' % (var, field, prod, var), ok, tu.where(node),
                   None if ok else 'the cdata path of %s writes only %s; %s.%s is read uninitialised when the source is a cdata' % (
                       prod, sorted(definitely or []), var, field))
    run.need(n >= 5, 'consumer field reads found: %d' % n)


def b7(run, tu):
    """a cdata source reports its size in BYTES (the slice-assignment length test and memmove compare it with byte counts): decided by
    constant propagation through _fetch_as_buffer for a fixed array, an open array and a pointer"""
    from ..cast import absint
    from ..cast.absint import Con
    prod = '_fetch_as_buffer'
    g = cfg_of(tu, prod)
    F = rules.macro_flags(tu, 'CT_')
    rets = [n for n in g.nodes if n.kind == 'return' and rules.return_value(n) == '0']
    run.need(len(rets) == 1, '%s: the successful return of the cdata path not found' % prod)
    for what, flags, ct_size, nitems, isz, want in (('int[3] (fixed length)', F['CT_ARRAY'], 12, 3, 4, 12), ('int[] holding 3 items (open length)', F['CT_ARRAY'], -1, 3, 4, 12),
                                                    ('char[] holding 5 items', F['CT_ARRAY'], -1, 5, 1, 5), ('double[2]', F['CT_ARRAY'], 16, 2, 8, 16),
                                                    ('int * (a pointer has no length)', F['CT_POINTER'], 8, None, 4, -1)):
        env = {'ct->ct_flags': Con(flags, 32, True), 'ct->ct_size': Con(ct_size, 64, True), 'ct->ct_itemdescr->ct_size': Con(isz, 64, True)}
        hooks = {'get_array_length': lambda a, e, n_=nitems: Con(n_ if n_ is not None else -1, 64, True)}
        it = absint.Interp(g, env, hooks, const_vars=set(env)).run()
        st = it.in_state.get(rets[0].id) or {}
        v = st.get('view->len')
        got = v.v if isinstance(v, Con) else None
        if got is None:
            written = any(cx.lhs_text(l) == 'view->len' for l, _r, _o, _x in cx.assignments(tu.func(prod)))
            if written:
                raise AnalysisError('%s: view->len not decided by constant propagation for %s' % (prod, what))
            got = 'nothing (the field is never written on this path)'
        run.ob('B7/cdata-source-length-is-in-bytes', prod, what, got == want, tu.where(rets[0].ast),
               'view->len becomes %s, the object holds %s bytes: buf[a:b] = <this cdata> compares it with the slice length in bytes' % (got, want if want >= 0 else 'an unknown number of'))


def b8(run, tu):
    """ffi.buffer(cdata, n) exposes exactly n bytes for every n >= 0 (0 included); without n, the size of the cdata"""
    fn = 'b_buffer_new'
    g = cfg_of(tu, fn)
    F = rules.macro_flags(tu, 'CT_')
    parse = [n for n in g.nodes if n.ast is not None and any('ParseTupleAndKeywords' in (cx.callee_name(c) or '') for c in cx.calls_in(n.ast))]
    run.need(len(parse) == 1 and parse[0].kind == 'cond', '%s: the argument parsing test not found' % fn)
    start = [t for t, l in parse[0].succ if g.nodes[t].kind != 'return']       # the branch that goes on (the other one returns NULL)
    run.need(len(start) == 1, '%s: argument parsing shape' % fn)
    for given, want in ((0, 0), (1, 1), (5, 5), (24, 24), (-1, 24)):
        got = []
        env = {'size': Con(given, 64, True), 'cd->c_type->ct_flags': Con(F['CT_ARRAY'], 32, True), 'cd->c_type->ct_itemdescr->ct_size': Con(4, 64, True)}
        hooks = {'_cdata_var_byte_size': lambda a, e: Con(24, 64, True), 'get_array_length': lambda a, e: Con(6, 64, True), 'cdataowning_size_bytes': lambda a, e: Con(24, 64, True),
                 'minibuffer_new': lambda a, e: got.append(a[1] if len(a) > 1 else None) or absint.TOP}
        it = absint.Interp(g, env, hooks, const_vars={'cd->c_type->ct_flags', 'cd->c_type->ct_itemdescr->ct_size'})
        it.run_from(start[0], env, set())
        vals = sorted({v.v if isinstance(v, Con) else None for v in got}, key=str)
        if not got or None in vals:
            raise AnalysisError('%s: the size handed to minibuffer_new is not decided for size=%d (%s)' % (fn, given, vals))
        run.ob('B8/buffer-has-the-requested-number-of-bytes', fn, 'ffi.buffer(<int[6]>, %s)' % (given if given >= 0 else 'no size'), vals == [want], tu.where(tu.func(fn)),
               'the buffer gets %s bytes, expected %d' % (vals, want))


def check(run):
    run.explanation = (
        'CFG dominance for the range tests of item access; constant propagation through the three clamps of the slice '
        'helpers over every ordering of (left, right, 0, size) -- the values are only compared, so a small grid covers '
        'all order types -- showing 0 <= left <= right <= size at the copy and that valid slices are unchanged; '
        'acquire/release pairing of Py_buffer views on all paths (released exactly once, never after a failed acquire, or '
        'transferred into the cdata); memmove as copy primitive; and definite-initialisation across producer and consumers: '
        'the set of Py_buffer fields written on every successful path of _fetch_as_buffer must contain every field its '
        'callers read.')
    tu = backend_tu()
    b1(run, tu)
    b2(run, tu)
    b3(run, tu)
    b4(run, tu)
    b5(run, tu)
    b6(run, tu)
    b7(run, tu)
    b8(run, tu)
    run.min_instances('B1', 6)
    run.min_instances('B2', 7)
    run.min_instances('B4', 6)
    run.min_instances('B5', 8)
    run.min_instances('B6', 5)
    run.min_instances('B7', 5)
    run.min_instances('B8', 5)
    run.assume('PyBuffer_Release reads view->obj and is a no-op when it is NULL (CPython); PyObject_GetBuffer fills every field on success')
    run.assume('byte-for-byte equality with a bytearray model is behavioural and not decided')
