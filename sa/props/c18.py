"""C18 — ffi.unpack equals element-wise reading (DESIGN §3 C18): fast-path/type agreement.

For every fast-path number k of b_unpack: the selector (flag branch,
`itemsize == sizeof(X)`) and the reader of `case k` (`*(Y *)src`, constructor)
name types of equal size and the signedness of the flag branch; the constructor's
parameter type represents every Y; numeric fast paths are only chosen under the
alignment test; _Bool falls back to the general conversion for bytes other than
0/1; default is the general conversion; every iteration advances src by itemsize.
"""
from ..cast import cx, absint, rules
from ..cast.cfg import cfg_of, stmt_text
from ..cast.loader import backend_tu

FN = 'b_unpack'
CTORS = {   # constructor -> (bits, signed, kind) of its C parameter
    'PyLong_FromLong': (64, True, 'int'), 'PyLong_FromUnsignedLong': (64, False, 'int'),
    'PyLong_FromLongLong': (64, True, 'int'), 'PyLong_FromUnsignedLongLong': (64, False, 'int'),
    'PyLong_FromSsize_t': (64, True, 'int'), 'PyLong_FromSize_t': (64, False, 'int'),
    'PyFloat_FromDouble': (64, True, 'float'),
}
FLOATS = {'float': 32, 'double': 64, 'long double': 128}


def flags(tu):
    out = {}
    for k, v in tu.macros.items():
        if k.startswith('CT_') and v[0] is None:
            try:
                out[k] = int(v[1].split('/*')[0].strip(), 0)
            except ValueError:
                pass
    return out


def sizeof_arg(e):
    """type named in a sizeof(T) expression node, searched in a comparison"""
    for x in cx.walk(e):
        if x.get('kind') == 'UnaryExprOrTypeTraitExpr' and x.get('name') == 'sizeof':
            at = x.get('argType')
            return at.get('qualType') if isinstance(at, dict) else at
    return None


def deref_type(e):
    """Y for the first `*(Y *)src` inside e"""
    for x in cx.walk(e):
        if x.get('kind') == 'UnaryOperator' and x.get('opcode') == '*':
            inner = cx.strip(cx.kids(x)[0])
            if inner.get('kind') == 'CStyleCastExpr' and cx.render(inner) == 'src':
                t = inner.get('type', '')
                if t.endswith('*'):
                    return t[:-1].strip()
    return None


def check(run):
    run.explanation = (
        'Type-resolved table comparison inside b_unpack: the selector that assigns each fast-path number (flag '
        'branch + `itemsize == sizeof(X)` facts dominating the assignment) is compared with the reader in the '
        'matching `case` (`*(Y *)src` and the CPython constructor, types as clang resolved them): equal size, '
        'signedness of the flag branch, constructor parameter able to hold every Y; numeric fast paths only under '
        'the alignment test; _Bool and default fall back to convert_to_object; every iteration advances the cursor.')
    tu = backend_tu()
    g = cfg_of(tu, FN)
    fn = tu.func(FN)
    F = flags(tu)
    for k in ('CT_PRIMITIVE_SIGNED', 'CT_PRIMITIVE_UNSIGNED', 'CT_PRIMITIVE_FLOAT', 'CT_IS_BOOL', 'CT_POINTER',
              'CT_FUNCTIONPTR', 'CT_PRIMITIVE_ANY', 'CT_PRIMITIVE_CHAR'):
        if k == 'CT_PRIMITIVE_ANY':
            continue
        run.need(k in F, 'macro %s not found' % k)
    ANY = F['CT_PRIMITIVE_SIGNED'] | F['CT_PRIMITIVE_UNSIGNED'] | F['CT_PRIMITIVE_CHAR'] | F['CT_PRIMITIVE_FLOAT'] | \
        F.get('CT_PRIMITIVE_COMPLEX', 0)
    # --- selectors ----------------------------------------------------------
    selectors = {}
    inits = []
    for node in g.nodes:
        if node.ast is None or node.kind != 'stmt':
            continue
        for l, r, op, x in cx.assignments(node.ast):
            if cx.lhs_text(l) != 'casenum' or op != '=':
                continue
            k = cx.int_value(r)
            if k is None:
                continue
            facts = g.dominating_facts(node.id)
            if not rules.flag_facts(g, facts, 'ctitem->ct_flags'):
                inits.append(k)       # the unconditional initialisation, checked below
                continue
            if k < 0:
                continue
            texts = {'%s:%s' % (lab, cx.render(cn.ast)) for cn, lab in facts if cn.kind == 'cond'}
            ff = rules.flag_facts(g, facts, 'ctitem->ct_flags')
            cls = None
            for name, key in (('signed', 'CT_PRIMITIVE_SIGNED'), ('unsigned', 'CT_PRIMITIVE_UNSIGNED'),
                              ('float', 'CT_PRIMITIVE_FLOAT')):
                if ff.get(F[key]) == 'T':
                    cls = name
            if ff.get(F['CT_POINTER'] | F['CT_FUNCTIONPTR']) == 'T':
                cls = 'pointer'
            if ff.get(F['CT_IS_BOOL']) == 'T':
                cls = 'bool'
            sel_type = None
            excluded = []
            for cn, lab in facts:
                t = cx.render(cn.ast)
                if cn.kind == 'cond' and t.startswith('itemsize == sizeof('):
                    if lab == 'T':
                        sel_type = sizeof_arg(cn.ast)
                    else:
                        excluded.append(sizeof_arg(cn.ast))
            aligned = any(t.startswith('T:') and 'src &' in t.replace('(uintptr_t)', '') and t.endswith('== 0') for t in texts) and \
                any(t.startswith('T:(ctitem->ct_length &') and t.endswith('== 0') for t in texts)
            prim = ff.get(ANY) == 'T'
            run.need(k not in selectors, 'fast path %d assigned twice' % k)
            selectors[k] = {'cls': cls, 'type': sel_type, 'excluded': excluded, 'aligned': aligned, 'prim': prim,
                            'site': tu.where(x), 'facts': sorted(texts)}
    run.need(len(selectors) >= 10, 'expected >= 10 fast-path selectors, found %d' % len(selectors))
    run.saw('fast-path selectors', ['%d: %s %s' % (k, v['cls'], v['type']) for k, v in sorted(selectors.items())])
    # --- readers ------------------------------------------------------------
    sw = [n for n in g.nodes if n.kind == 'switch' and cx.render(n.ast) == 'casenum']
    run.need(len(sw) == 1, 'switch (casenum) not found')
    readers = {}
    default_node = None
    for t, lab in sw[0].succ:
        cn = g.nodes[t]
        if lab[0] == 'default':
            default_node = cn
            continue
        k = int(lab[1])
        # the statement(s) of the case up to the break
        stmts = []
        cur = cn
        seen = set()
        while cur.id not in seen:
            seen.add(cur.id)
            if cur.ast is not None and cur.kind in ('stmt', 'switch', 'cond'):
                stmts.append(cur)
                if cur.kind != 'stmt' or cur.info == 'break':
                    break
            if len(cur.succ) != 1:
                break
            cur = g.nodes[cur.succ[0][0]]
        readers[k] = stmts
    run.need(default_node is not None, 'switch (casenum) has no default')
    run.saw('fast-path readers', ['%d: %s' % (k, stmt_text(v[0].ast)[:60] if v else '?') for k, v in sorted(readers.items())])
    # every selector has a reader and vice versa
    for k in sorted(set(selectors) | set(readers)):
        ok = k in selectors and k in readers
        run.ob('T/selector-and-reader-exist', FN, 'casenum %d' % k, ok, selectors.get(k, {}).get('site'),
               None if ok else 'selector: %s reader: %s' % (k in selectors, k in readers))
    for k in sorted(set(selectors) & set(readers)):
        s = selectors[k]
        first = readers[k][0]
        if s['cls'] in ('signed', 'unsigned', 'float'):
            asg = cx.assignments(first.ast) if first.kind == 'stmt' else []
            run.need(asg and cx.lhs_text(asg[0][0]) == 'x', 'case %d does not start with x = ...' % k)
            rhs = asg[0][1]
            call = cx.strip(rhs, casts=True)
            ctor = cx.callee_name(call) if call.get('kind') == 'CallExpr' else None
            Y = deref_type(rhs)
            X = s['type']
            if s['cls'] == 'float':
                bx, by = FLOATS.get(X), FLOATS.get(Y)
                ok = bx is not None and bx == by
                sgn_ok = True
            else:
                tx, ty = absint.ctype(X), absint.ctype(Y)
                ok = tx is not None and ty is not None and tx[0] == ty[0]
                sgn_ok = ty is not None and ty[1] == (s['cls'] == 'signed')
            run.ob('T/selector-size-equals-reader-size', FN, 'case %d: itemsize == sizeof(%s) reads *(%s *)src' % (k, X, Y),
                   ok, tu.where(first.ast), 'selector %s, reader %s' % (X, Y))
            run.ob('T/reader-signedness-matches-flag-branch', FN, 'case %d: %s branch reads %s' % (k, s['cls'], Y),
                   sgn_ok, tu.where(first.ast))
            c = CTORS.get(ctor)
            if s['cls'] == 'float':
                okc = c is not None and c[2] == 'float'
            else:
                ty = absint.ctype(Y)
                okc = c is not None and c[2] == 'int' and ty is not None and (
                    (c[1] == ty[1] and c[0] >= ty[0]) or (c[1] and not ty[1] and c[0] > ty[0]))
                if okc and c[1] and not ty[1]:
                    # an unsigned Y through a signed constructor is only sound while Y is narrower than long:
                    # the selector must have excluded the long-sized type first (holds on ILP32 too)
                    okc = any(absint.ctype(e) and absint.ctype(e)[0] == 64 and not absint.ctype(e)[1] for e in s['excluded']) \
                        or ty[0] < 32
            run.ob('T/constructor-represents-every-value', FN, 'case %d: %s(*(%s *)src)' % (k, ctor, Y), okc,
                   tu.where(first.ast), 'constructor parameter %s; excluded earlier: %s' % (c, s['excluded']))
            run.ob('T/numeric-fast-path-needs-alignment', FN, 'casenum = %d' % k, s['aligned'] and s['prim'], s['site'],
                   None if s['aligned'] and s['prim'] else 'facts: %s' % s['facts'])
        elif s['cls'] == 'bool':
            run.ob('T/numeric-fast-path-needs-alignment', FN, 'casenum = %d' % k, s['aligned'] and s['prim'], s['site'])
            inner = first if first.kind == 'switch' else None
            ok = inner is not None and deref_type(inner.ast) in ('unsigned char', '_Bool')
            detail = None
            if ok:
                seen = {}
                for t, lab in inner.succ:
                    body = []
                    cur = g.nodes[t]
                    hops = 0
                    while hops < 6:
                        if cur.ast is not None and cur.kind == 'stmt':
                            body.append(stmt_text(cur.ast))
                            if cur.info == 'break':
                                break
                        if len(cur.succ) != 1:
                            break
                        cur = g.nodes[cur.succ[0][0]]
                        hops += 1
                    seen[lab[1] if lab[0] == 'case' else 'default'] = body
                ok = any('x = &_Py_FalseStruct' in b for b in seen.get('0', [])) and \
                    any('x = &_Py_TrueStruct' in b for b in seen.get('1', [])) and \
                    any(b.startswith('x = convert_to_object(src, ctitem)') for b in seen.get('default', []))
                detail = str(seen)
            run.ob('T/bool-other-bytes-use-general-conversion', FN, 'case %d: switch (*(unsigned char *)src)' % k, ok,
                   tu.where(first.ast), detail)
        elif s['cls'] == 'pointer':
            asg = cx.assignments(first.ast) if first.kind == 'stmt' else []
            txt = cx.render(asg[0][1]) if asg else ''
            # the same call the general conversion makes for pointers
            gc = cfg_of(tu, 'convert_to_object')
            same = False
            for n in gc.nodes:
                if n.kind == 'return' and cx.calls_in(n.ast, 'new_simple_cdata'):
                    f = gc.fact_texts(n.id)
                    if rules.flag_facts(gc, gc.dominating_facts(n.id), 'ct->ct_flags').get(F['CT_POINTER'] | F['CT_FUNCTIONPTR']) == 'T':
                        c = cx.calls_in(n.ast, 'new_simple_cdata')[0]
                        a0 = cx.call_args(c)[0]
                        d = rules.single_def(tu.func('convert_to_object'), cx.render(a0))
                        same = d is not None and cx.render(d) == '*data' and cx.render(cx.call_args(c)[1]) == 'ct'
            ok = txt == 'new_simple_cdata(*src, ctitem)' and same
            run.ob('T/pointer-fast-path-equals-general-conversion', FN, 'case %d: x = %s' % (k, txt), ok,
                   tu.where(first.ast))
        else:
            run.ob('T/selector-classified', FN, 'casenum = %d' % k, False, s['site'], 'facts: %s' % s['facts'])
    # default: general conversion
    cur = default_node
    body = []
    hops = 0
    while hops < 4:
        if cur.ast is not None and cur.kind == 'stmt':
            body.append(stmt_text(cur.ast))
            break
        cur = g.nodes[cur.succ[0][0]]
        hops += 1
    run.ob('T/default-is-general-conversion', FN, 'default: x = convert_to_object(src, ctitem)',
           body == ['x = convert_to_object(src, ctitem)'], tu.where(sw[0].ast), str(body))
    # initial value of casenum is the fall-back
    run.ob('T/initial-casenum-is-fallback', FN, 'casenum = <initial>', len(inits) == 1 and inits[0] not in readers,
           tu.where(fn), 'unconditional initial value(s): %s' % inits)
    # every iteration advances the cursor by itemsize, after storing x
    adv = [n for n in g.nodes if n.ast is not None and n.kind == 'stmt' and stmt_text(n.ast) == 'src += itemsize']
    run.need(len(adv) == 1, '`src += itemsize` not found exactly once')
    setitem = [n for n in g.nodes if n.ast is not None and n.kind == 'stmt' and
               stmt_text(n.ast).replace(' ', '') in ('PyList_SET_ITEM(result,i,x)', 'PyList_SetItem(result,i,x)')]
    ok = bool(setitem) and all(g.must_follow(n.id, [adv[0].id], to=sw[0].id) for n in setitem)
    run.ob('T/cursor-advances-each-iteration', FN, 'src += itemsize', ok, tu.where(adv[0].ast))
    # no other write to src inside the function besides initialisation and the advance
    w = [stmt_text(g.node_of(x).ast) for l, r, op, x in cx.assignments(fn) if cx.lhs_text(l) == 'src']
    run.ob('T/cursor-written-only-by-init-and-advance', FN, 'writes to src', sorted(w) == ['src += itemsize', 'src = cd->c_data'],
           tu.where(fn), str(w))
    # character items: whole-array constructors get `length` unchanged
    for node in g.nodes:
        if node.kind != 'return':
            continue
        for name in ('PyBytes_FromStringAndSize', '_my_PyUnicode_FromChar16', '_my_PyUnicode_FromChar32'):
            for c in cx.calls_in(node.ast, name):
                a = [cx.render(v) for v in cx.call_args(c)]
                ok = a == ['cd->c_data', 'length'] and rules.flag_facts(
                    g, g.dominating_facts(node.id), 'ctitem->ct_flags').get(F['CT_PRIMITIVE_CHAR']) == 'T'
                run.ob('T/char-items-use-length-unchanged', FN, '%s(%s)' % (name, ', '.join(a)), ok, tu.where(c))
    run.min_instances('T/selector-size-equals-reader-size', 10)
    run.min_instances('T/char-items-use-length-unchanged', 3)
    run.exhaustive = True
    run.assume('LP64: sizes of C types as in this sandbox; equality of the produced Python objects beyond type agreement is not decided')
