"""C08 — C type names round-trip through getctype and typeof (structural clauses: the name algebra).

A ctype's name is kept as text plus an insertion point (ct_name_position); every derived type and
every getctype() answer is made by *splicing* text at that point.  That the spliced declaration
re-parses to the intended type is C's inside-out declarator rule; what the code must get right, and
what is decided here, is the splice itself and the decoration each constructor chooses:

N1 the three splice routines (ctypedescr_new_on_top, _combine_type_name_l, b_getcname) are evaluated
   abstractly with the buffers at symbolic base addresses: the copies must be exactly
   name[0:pos] | inserted text or gap | name[pos:end], the allocation must have room for all of it
   (and the terminator where one is copied) and the new insertion point must be pos + extra_position.
N2 decorations: pointer-to-T inserts " *" (or "(*)" when T is an array) and moves the insertion
   point just after the '*'; array-of-T inserts "[N]" / "[]" at the point without moving it.
N3 function types: head of the result, a space unless it ends with '*' or the replacement opens a
   parenthesis, "(*)", "(", arguments, ")", tail of the result; the insertion point is just
   before the ')' of "(*)".
N4 the three implementations of the getctype() decoration (FFI.getctype in api.py, get_c_name in
   model.py, ffi_getctype in ffi_obj.c) take the same decision for every class of replacement
   text x type kind: parenthesise '*...' on an array type, otherwise put a space before anything
   that does not start with '[' or '(', and strip surrounding white space first.
"""
import ast
import re

from .. import AnalysisError
from ..cast import cx, absint, rules
from ..cast.absint import Con, TOP
from ..cast.cfg import cfg_of, stmt_text
from ..cast.loader import backend_tu
from ..pyast.index import cffi_mod, u
from ..pyast import sympath as sp

BASE, EXTRA, OBJ, DST = 0x100000, 0x200000, 0x300000, 0x400000
MEMCPY = ('memcpy', '_cffi_memcpy', '__builtin_memcpy', '__builtin___memcpy_chk')


def splice_eval(tu, fname, env_extra, lens, consts, start=None):
    """run constant propagation through `fname`; returns (copies [(dst, src, n)], allocations, final state holder)"""
    g = cfg_of(tu, fname)
    copies, allocs = [], []

    def h_strlen(a, e):
        v = a[0]
        if isinstance(v, Con) and v.v in lens:
            return Con(lens[v.v], 64, False)
        return TOP

    def h_memcpy(a, e):
        copies.append(tuple(x.v if isinstance(x, Con) else None for x in a[:3]))
        return TOP

    def h_alloc(kind):
        def f(a, e):
            allocs.append((kind, [x.v if isinstance(x, Con) else None for x in a]))
            return Con(OBJ if kind == 'ctypedescr_new' else DST, 64, False)
        return f
    hooks = {'strlen': h_strlen, 'ctypedescr_new': h_alloc('ctypedescr_new'), 'PyBytes_FromStringAndSize': h_alloc('PyBytes_FromStringAndSize'),
             'PyBytes_AS_STRING': lambda a, e: Con(DST, 64, False),
             '__builtin_alloca': h_alloc('alloca'), 'alloca': h_alloc('alloca'), 'PyUnicode_FromStringAndSize': h_alloc('PyUnicode_FromStringAndSize')}
    for mname in MEMCPY:
        hooks[mname] = h_memcpy
    env = dict(env_extra)
    it = absint.Interp(g, env, hooks, const_vars=set(consts))
    if start is None:
        it.run()
    else:
        it.run_from(start, env, set())
    return g, it, copies, allocs


def n1(run, tu):
    F_ = 'ctypedescr_new_on_top'
    for blen, pos, elen, epos in ((7, 3, 2, 2), (3, 3, 3, 2), (10, 0, 4, 0), (5, 5, 2, 0), (12, 6, 3, 2)):
        env = {'ct_base->ct_name': Con(BASE, 64, False), 'ct_base->ct_name_position': Con(pos, 64, True), 'extra_text': Con(EXTRA, 64, False),
               'extra_position': Con(epos, 32, True), 'ct->ct_name': Con(DST, 64, False)}
        g, it, copies, allocs = splice_eval(tu, F_, env, {BASE: blen, EXTRA: elen}, env.keys())
        want = [(DST, BASE, pos), (DST + pos, EXTRA, elen), (DST + pos + elen, BASE + pos, blen - pos + 1)]
        okc = sorted(copies) == sorted(want)
        al = [a for k, a in allocs if k == 'ctypedescr_new']
        oka = len(al) == 1 and al[0][0] is not None and al[0][0] >= blen + elen + 1
        ret = [n for n in g.nodes if n.kind == 'return' and rules.return_value(n) == 'ct']
        st = it.in_state.get(ret[0].id) if ret else None
        newpos = st.get('ct->ct_name_position') if st else None
        okp = isinstance(newpos, Con) and newpos.v == pos + epos
        case = 'len %d, point %d, %d inserted, new point +%d' % (blen, pos, elen, epos)
        run.ob('N1/splice-is-head-insert-tail', F_, case, okc, tu.where(tu.func(F_)),
               'copies (dst-offset, source, n): %s, expected %s' % ([(d - DST if d else d, 'name+%d' % (s - BASE) if s and BASE <= s < EXTRA else 'text' if s == EXTRA else s, n) for d, s, n in copies],
                                                                  [(d - DST, 'name+%d' % (s - BASE) if s < EXTRA else 'text', n) for d, s, n in want]))
        run.ob('N1/allocation-has-room', F_, case, oka, tu.where(tu.func(F_)), 'ctypedescr_new(%s), needs %d' % (al, blen + elen + 1))
        run.ob('N1/new-insertion-point', F_, case, okp, tu.where(tu.func(F_)), 'ct_name_position becomes %r, expected %d' % (newpos, pos + epos))
    F_ = '_combine_type_name_l'
    for blen, pos, xlen in ((7, 3, 2), (3, 3, 0), (10, 0, 5), (6, 6, 4)):
        env = {'ct->ct_name': Con(BASE, 64, False), 'ct->ct_name_position': Con(pos, 64, True), 'extra_text_len': Con(xlen, 64, False),
               'result->ob_sval': Con(DST, 64, False)}
        g, it, copies, allocs = splice_eval(tu, F_, env, {BASE: blen}, env.keys())
        want = [(DST, BASE, pos), (DST + pos + xlen, BASE + pos, blen - pos)]
        al = [a for k, a in allocs if k == 'PyBytes_FromStringAndSize']
        case = 'len %d, point %d, gap %d' % (blen, pos, xlen)
        run.ob('N1/splice-is-head-insert-tail', F_, case, sorted(copies) == sorted(want), tu.where(tu.func(F_)), 'copies %s, expected %s' % (copies, want))
        run.ob('N1/allocation-has-room', F_, case, len(al) == 1 and al[0][1] == blen + xlen, tu.where(tu.func(F_)), 'PyBytes_FromStringAndSize(%s)' % al)
    F_ = 'b_getcname'
    g = cfg_of(tu, F_)
    pa = [n for n in g.nodes if n.kind == 'cond' and 'PyArg_ParseTuple' in cx.render(n.ast)]
    run.need(len(pa) == 1, '%s: argument parsing not found' % F_)
    start = [t for t, l in pa[0].succ if l == 'T'][0]
    for blen, pos, rlen in ((7, 3, 2), (3, 3, 0), (10, 0, 5), (6, 6, 1)):
        env = {'ct->ct_name': Con(BASE, 64, False), 'ct->ct_name_position': Con(pos, 64, True), 'replace_with': Con(EXTRA, 64, False)}
        g, it, copies, allocs = splice_eval(tu, F_, env, {BASE: blen, EXTRA: rlen}, env.keys(), start=start)
        want = [(DST, BASE, pos), (DST + pos, EXTRA, rlen), (DST + pos + rlen, BASE + pos, blen - pos)]
        al = [a for k, a in allocs if k == 'alloca']
        out = [a for k, a in allocs if k == 'PyUnicode_FromStringAndSize']
        case = 'len %d, point %d, %d inserted' % (blen, pos, rlen)
        run.ob('N1/splice-is-head-insert-tail', F_, case, sorted(copies) == sorted(want), tu.where(tu.func(F_)), 'copies %s, expected %s' % (copies, want))
        run.ob('N1/allocation-has-room', F_, case, len(al) == 1 and al[0][0] is not None and al[0][0] >= blen + rlen, tu.where(tu.func(F_)), 'alloca(%s)' % al)
        run.ob('N1/result-covers-the-whole-name', F_, case, len(out) == 1 and out[0] == [DST, blen + rlen], tu.where(tu.func(F_)), 'PyUnicode_FromStringAndSize(%s)' % out)


def n2(run, tu):
    F_ = 'new_pointer_type'
    fn = tu.func(F_)
    g = cfg_of(tu, F_)
    calls = [c for c in cx.calls_in(fn) if cx.callee_name(c) == 'ctypedescr_new_on_top']
    run.need(len(calls) == 1, '%s: expected one ctypedescr_new_on_top' % F_)
    a = cx.call_args(calls[0])
    posv = cx.int_value(a[2])
    arrflag = rules.macro_flags(tu, 'CT_')['CT_ARRAY']
    seen = {}
    for asg in cx.assignments(fn):
        if cx.lhs_text(asg[0]) == cx.render(a[1]) and cx.strip(asg[1], casts=True).get('kind') == 'StringLiteral':
            txt = ast.literal_eval(cx.strip(asg[1], casts=True)['value'])
            facts = g.fact_texts(g.node_of(asg[3]).id)
            under_array = 'T:ctitem->ct_flags & %d' % arrflag in facts
            seen[under_array] = txt
            want = '(*)' if under_array else ' *'
            okp = posv is not None and 0 <= posv <= len(txt) and txt[:posv].endswith('*') and txt[:posv].count('*') == 1
            run.ob('N2/pointer-decoration', F_, 'item %s an array: insert %r, point +%s' % ('is' if under_array else 'is not', txt, posv),
                   txt == want and okp, tu.where(asg[3]), 'expected %r with the point just after the star' % want)
    run.ob('N2/pointer-decoration', F_, 'both item kinds handled', set(seen) == {True, False}, tu.where(fn), str(seen))
    run.ob('N2/pointer-decoration', F_, 'built on the item type', cx.render(a[0]) == 'ctitem', tu.where(calls[0]))
    F_ = 'new_array_type'
    fn = tu.func(F_)
    calls = [c for c in cx.calls_in(fn) if cx.callee_name(c) == 'ctypedescr_new_on_top']
    run.need(len(calls) == 1, '%s: expected one ctypedescr_new_on_top' % F_)
    a = cx.call_args(calls[0])
    fmts = []
    for c in cx.calls_in(fn):
        if (cx.callee_name(c) or '').lstrip('_').startswith(('sprintf', 'builtin___sprintf_chk', 'snprintf')) or 'sprintf' in (cx.callee_name(c) or ''):
            for x in cx.call_args(c):
                y = cx.strip(x, casts=True)
                if y.get('kind') == 'StringLiteral':
                    fmts.append(ast.literal_eval(y['value']))
    run.ob('N2/array-decoration', F_, 'insert %s at the point, point +%s' % (fmts, cx.render(a[2])),
           sorted(fmts) == ['[%llu]', '[]'] and cx.int_value(a[2]) == 0 and cx.render(a[0]) == 'ctitem', tu.where(calls[0]))


def n3(run, tu):
    F_ = 'fb_build_name'
    g = cfg_of(tu, F_)
    fn = tu.func(F_)
    cats = []
    for n in g.nodes:
        if n.ast is None:
            continue
        for c in cx.calls_in(n.ast):
            if cx.callee_name(c) == 'fb_cat_name':
                cats.append((n, [cx.render(x) for x in cx.call_args(c)]))
    # order along the path without arguments and without ellipsis
    loop = g.edges_of(lambda cn, l: cx.render(cn.ast).replace(' ', '') == 'i<nargs' and l == 'T')
    ell = g.edges_of(lambda cn, l: cx.render(cn.ast).replace(' ', '') in ('ellipsis', 'ellipsis!=0') and l == 'T')
    live = g.reach([g.entry.id], avoid_edges=loop + ell)
    order = []
    node = g.entry.id
    seen = set()
    # linearise: follow the unique live successor, taking both arms of the space test in turn
    seq = sorted([(n.id, a) for n, a in cats if n.id in live], key=lambda t: -t[0])
    texts = [a[1] for _i, a in seq]
    want = ['fresult->ct_name', '" "', 'repl', '"("', '")"', 'fresult->ct_name + fresult->ct_name_position']
    run.ob('N3/function-name-pieces-in-order', F_, ' | '.join(texts), texts == want, tu.where(fn), 'expected %s' % ' | '.join(want))
    lens = {a[1]: a[2] for _i, a in seq}
    run.ob('N3/function-name-piece-lengths', F_, 'head: point characters; tail: the rest and the terminator',
           lens.get('fresult->ct_name') == 'fresult->ct_name_position' and
           lens.get('fresult->ct_name + fresult->ct_name_position', '').replace(' ', '') == 'strlen(fresult->ct_name)-fresult->ct_name_position+1', tu.where(fn), str(lens))
    # the space is added unless the replacement opens a parenthesis or the head ends with a star
    sp_nodes = [n for n, a in cats if a[1] == '" "' and n.id in live]
    if sp_nodes:
        facts = g.fact_texts(sp_nodes[0].id)
        oks = any(re.match(r"^T:repl\[0\] != 40$", f) for f in facts) and any(re.match(r"^T:fresult->ct_name\[fresult->ct_name_position - 1\] != 42$", f) for f in facts)
        run.ob('N3/space-after-the-result-head-unless-star', F_, 'if (repl[0] != \'(\' && head does not end with \'*\') add " "', oks, tu.where(sp_nodes[0].ast), str(sorted(facts)))
    # the insertion point
    pos = [(cx.render(a[1]), a[3]) for a in cx.assignments(fn) if cx.lhs_text(a[0]) == 'fb->fct->ct_name_position']
    idef = [cx.render(a[1]) for a in cx.assignments(fn) if cx.lhs_text(a[0]) == 'i' and 'strlen' in cx.render(a[1])]
    okp = len(pos) == 1 and pos[0][0].replace(' ', '') == 'fresult->ct_name_position+i' and idef == ['strlen(repl) - 1']
    run.ob('N3/function-type-insertion-point', F_, 'ct_name_position = result point + strlen(repl) - 1', okp, tu.where(fn), '%s with i = %s' % (pos and pos[0][0], idef))
    # ... but the space shifts what precedes the point: the point must account for it
    if pos and sp_nodes:
        pn = g.node_of(pos[0][1])
        after_space = pn.id in g.reach([sp_nodes[0].id], include_start=False)
        run.saw('N3 note', ['the insertion point is computed %s the optional space' % ('after' if after_space else 'before')])
    reps = [ast.literal_eval(cx.strip(a[1], casts=True)['value']) for a in cx.assignments(tu.func('fb_prepare_ctype'))
            if cx.lhs_text(a[0]) == 'repl' and cx.strip(a[1], casts=True).get('kind') == 'StringLiteral']
    run.ob('N3/function-pointer-replacement-text', 'fb_prepare_ctype', 'repl = %s' % reps, bool(reps) and all(r.startswith('(') and r.endswith('*)') for r in reps), tu.where(tu.func('fb_prepare_ctype')))


KINDS = {'array': 'int&[5]', 'plain': 'int&', 'pointer': 'int *&', 'function pointer': 'int(*&)(int)', 'pointer to array': 'int(*&)[5]'}
TEXTS = ['', '*', '*x', ' * ', '[3]', '(*)(int)', 'v', '  v  ', '(*v)', '*[2]']


def spec(kind, text):
    t = text.strip()
    if t.startswith('*') and kind == 'array':
        return '(%s)' % t
    if t and t[0] not in '[(':
        return ' ' + t
    return t


def n4(run, tu):
    api = cffi_mod('api')
    f_api = api.find('FFI.getctype')
    model = cffi_mod('model')
    f_mod = model.find('BaseTypeByIdentity.get_c_name')
    F_ = rules.macro_flags(tu, 'CT_')
    g = cfg_of(tu, 'ffi_getctype')
    fnc = tu.func('ffi_getctype')
    defs = [n for n in g.nodes if n.ast is not None and any(cx.lhs_text(a[0]) == 'add_paren' for a in cx.assignments(n.ast))]
    comb = [n for n in g.nodes if n.ast is not None and any(cx.callee_name(c) == '_combine_type_name_l' for c in cx.calls_in(n.ast))]
    run.need(len(defs) == 1 and len(comb) == 1, 'ffi_getctype: decision statements not found')
    # the C function strips white space at both ends first
    ws = [n for n in g.nodes if n.kind == 'cond' and '_ISspace' in cx.render(n.ast)]
    front = [n for n in ws if 'replace_with[0]' in cx.render(n.ast)]
    back = [n for n in ws if 'replace_with_len - 1' in cx.render(n.ast)]
    run.ob('N4/white-space-stripped-first', 'ffi_getctype', 'leading and trailing isspace() loops before the decision',
           len(front) == 1 and len(back) == 1 and all(defs[0].id in g.reach([w.id]) and w.id not in g.reach([defs[0].id]) for w in (front[0], back[0])) and
           g.must_precede(defs[0].id, {n.id for n in g.nodes if n.kind == 'cond' and cx.render(n.ast).replace(' ', '') == 'replace_with[0]!=0'}) and
           g.must_precede(defs[0].id, {n.id for n in g.nodes if n.kind == 'cond' and cx.render(n.ast).replace(' ', '') == 'replace_with_len>0'}), tu.where(fnc))
    for kind, marker in sorted(KINDS.items()):
        for text in TEXTS:
            want = spec(kind, text)
            # api.py
            def h_getcname(a, k, e, f, marker=marker):
                if len(a) == 2 and a[1] == '&':
                    return marker
                return ('getcname', a[1] if len(a) == 2 else None)
            ev = sp.Evaluator({'isinstance': lambda a, k, e, f: False, 'self._backend.getcname': h_getcname})
            ps = ev.run(f_api, {'cdecl': sp.Opq('ctype'), 'replace_with': text})
            got_api = ps[0].outcome[1][1] if len(ps) == 1 and ps[0].outcome and ps[0].outcome[0] == 'return' and isinstance(ps[0].outcome[1], tuple) else None
            # model.py
            ev = sp.Evaluator({'qualify': lambda a, k, e, f: a[1]})
            ps = ev.run(f_mod, {'self.c_name_with_marker': marker, 'replace_with': text, 'quals': 0})
            rets = [p.outcome[1] for p in ps if p.outcome and p.outcome[0] == 'return']
            got_mod = None
            if len(rets) == 1 and isinstance(rets[0], str):
                pre, post = marker.split('&')
                if rets[0].startswith(pre) and rets[0].endswith(post):
                    got_mod = rets[0][len(pre):len(rets[0]) - len(post)]
            # ffi_obj.c
            t = text.strip()
            env = {'replace_with[0]': Con(ord(t[0]) if t else 0, 8, True), 'replace_with_len': Con(len(t), 64, False),
                   'ct->ct_flags': Con(F_['CT_ARRAY'] if kind == 'array' else F_['CT_POINTER'] if 'pointer' in kind else F_['CT_PRIMITIVE_SIGNED'], 32, True)}
            it = absint.Interp(g, env, {}, const_vars=set(env))
            it.run_from(defs[0].id, env, {comb[0].id})
            st = it.in_state.get(comb[0].id) or {}
            ap, asp = st.get('add_paren'), st.get('add_space')
            got_c = None
            if isinstance(ap, Con) and isinstance(asp, Con):
                got_c = ('(%s)' % t) if ap.v else ((' ' + t) if asp.v else t)
            ok = got_api == want and got_mod == want and got_c == want
            run.ob('N4/three-implementations-decorate-alike', 'FFI.getctype / get_c_name / ffi_getctype', '%s type, replace_with=%r -> %r' % (kind, text, want), ok,
                   api.where(f_api), 'api.py %r, model.py %r, ffi_obj.c %r' % (got_api, got_mod, got_c))
    # the C function writes what it decided, in this order, at the insertion point
    seq = []
    for n in sorted(g.nodes, key=lambda x: -x.id):
        if n.ast is None or n.kind != 'stmt':
            continue
        t = stmt_text(n.ast).replace(' ', '')
        if t in ('*p++=40', '*p++=32', 'p[replace_with_len]=41') or t.startswith('memcpy(p,replace_with'):
            seq.append(t)
    run.ob('N4/decision-written-at-the-point', 'ffi_getctype', ' ; '.join(seq), seq == ['*p++=40', '*p++=32', 'memcpy(p,replace_with,replace_with_len)', 'p[replace_with_len]=41'], tu.where(fnc))
    pdef = [cx.render(a[1]) for a in cx.assignments(fnc) if cx.lhs_text(a[0]) == 'p']
    run.ob('N4/decision-written-at-the-point', 'ffi_getctype', 'p = buffer + ct->ct_name_position', len(pdef) == 1 and pdef[0].endswith('+ ct->ct_name_position'), tu.where(fnc), str(pdef))
    ca = [cx.render(x) for x in cx.call_args([c for c in cx.calls_in(comb[0].ast) if cx.callee_name(c) == '_combine_type_name_l'][0])]
    run.ob('N4/gap-is-as-long-as-what-is-written', 'ffi_getctype', '_combine_type_name_l(%s)' % ', '.join(ca),
           ca[0] == 'ct' and ca[1].replace(' ', '') in ('replace_with_len+add_space+2*add_paren',), tu.where(comb[0].ast))


CTYPE_BITS = {'_ISupper': 256, '_ISlower': 512, '_ISalpha': 1024, '_ISdigit': 2048, '_ISxdigit': 4096, '_ISspace': 8192,
              '_ISprint': 16384, '_ISgraph': 32768, '_ISblank': 1, '_IScntrl': 2, '_ISpunct': 4, '_ISalnum': 8}


def _glibc_class(c):
    ch = chr(c)
    b = 0
    if c < 128:
        if ch.isupper(): b |= 256
        if ch.islower(): b |= 512
        if ch.isalpha(): b |= 1024 | 8
        if ch.isdigit(): b |= 2048 | 8 | 4096
        if ch in 'abcdefABCDEF': b |= 4096
        if ch in ' \t\n\r\x0b\x0c': b |= 8192
        if 32 <= c < 127: b |= 16384
        if 33 <= c < 127: b |= 32768
        if ch in ' \t': b |= 1
        if c < 32 or c == 127: b |= 2
        if 33 <= c < 127 and not ch.isalnum(): b |= 4
    return b


def n5(run, tu):
    """stored names -> ctype names: "$name" (an anonymous struct/union/enum named by its typedef) becomes "name" for every
    identifier-start character, "$1"/"$$x" keep the `struct ` prefix: decided for all 256 values of the second character"""
    F = '_realize_name'
    g = cfg_of(tu, F)
    fn = tu.func(F)
    tables = sorted({cx.render(x) for x in cx.walk(fn) if x.get('kind') == 'ArraySubscriptExpr' and '__ctype_b_loc' in cx.render(x)})
    strip_wrong, keep_wrong = [], []
    for c in range(1, 256):
        rec = []
        env = {'srcname[0]': Con(36, 8, True), 'srcname[1]': Con(c if c < 128 else c - 256, 8, True)}
        for k, v in CTYPE_BITS.items():
            env[k] = Con(v, 32, True)
        for t in tables:
            env[t] = Con(_glibc_class(c), 16, False)
        it = absint.Interp(g, env, {'strcpy': lambda a, e: rec.append(('cpy', e)) or TOP, '__builtin_strcpy': lambda a, e: rec.append(('cpy', e)) or TOP,
                                    'strcat': lambda a, e: rec.append(('cat', e)) or TOP, '__builtin_strcat': lambda a, e: rec.append(('cat', e)) or TOP,
                                    '__builtin___strcpy_chk': lambda a, e: rec.append(('cpy', e)) or TOP, '__builtin___strcat_chk': lambda a, e: rec.append(('cat', e)) or TOP},
                           const_vars=set(env)).run()
        kinds = [k for k, _e in rec]
        srcs = [cx.render(cx.call_args(e)[1]).replace(' ', '') for _k, e in rec]
        if kinds == ['cpy'] and srcs == ['&srcname[1]']:
            got = 'strip'
        elif kinds == ['cpy', 'cat'] and srcs == ['prefix', 'srcname']:
            got = 'prefix'
        else:
            raise AnalysisError('%s: second character %r not decided by constant propagation (%s)' % (F, chr(c), list(zip(kinds, srcs))))
        ch = chr(c)
        if (ch.isalpha() and c < 128) or ch == '_':
            if got != 'strip':
                strip_wrong.append(ch)
        elif ch == '$' or ch in '0123456789':
            if got != 'prefix':
                keep_wrong.append(ch)
    run.ob('N5/typedef-named-anonymous-types-lose-the-dollar', F, '"$name" -> "name" for every identifier-start character', not strip_wrong, tu.where(fn),
           'kept as "struct $%s..." (a name no C compiler accepts) for: %s' % (strip_wrong[0] if strip_wrong else '', ''.join(strip_wrong)))
    run.ob('N5/numbered-anonymous-types-keep-their-prefix', F, '"$1", "$$x" -> "struct $1", "struct $$x"', not keep_wrong, tu.where(fn), 'stripped for: %s' % ''.join(keep_wrong))


def n6(run, tu, prefix='N5'):
    """ctype name -> stored name (_unrealize_name, the key a struct/union/enum is looked up with): a tag keyword is only recognised
    together with the space that follows it ("structure_t" is a typedef name, key "$structure_t"), and what is skipped is exactly
    what was compared"""
    F = '_unrealize_name'
    f = tu.func(F)
    lits = []
    for x in cx.walk(f):
        if x.get('kind') == 'StringLiteral':
            v = x.get('value', '')
            try:
                v = ast.literal_eval(v) if v.startswith('"') else v
            except Exception:
                pass
            if isinstance(v, str) and re.match(r'^(struct|union|enum)', v):
                lits.append((v, x))
    run.need(len(lits) >= 3, '%s: the tag keywords are no longer string constants of the function' % F)
    for v, x in lits:
        run.ob('%s/tag-keyword-matched-with-its-separating-space' % prefix, F, repr(v), v.endswith(' ') and v[:-1] in ('struct', 'union', 'enum'), tu.where(x),
               'a name that merely starts with %r (a typedef called "%sure_t"...) is taken for a tagged type and looked up under the wrong key' % (v, v.strip()))
    # compared length and skipped length are the keyword's length
    for c in cx.calls_in(f):
        if cx.callee_name(c) in ('strncmp', '__builtin_strncmp') and len(cx.call_args(c)) == 3:
            a = cx.call_args(c)
            lit = [v for v, x in lits if any(y is x for y in cx.walk(a[1]))]
            n = cx.render(cx.strip(a[2], casts=True))
            if lit and n.isdigit():
                skip = ['&srcname[%d]' % len(lit[0]) in cx.render(y).replace(' ', '') for y in cx.calls_in(f) if cx.callee_name(y) in ('strcpy', '__builtin_strcpy', '__builtin___strcpy_chk')]
                run.ob('%s/compared-and-skipped-length-is-the-keyword-length' % prefix, F, 'strncmp(srcname, %r, %s)' % (lit[0], n), int(n) == len(lit[0]) and any(skip), tu.where(c))


def check(run):
    run.technique = ('name algebra: abstract evaluation (constant propagation with the buffers at symbolic base addresses) of the three splice routines, '
                     'clang-AST rules on the decoration each type constructor chooses, and a three-way decision-table cross-check of the getctype '
                     'decoration (two Python implementations walked symbolically, the C one by constant propagation)')
    tu = backend_tu()
    n1(run, tu)
    n2(run, tu)
    n3(run, tu)
    n4(run, tu)
    n5(run, tu)
    n6(run, tu)
    run.assume('that a correctly spliced declaration re-parses to the intended type is the declarator rule of C plus the parsers (C07) and the canonical-ctype cache (C27); '
               'decided here: the splice, the insertion point and the decoration; not decided: argument lists of function names, qualifiers (qualify()), sizes of the declared objects')
    for rule, k in (('N1', 30), ('N2', 5), ('N3', 4), ('N4/three-implementations-decorate-alike', 50), ('N4', 54), ('N5', 2)):
        run.min_instances(rule, k)
