"""C26 — ffi.init_once runs the initializer once under any interleaving (DESIGN §3 C26): lock-discipline shape.

Both implementations (api.FFI.init_once, ffi_obj.c ffi_init_once):
L1 the pending entry is created with an atomic dict.setdefault;
L2 func is called only while the per-tag lock is held and only after a re-read of
   the cache under that lock found it still pending;
L3 the (True, result) store happens under the lock, after func returned normally;
   a failing func stores nothing;
L4 the lock is released on every path after the acquire;
L5 (C) the GIL is released only around the blocking acquire.
"""
import ast

from ..cast import cx, rules
from ..cast.cfg import cfg_of, stmt_text
from ..cast.loader import backend_tu
from ..pyast.index import cffi_mod, u


def python_half(run):
    m = cffi_mod('api')
    f = m.find('FFI.init_once')
    q = 'FFI.init_once'
    sd = [c for c in ast.walk(f) if isinstance(c, ast.Call) and isinstance(c.func, ast.Attribute) and c.func.attr == 'setdefault']
    ok = len(sd) == 1 and u(sd[0].func.value) == 'self._init_once_cache' and u(sd[0].args[0]) == 'tag' and \
        isinstance(sd[0].args[1], ast.Tuple) and u(sd[0].args[1].elts[0]) == 'False' and u(sd[0].args[1].elts[1]) == 'allocate_lock()'
    run.ob('L1/pending-entry-created-atomically', q, 'x = self._init_once_cache.setdefault(tag, (False, allocate_lock()))', ok, m.where(f))
    raw = [s for s in ast.walk(f) if isinstance(s, ast.Assign) and u(s.targets[0]) == 'self._init_once_cache[tag]']
    withs = [s for s in ast.walk(f) if isinstance(s, ast.With)]
    run.need(len(withs) == 1, 'expected one `with` in FFI.init_once')
    w = withs[0]
    ok = u(w.items[0].context_expr) == 'x[1]'
    run.ob('L4/lock-held-through-a-with-block', q, 'with x[1]:', ok, m.where(w))
    calls = [c for c in ast.walk(f) if isinstance(c, ast.Call) and u(c.func) == 'func']
    inw = [c for c in ast.walk(w) if isinstance(c, ast.Call) and u(c.func) == 'func']
    run.ob('L2/func-called-only-under-the-lock', q, 'result = func()', len(calls) == 1 and len(inw) == 1, m.where(f))
    # order inside the with body: re-read, test, call, store
    body = w.body
    texts = [u(s) for s in body]
    ok = len(body) >= 4 and texts[0] == 'x = self._init_once_cache[tag]' and isinstance(body[1], ast.If) and u(body[1].test) == 'x[0]' \
        and [u(s) for s in body[1].body] == ['return x[1]'] and not body[1].orelse
    callidx = [i for i, s in enumerate(body) if any(isinstance(c, ast.Call) and u(c.func) == 'func' for c in ast.walk(s))]
    ok = ok and callidx == [2]
    run.ob('L2/cache-re-read-under-the-lock-before-calling', q, 'x = self._init_once_cache[tag]; if x[0]: return x[1]; result = func()', ok, m.where(w), str(texts))
    ok = len(raw) == 1 and raw[0] in body and body.index(raw[0]) > (callidx[0] if callidx else 99) and u(raw[0].value) == '(True, result)'
    # not inside try/finally: a raising func must cache nothing
    tries = [s for s in ast.walk(f) if isinstance(s, ast.Try) and (s.finalbody or any(h.type is None or u(h.type) in ('Exception', 'BaseException') for h in s.handlers))]
    ok = ok and not tries
    run.ob('L3/result-stored-under-lock-after-normal-return', q, 'self._init_once_cache[tag] = (True, result)', ok, m.where(raw[0]) if raw else m.where(f))
    # fast path and final return
    ifs = [s for s in f.body if isinstance(s, ast.If) and u(s.test) == 'x[0]']
    run.ob('L2/fast-path-returns-cached-result', q, 'if x[0]: return x[1]', len(ifs) == 1 and [u(s) for s in ifs[0].body] == ['return x[1]'], m.where(f))
    rets = [s for s in f.body if isinstance(s, ast.Return)]
    run.ob('L3/returns-the-completed-result', q, 'return result', [u(r.value) for r in rets] == ['result'], m.where(f))
    # lock type: a real mutex
    imp = [s for s in m.tree.body if isinstance(s, ast.ImportFrom) and any(a.name == 'allocate_lock' for a in s.names)]
    run.ob('L1/lock-is-a-thread-lock', 'api', 'from .lock import allocate_lock', bool(imp) and imp[0].module == 'lock', 'src/cffi/api.py')


def c_half(run):
    tu = backend_tu()
    fn = 'ffi_init_once'
    g = cfg_of(tu, fn)
    f = tu.func(fn)
    acq = [n for n in g.nodes_calling('PyThread_acquire_lock')]
    rel = [n for n in g.nodes_calling('PyThread_release_lock')]
    call = [n for n in g.nodes if n.ast is not None and any(cx.render(cx.call_args(c)[0]) == 'func' for c in cx.calls_in(n.ast, 'PyObject_CallFunction') + cx.calls_in(n.ast, '_PyObject_CallFunction_SizeT') + cx.calls_in(n.ast, 'PyObject_CallNoArgs') + cx.calls_in(n.ast, 'PyObject_CallObject'))]
    run.need(len(acq) == 1 and len(rel) >= 1 and len(call) >= 1, 'ffi_init_once: acquire/release/func call sites not found (%d/%d/%d)' % (len(acq), len(rel), len(call)))
    a = acq[0]
    c = [n for n in call if a.id in g.coreach([n.id])][-1] if any(a.id in g.coreach([n.id]) for n in call) else call[0]
    relids = [n.id for n in rel]
    sd = [x for x in cx.calls_in(f, ('PyObject_CallMethod', '_PyObject_CallMethod_SizeT')) if len(cx.call_args(x)) >= 2 and cx.render(cx.call_args(x)[1]) == '"setdefault"']
    ok = len(sd) == 1 and cx.render(cx.call_args(sd[0])[0]) == 'cache' and cx.render(cx.call_args(sd[0])[3]) == 'tag'
    run.ob('L1/pending-entry-created-atomically', fn, 'tup = PyObject_CallMethod(cache, "setdefault", "OO", tag, x)', ok, tu.where(sd[0]) if sd else tu.where(f))
    pack = [x for x in cx.calls_in(f, 'PyTuple_Pack') if cx.render(cx.call_args(x)[1]) == '&_Py_FalseStruct']
    run.ob('L1/pending-entry-is-(False, lock)', fn, 'tup = PyTuple_Pack(2, Py_False, x)', len(pack) == 1, tu.where(pack[0]) if pack else tu.where(f))
    for cc in call:
        ok = g.must_precede(cc.id, [a.id]) and g.must_follow(cc.id, relids)
        run.ob('L2/func-called-only-under-the-lock', fn, stmt_text(cc.ast), ok, tu.where(cc.ast))
    reread = [n for n in g.nodes if n.ast is not None and n.kind == 'stmt' and any(
        cx.callee_name(x) in ('PyDict_GetItem', 'PyDict_GetItemRef', 'PyDict_GetItemWithError') and cx.render(cx.call_args(x)[0]) == 'cache'
        for x in cx.calls_in(n.ast)) and a.id in g.coreach([n.id]) and n.id in g.coreach([c.id])]
    rr = [n for n in reread if g.must_precede(n.id, [a.id])]
    ok = bool(rr) and g.must_precede(c.id, [n.id for n in rr])
    facts = g.fact_texts(c.id)
    still_pending = g.edges_of(lambda cn, lab: cn.kind == 'cond' and lab == 'F' and (
        cx.render(cn.ast) == 'x != 0' or '_Py_TrueStruct' in cx.render(cn.ast)) and
        any(cn.id in g.reach([r.id]) for r in rr))
    pend = bool(still_pending) and g.must_pass_edges(c.id, still_pending, start=a.id)
    run.ob('L2/cache-re-read-under-the-lock-before-calling', fn, 'x = PyDict_GetItem(cache, tag) after the acquire; func only if still pending',
           ok and pend, tu.where(rr[0].ast) if rr else tu.where(f), 'facts at the call: %s' % sorted(facts)[-4:])
    st = [n for n in g.nodes if n.ast is not None and any(cx.render(cx.call_args(x)[0]) == 'cache' for x in cx.calls_in(n.ast, 'PyDict_SetItem'))]
    run.need(len(st) == 1, 'PyDict_SetItem(cache, ...) not found once')
    s = st[0]
    ok = g.must_precede(s.id, [c.id]) and g.must_follow(s.id, relids) and 'T:res != 0' in g.fact_texts(s.id)
    tp = [x for x in cx.calls_in(f, 'PyTuple_Pack') if cx.render(cx.call_args(x)[1]) == '&_Py_TrueStruct']
    ok = ok and len(tp) == 1 and cx.render(cx.call_args(tp[0])[2]) == 'res'
    run.ob('L3/result-stored-under-lock-after-normal-return', fn, 'PyDict_SetItem(cache, tag, PyTuple_Pack(2, Py_True, res)) if res != NULL', ok, tu.where(s.ast),
           'facts: %s' % sorted(g.fact_texts(s.id))[-3:])
    # a failing func caches nothing: from the F edge of `res != 0` no SetItem is reachable
    conds = [n for n in g.nodes if n.kind == 'cond' and cx.render(n.ast) == 'res != 0' and c.id in g.coreach([n.id])]
    ok = bool(conds)
    for cn in conds:
        for t, l in cn.succ:
            if l == 'F' and s.id in g.reach([t]):
                ok = False
    run.ob('L3/failing-func-caches-nothing', fn, 'if (res != NULL) { ...store... }', ok, tu.where(conds[0].ast) if conds else tu.where(f))
    ok = g.must_follow(a.id, relids)
    path = None
    if not ok:
        path = g.describe_path(g.witness_path(a.id, g.exit.id, avoid=relids, include_start=False) or [])
    run.ob('L4/lock-released-on-every-path', fn, 'PyThread_release_lock(lock)', ok, tu.where(a.ast), path=path)
    # nothing can return between acquire and release
    rets_between = [n for n in g.nodes if n.kind == 'return' and n.id in g.reach([a.id], avoid=relids, include_start=False)]
    run.ob('L4/no-return-while-holding-the-lock', fn, 'return between acquire and release', not rets_between, tu.where(a.ast),
           str([stmt_text(n.ast) for n in rets_between]))
    sv = g.nodes_calling('PyEval_SaveThread')
    rs = g.nodes_calling('PyEval_RestoreThread')
    ok = len(sv) == 1 and len(rs) == 1
    if ok:
        mid = g.reach([sv[0].id], avoid=[rs[0].id], include_start=False)
        callers = [n for n in g.nodes if n.id in mid and n.ast is not None and cx.calls_in(n.ast)]
        ok = [n.id for n in callers] == [a.id]
    run.ob('L5/gil-released-only-around-the-acquire', fn, 'Py_BEGIN_ALLOW_THREADS PyThread_acquire_lock(lock, WAIT_LOCK); Py_END_ALLOW_THREADS', ok, tu.where(a.ast))
    # blocking acquire
    ac = cx.calls_in(a.ast, 'PyThread_acquire_lock')[0]
    run.ob('L4/acquire-is-blocking', fn, cx.render(ac), cx.render(cx.call_args(ac)[1]) in ('1', 'WAIT_LOCK'), tu.where(ac))
    # the lock acquired is the one stored in the pending tuple
    ld = [cx.render(r) for l, r, op, _x in cx.assignments(f) if cx.lhs_text(l) == 'lock']
    ok = any('PyCapsule_GetPointer(lockobj' in t for t in ld)
    run.ob('L1/lock-comes-from-the-cached-entry', fn, 'lock = PyCapsule_GetPointer(lockobj, ...)', ok, tu.where(f), str(ld))


def check(run):
    run.explanation = (
        'Double-checked-locking shape rules on both implementations. Python (ast): the pending entry comes from one '
        'dict.setdefault, func() is called once, inside `with x[1]`, after the cache was re-read and found pending, and '
        'the (True, result) store follows it in the same block outside any try/finally. C (CFG path queries): the func '
        'call is preceded by the acquire and followed by the release on all paths, the re-read of cache[tag] lies '
        'between acquire and call, the store is dominated by res != NULL and lies before the release, no return sits '
        'between acquire and release, the GIL-released region contains only the blocking acquire.')
    python_half(run)
    c_half(run)
    run.min_instances('L2', 5)
    run.min_instances('L3', 4)
    run.min_instances('L4', 4)
    run.assume('dict.setdefault and item assignment are atomic under the GIL; allocate_lock gives a real mutex')
    run.assume('absence of deadlock for user functions that themselves block is not decided')
