"""C31 — comments, spacing and line directives do not change a cdef's meaning (structural clauses).

The pre-parser is a pipeline of regular-expression rewrites.  Decided:

P1 a comment is replaced by white space that is not empty (tokens stay separated) and keeps the
   number of newlines (line numbers of what follows do not move).
P2 the three patterns denote what they are used for: the *denotation* of each pattern constant
   (pattern text and flags read from the module's ast; evaluated with the standard `re` engine,
   no cffi code involved) is checked on one representative of every class of input -- block
   comments with newlines/stars/slashes, line comments with and without continuation, non-comments;
   line directives in every spelling of the property and non-directives; #define lines with
   continuations and the lines that are not defines.
P3 the order of the pipeline: other white space normalised first, line directives set aside before
   anything can look at their file names and again after comment removal (a comment in front of
   `# N` makes it a directive, as in C), comments removed before #define lines are read, the
   directives put back by the last step.
P4 backslash-newline inside a #define value is spliced out and the value stripped.
P5 every C white-space character (space, tab, newline, carriage return, form feed, vertical tab) is
   white space for the parser: the characters pycparser does not know are mapped to a space first.
"""
import ast
import re

from .. import AnalysisError
from ..pyast.index import cffi_mod, u
from ..pyast import sympath as sp

PARSER_WS = {' ', '\t', '\n'}
C_WS = [' ', '\t', '\n', '\r', '\x0c', '\x0b']


def module_patterns(m):
    """{name: compiled pattern} for module-level `NAME = re.compile(<literal>[, flags])`"""
    out = {}
    consts = {}

    def fold(e):
        """string constant expressions over module-level string constants: literals, +, %, names"""
        if isinstance(e, ast.Constant) and isinstance(e.value, (str, int)):
            return e.value
        if isinstance(e, ast.Name) and e.id in consts:
            return consts[e.id]
        if isinstance(e, ast.BinOp) and isinstance(e.op, ast.Add):
            a, b = fold(e.left), fold(e.right)
            if isinstance(a, str) and isinstance(b, str):
                return a + b
        if isinstance(e, ast.BinOp) and isinstance(e.op, ast.Mod):
            a = fold(e.left)
            b = tuple(fold(x) for x in e.right.elts) if isinstance(e.right, ast.Tuple) else fold(e.right)
            if isinstance(a, str) and b is not None and (not isinstance(b, tuple) or all(x is not None for x in b)):
                return a % b
        if isinstance(e, ast.Tuple):
            return None
        return None
    for st in m.tree.body:
        if isinstance(st, ast.Assign) and len(st.targets) == 1 and isinstance(st.targets[0], ast.Name) and not isinstance(st.value, ast.Call):
            try:
                v = fold(st.value)
            except Exception:
                v = None
            if isinstance(v, str):
                consts[st.targets[0].id] = v
        if isinstance(st, ast.Assign) and len(st.targets) == 1 and isinstance(st.targets[0], ast.Name) and \
                isinstance(st.value, ast.Call) and u(st.value.func) == 're.compile' and st.value.args:
            try:
                pat = fold(st.value.args[0])
            except Exception:
                pat = None
            if not isinstance(pat, str):
                continue
            flags = 0
            if len(st.value.args) > 1:
                for name in re.findall(r're\.([A-Z]+)', u(st.value.args[1])):
                    flags |= getattr(re, name)
            out[st.targets[0].id] = re.compile(pat, flags)
    return out


def p1(run, m):
    fn = m.find('_preprocess.replace_keeping_newlines') if m.has('_preprocess.replace_keeping_newlines') else None
    pre = m.find('_preprocess')
    subs = [c for c in ast.walk(pre) if isinstance(c, ast.Call) and u(c.func) == '_r_comment.sub']
    run.need(len(subs) == 1, '_preprocess: expected one _r_comment.sub(...)')
    repl = subs[0].args[0]
    for text in ('/* c */', '/* a\n b\n*/', '// x', '/**/', '// x \\\n y'):
        if isinstance(repl, ast.Constant):
            got = repl.value
        else:
            run.need(fn is not None and isinstance(repl, ast.Name) and repl.id == fn.name, '_preprocess: the comment replacement is neither a constant nor a local function')
            ev = sp.Evaluator({'m.group': lambda a, k, e, f, t=text: t})
            ps = ev.run(fn, {})
            run.need(len(ps) == 1 and ps[0].outcome and ps[0].outcome[0] == 'return', 'replace_keeping_newlines: not a single return')
            got = ps[0].outcome[1]
        ok = isinstance(got, str) and got != '' and got.strip(' \t\n') == '' and got.count('\n') == text.count('\n')
        run.ob('P1/comment-becomes-whitespace-keeping-newlines', '_preprocess', 'comment %r -> %r' % (text, got), ok, m.where(subs[0]),
               'a comment must become non-empty white space with as many newlines as it contained')


CASES = {
    '_r_comment': ('findall-span', [
        ('a /* x */ b', ['/* x */']), ('a /* x\ny */ b', ['/* x\ny */']), ('/**/', ['/**/']), ('/***/', ['/***/']),
        ('/* a */ b /* c */', ['/* a */', '/* c */']), ('// x\nint', ['// x']), ('// x \\\n y\nint', ['// x \\\n y']),
        ('a / b', []), ('/ * x * /', []), ('int a; //', ['//']), ('/* // */ x', ['/* // */']), ('// /* \n x */', ['// /* ']),
        ('a /* x * / y */ b', ['/* x * / y */']), ('x // a\n// b\ny', ['// a', '// b'])]),
    '_r_line_directive': ('findall-span', [
        ('# 12 "f.h"', ['# 12 "f.h"']), ('#line 3', ['#line 3']), ('  #  line 3 "x y"', ['  #  line 3 "x y"']), ('#12', ['#12']),
        ('\t#\t7 "a b"', ['\t#\t7 "a b"']), ('int x;\n# 5 "f"\nint y;', ['# 5 "f"']),
        ('#define X 1', []), ('#pragma pack(1)', []), ('#lineage', []), ('int x; # 3', []), ('#linex 3', [])]),
    '_r_comment_or_line_directive': ('findall-span', [
        ('a /* x\n#12 y */ b', ['/* x\n#12 y */']), ('# 12 "f/*.h"\nint /* c */ x;', ['# 12 "f/*.h"', '/* c */']), ('// x \\\n#line 3\nint', ['// x \\\n#line 3']),
        ('#line 3\n#4 "g"', ['#line 3', '#4 "g"']), ('int x; # 3', []), ('#define X 1 // c', ['// c']), ('  #  line 3 "x//y"\nint', ['  #  line 3 "x//y"'])]),
    '_r_define': ('groups', [
        ('#define A 1', [('A', ' 1')]), ('  #  define   K    12   ', [('K', '    12   ')]), ('#define A 1 \\\n 2\nint x;', [('A', ' 1 \\\n 2')]),
        ('#define A', [('A', '')]), ('#defineX 1', []), ('x #define A 1', []), ('int x;\n#define B 0x10\nint y;', [('B', ' 0x10')]),
        ('#define F(x) x', [('F', '(x) x')])]),
}


def p2(run, m, pats):
    n = 0
    for name, (mode, cases) in sorted(CASES.items()):
        run.need(name in pats, 'cparser: module-level pattern %s not found' % name)
        rx = pats[name]
        for text, want in cases:
            if mode == 'findall-span':
                got = [mm.group() for mm in rx.finditer(text)]
            else:
                got = [mm.groups() for mm in rx.finditer(text)]
            run.ob('P2/pattern-denotes-its-class', name, '%r -> %r' % (text, want), got == want, 'src/cffi/cparser.py', 'the pattern matches %r' % (got,))
            n += 1
    return n


def _is_ws_normalisation(call, pats):
    """csource.replace(<ws>, <ws>) (possibly chained) or PATTERN.sub(<ws>, csource) with a pattern that only matches white space"""
    def ws(n):
        return isinstance(n, ast.Constant) and isinstance(n.value, str) and n.value != '' and n.value.strip(' \t\n\r\f\v') == ''
    t = u(call.func)
    if isinstance(call.func, ast.Attribute) and call.func.attr == 'replace':
        return len(call.args) == 2 and ws(call.args[0]) and ws(call.args[1])
    if t.endswith('.sub') and t[:-4] in pats and len(call.args) == 2 and ws(call.args[0]):
        rx = pats[t[:-4]]
        return all(not rx.search(c) for c in ('a', '0', '#', '/', '*', '"', '_', ';', '.')) and any(rx.search(c) for c in C_WS)
    return False


def p3(run, m, pats):
    fn = m.find('_preprocess')
    order = []
    for st in fn.body:
        for c in ast.walk(st):
            if isinstance(c, ast.Call):
                t = u(c.func)
                if _is_ws_normalisation(c, pats):
                    continue
                if t.startswith('_preprocess_') or t.startswith('_workaround_'):
                    order.append((t, st.lineno))
                    continue
                if t in ('_remove_line_directives', '_r_comment.sub', '_put_back_line_directives', '_r_define.finditer', '_r_define.sub',
                         '_preprocess_extern_python', '_r_partial_array.sub', '_r_other_whitespace.sub') or (t.startswith('_r_') and t.endswith('.sub')) or (isinstance(c.func, ast.Attribute) and c.func.attr == 'replace' and 'csource' in t):
                    order.append((t, st.lineno))
    names = [t for t, _l in order]
    run.need('_r_comment.sub' in names, '_preprocess: comment removal not found')
    ic = names.index('_r_comment.sub')
    first_rewrite = names[0] if names else None
    run.ob('P3/directives-set-aside-before-any-other-rewrite', '_preprocess', 'first rewrite: %s' % first_rewrite, first_rewrite == '_remove_line_directives', m.where(fn), str(names[:4]))
    run.ob('P3/comments-removed-before-any-other-text-is-scanned', '_preprocess', 'second rewrite: %s' % (names[1] if len(names) > 1 else None),
           len(names) > 1 and names[1] == '_r_comment.sub', m.where(fn),
           'a step that scans the text (for braces, semicolons, keywords, "...") before comments are gone sees the text inside comments: a comment can then change the result')
    run.ob('P3/directives-collected-again-after-comment-removal', '_preprocess', '_remove_line_directives after _r_comment.sub',
           '_remove_line_directives' in names[ic + 1:] and (names.index('_remove_line_directives', ic + 1) < min([i for i, t in enumerate(names) if i > ic and t != '_remove_line_directives'] or [10 ** 6])),
           m.where(fn), 'a comment in front of `# N` makes the line a directive (translation phase 3 before 4); sequence: %s' % names[ic:ic + 3])
    run.ob('P3/comments-removed-before-defines-are-read', '_preprocess', '_r_comment.sub before _r_define.finditer',
           '_r_define.finditer' in names and ic < names.index('_r_define.finditer'), m.where(fn))
    run.ob('P3/directives-put-back-last', '_preprocess', 'last rewrite: %s' % (names[-1] if names else None), bool(names) and names[-1] == '_put_back_line_directives', m.where(fn))
    rets = [n for n in ast.walk(fn) if isinstance(n, ast.Return) and m.enclosing_def(n) is fn]
    run.ob('P3/returns-source-and-macros', '_preprocess', 'return csource, macros', len(rets) == 1 and u(rets[0].value) in ('(csource, macros)', 'csource, macros'), m.where(fn))
    # the second pass leaves the markers of the first alone and appends to the same list
    rl = m.find('_remove_line_directives')
    calls = [c for c in ast.walk(fn) if isinstance(c, ast.Call) and u(c.func) == '_remove_line_directives']
    second = [c for c in calls if len(c.args) + len(c.keywords) >= 2]
    ok = bool(second) and u(second[0].args[1] if len(second[0].args) > 1 else second[0].keywords[0].value) == 'line_directives'
    run.ob('P3/second-pass-extends-the-same-list', '_preprocess', u(second[0]) if second else '?', ok, m.where(fn))


def p3b(run, m):
    """second collection pass: only the markers the first pass produced are left alone; any other line that looks
    like a directive (including a user-written `#line@N`) is collected, so that put-back can index the list"""
    fn = m.find('_remove_line_directives')
    inner = m.find('_remove_line_directives.replace')
    for text, already, want_ret, want_list in (('#line@1', 2, '#line@1', ('a', 'b')), ('#line@7', 2, '#line@2', ('a', 'b', '#line@7')),
                                               ('#line@x', 2, '#line@2', ('a', 'b', '#line@x')), ('# 5 "f"', 2, '#line@2', ('a', 'b', '# 5 "f"')),
                                               ('# 5 "f"', 0, '#line@0', ('# 5 "f"',))):
        ev = sp.Evaluator({'m.group': lambda a, k, e, f, t=text: t})
        env = {'markers': already > 0, 'already': already, 'line_directives': ('a', 'b')[:already]}
        ps = ev.run(inner, env)
        if len(ps) != 1 or not ps[0].outcome or ps[0].outcome[0] != 'return':
            raise AnalysisError('_remove_line_directives.replace: not a single return for %r' % text)
        got = (ps[0].outcome[1], ps[0].env.get('line_directives'))
        run.ob('P3/only-own-markers-are-left-alone', '_remove_line_directives.replace', '%s pass, line %r' % ('second' if already else 'first', text),
               got == (want_ret, want_list), m.where(inner), 'returns %r, list becomes %r; expected %r, %r' % (got[0], got[1], want_ret, want_list))
    # put-back indexes the list with the marker number: every marker it can meet must be below len(list)
    pb = m.find('_put_back_line_directives.replace')
    idx = [n for n in ast.walk(pb) if isinstance(n, ast.Subscript) and u(n.value) == 'line_directives']
    run.ob('P3/put-back-indexes-with-the-marker-number', '_put_back_line_directives.replace', u(idx[0]) if idx else '?', len(idx) == 1 and u(idx[0].slice) == 'int(s[6:])', m.where(pb))


def p4(run, m):
    fn = m.find('_preprocess')
    loops = [n for n in ast.walk(fn) if isinstance(n, ast.For) and '_r_define.finditer' in u(n.iter)]
    run.need(len(loops) == 1, '_preprocess: the loop over _r_define.finditer not found')
    for raw, want in ((' 1 \\\n 2 ', '1  2'), ('   12   ', '12'), (' 0x10', '0x10'), ('', ''), (' \\\n 7', '7')):
        ev = sp.Evaluator({'match.groups': lambda a, k, e, f, r=raw: ('K', r)})
        ps = ev.block(loops[0].body, {'macros': sp.Opq('macros')}, [], [])
        run.need(len(ps) == 1, '_preprocess: the #define loop body is not straight-line')
        got = ps[0].env.get('macrovalue')
        run.ob('P4/continuation-spliced-and-value-stripped', '_preprocess', '#define K%r -> %r' % (raw, want), got == want, m.where(loops[0]), 'value becomes %r' % (got,))
    st = [n for n in ast.walk(loops[0]) if isinstance(n, ast.Assign) and isinstance(n.targets[0], ast.Subscript) and u(n.targets[0].value) == 'macros']
    run.ob('P4/value-recorded-under-the-macro-name', '_preprocess', u(st[0]) if st else '?', len(st) == 1 and u(st[0].targets[0].slice) == 'macroname' and u(st[0].value) == 'macrovalue', m.where(loops[0]))


def p5(run, m, pats):
    fn = m.find('_preprocess')
    head = []
    for st in fn.body:
        if any(isinstance(c, ast.Call) and u(c.func) == '_remove_line_directives' for c in ast.walk(st)):
            break
        head.append(st)
    hooks = {}
    for name, rx in pats.items():
        hooks['%s.sub' % name] = (lambda a, k, e, f, rx=rx: rx.sub(a[0], a[1]) if len(a) == 2 and isinstance(a[0], str) and isinstance(a[1], str) else sp.Opq('sub(?)'))
    for ch in C_WS:
        src = 'int%sx;' % ch
        ev = sp.Evaluator(hooks)
        ps = ev.block(head, {'csource': src}, [], []) if head else [sp.Path({'csource': src}, [], [], None)]
        run.need(len(ps) == 1, '_preprocess: the statements before the first rewrite are not straight-line')
        got = ps[0].env.get('csource')
        ok = isinstance(got, str) and len(got) == len(src) and got[3] in PARSER_WS and got[:3] == 'int' and got[4:] == 'x;'
        run.ob('P5/every-C-whitespace-character-is-whitespace', '_preprocess', repr(ch), ok, m.where(fn),
               'int%sx; reaches the parser as %r; the parser only skips space, tab and newline' % (repr(ch)[1:-1], got))


def _emulate_collect(m, rx, text, already=()):
    """PATTERN.sub(replace, text) of _remove_line_directives, with `replace` walked symbolically on every match"""
    inner = m.find('_remove_line_directives.replace')
    lst = tuple(already)
    out, pos = [], 0
    for mm in rx.finditer(text):
        ev = sp.Evaluator({'m.group': lambda a, k, e, f, mm=mm: mm.group(*a)})
        ps = ev.run(inner, {'markers': bool(already), 'already': len(already), 'line_directives': lst})
        if len(ps) != 1 or not ps[0].outcome or ps[0].outcome[0] != 'return' or not isinstance(ps[0].outcome[1], str):
            raise AnalysisError('_remove_line_directives.replace: not a single string return for the match %r' % mm.group())
        lst = ps[0].env.get('line_directives')
        out.append(text[pos:mm.start()])
        out.append(ps[0].outcome[1])
        pos = mm.end()
    out.append(text[pos:])
    return ''.join(out), lst


def p3c(run, m, pats):
    """the first collecting pass runs on text that still has its comments: it must not take anything inside a comment for a
    directive (the comment would lose its end), and it must still take whole directive lines whose file name contains // or /*"""
    fn = m.find('_remove_line_directives')
    subs = [c for c in ast.walk(fn) if isinstance(c, ast.Call) and isinstance(c.func, ast.Attribute) and c.func.attr == 'sub' and u(c.func.value) in pats]
    run.need(len(subs) == 1 and len(subs[0].args) == 2 and u(subs[0].args[0]) == 'replace', '_remove_line_directives: expected one PATTERN.sub(replace, csource)')
    name = u(subs[0].func.value)
    rx = pats[name]
    for text, want_out, want_list, why in (
            ('/* see issue\n #12 for details */\nint x;', None, (), 'a line of a block comment that starts with #<digits>'),
            ('/* a\n#line 7 "f"\n b */ int x;', None, (), 'a line of a block comment that starts with #line'),
            ('// c \\\n# 12 "f"\nint x;', None, (), 'the continuation line of a // comment'),
            ('int a; // c\n# 5 "f"\nint b;', 'int a; // c\n#line@0\nint b;', ('# 5 "f"',), 'a directive after a line that ends in a comment'),
            ('# 1 "a/*b.h"\nint a; /* c */', '#line@0\nint a; /* c */', ('# 1 "a/*b.h"',), 'a file name that contains /*'),
            ('# 1 "http://x"\nint a;', '#line@0\nint a;', ('# 1 "http://x"',), 'a file name that contains //'),
            ('/* a */\n# 3\n/* #4 */\n  #line 9 "g"', '/* a */\n#line@0\n/* #4 */\n#line@1', ('# 3', '  #line 9 "g"'), 'directives between comments'),
            ('int x;\n#12\nint y;', 'int x;\n#line@0\nint y;', ('#12',), 'a plain directive')):
        got = _emulate_collect(m, rx, text)
        want = (text if want_out is None else want_out, want_list)
        run.ob('P3/collecting-pass-skips-comments-and-takes-whole-directive-lines', '_remove_line_directives', '%s: %r' % (why, text), got == want, m.where(subs[0]),
               'with %s the text becomes %r and the list %r; expected %r, %r' % (name, got[0], got[1], want[0], want[1]))


def p7(run, m, pats):
    """_common_type_names() sees the text with the directives put back: the words of a directive (its file name) must not count"""
    fn = m.find('_common_type_names')
    loops = [n for n in ast.walk(fn) if isinstance(n, ast.For) and isinstance(n.iter, ast.Call) and u(n.iter.func).endswith('.findall')]
    run.need(len(loops) == 1 and len(loops[0].iter.args) == 1 and isinstance(loops[0].iter.args[0], ast.Name), '_common_type_names: the loop over the words of the source not found')
    var = loops[0].iter.args[0].id
    defs = [st for st in fn.body if isinstance(st, ast.Assign) and len(st.targets) == 1 and u(st.targets[0]) == var and st.lineno < loops[0].lineno]
    ok, detail = False, 'the words are taken from the parameter as it is: `# 1 "typedef.h"` or `# 1 "a(b.h"` changes which common types count as used'
    if defs:
        v = defs[-1].value
        if isinstance(v, ast.Call) and isinstance(v.func, ast.Attribute) and v.func.attr == 'sub' and u(v.func.value) in pats and len(v.args) == 2 and \
                isinstance(v.args[0], ast.Constant) and isinstance(v.args[0].value, str) and u(v.args[1]) in (var, 'csource'):
            rx = pats[u(v.func.value)]
            rep = v.args[0].value
            left = [rx.sub(rep, t) for t in ('# 1 "typedef.h"', '#line 5 "size_t(.h"', '  # 12 "a,b;c.h"')]
            ok = all(not re.search(r'[\w();,]', x) for x in left) and re.findall(r'\w+|\S', rx.sub(rep, 'typedef int size_t;\n# 1 "x.h"\nint f(size_t);')) == re.findall(r'\w+|\S', 'typedef int size_t; int f(size_t);')
            detail = 'after %s the directive lines still contribute %r' % (u(v), left)
        else:
            detail = 'the text scanned is %s: not recognised as the source without its directive lines' % u(v)
    run.ob('P7/words-of-line-directives-are-not-uses-of-types', '_common_type_names', 'for word in %s' % u(loops[0].iter), ok, m.where(loops[0]), detail)


def _gap_samples(pat, flags):
    """from the regex AST: (pieces, gaps) lists; a piece is literal text, a gap is the index of a piece that stands for \\s* or \\s+ between two tokens"""
    import re._parser as sre
    from re._constants import LITERAL, IN, MAX_REPEAT, MIN_REPEAT, SUBPATTERN, BRANCH, AT, ANY, CATEGORY, CATEGORY_SPACE, NOT_LITERAL, RANGE, NEGATE

    def is_space_class(av):
        return len(av) == 1 and av[0][0] == CATEGORY and av[0][1] == CATEGORY_SPACE

    def expand(seq):
        """-> list of alternatives; an alternative is a list of ('t', text) / ('g',)"""
        alts = [[]]
        for op, av in seq:
            if op == LITERAL:
                new = [[('t', chr(av))]]
            elif op == NOT_LITERAL:
                new = [[('t', 'i')]]
            elif op == ANY:
                new = [[('t', 'i')], [('t', '{')]]
            elif op == AT:
                new = [[]]
            elif op == IN:
                if is_space_class(av):
                    new = [[('g',)]]
                else:
                    ch = None
                    for o2, a2 in av:
                        if o2 == LITERAL:
                            ch = chr(a2)
                            break
                        if o2 == RANGE:
                            ch = chr(a2[0])
                            break
                    if ch is None:
                        raise AnalysisError('regex sample: character class %r not handled' % (av,))
                    new = [[('t', ch)]]
            elif op in (MAX_REPEAT, MIN_REPEAT):
                lo, hi, sub = av
                subs = expand(list(sub))
                if all(len(a) == 1 and a[0] == ('g',) for a in subs):
                    new = [[('g',)]]
                else:
                    new = subs if lo <= 1 else [a * lo for a in subs]
            elif op == SUBPATTERN:
                new = expand(list(av[3]))
            elif op == BRANCH:
                new = []
                for b in av[1]:
                    new.extend(expand(list(b)))
            else:
                raise AnalysisError('regex sample: construct %s not handled' % (op,))
            alts = [a + b for a in alts for b in new]
            if len(alts) > 64:
                alts = alts[:64]
        return alts
    return expand(list(sre.parse(pat, flags)))


def p6(run, m, pats):
    """between the collecting passes and put-back, each directive is a line `#line@N` in the text.  A rewrite whose pattern allows white space
    between two tokens must allow such a line there too, or a directive inserted between these tokens changes the outcome"""
    users = {}
    for fname in ('_preprocess', '_preprocess_extern_python'):
        fn = m.find(fname)
        for c in ast.walk(fn):
            if isinstance(c, ast.Call) and isinstance(c.func, ast.Attribute) and c.func.attr in ('sub', 'search', 'finditer', 'findall', 'match') and u(c.func.value) in pats:
                users.setdefault(u(c.func.value), fname)
    skip = {'_r_comment': 'runs on the text of comments', '_r_define': 'a #define is one logical line: no directive can stand inside it',
            '_r_other_whitespace': 'single characters', '_r_line_directive': 'the directives themselves', '_r_comment_or_line_directive': 'the directives themselves'}
    n = 0
    for name in sorted(users):
        if name in skip:
            continue
        rx = pats[name]
        seen = set()
        for alt in _gap_samples(rx.pattern, rx.flags):
            texts = [x[1] if x[0] == 't' else None for x in alt]
            gaps = [i for i, x in enumerate(texts) if x is None]
            def build(fill):
                return ''.join(t if t is not None else fill.get(i, '\n') for i, t in enumerate(texts))
            clean = build({})
            mm = rx.search(' ' + clean + ' ')
            if mm is None or mm.group() != clean:
                continue            # not a faithful sample of this alternative (look-around context): no verdict from it
            for gi in gaps:
                before = ''.join(t or '' for t in texts[:gi])
                after = ''.join(t or '' for t in texts[gi + 1:])
                if before.count('"') % 2 == 1 or not before or not after:
                    continue        # inside a string literal / not between two tokens
                lt = re.findall(r'\.\.\.|\w+|\S', before)[-1]
                rt = re.findall(r'\.\.\.|\w+|\S', after)[0]
                key = '%s | %s' % (lt, rt)
                tk = r'\.\.\.|\w+|\S'
                shape = (len(re.findall(tk, before)), len(re.findall(tk, after)), gaps.index(gi))
                if shape in seen:
                    continue            # the same gap of the pattern, reached through another keyword alternative
                seen.add(shape)
                var = build({gi: '\n#line@0\n'})
                mv = rx.search(' ' + var + ' ')
                ok = mv is not None and mv.group() == var
                n += 1
                run.ob('P6/rewrites-see-a-directive-line-as-white-space', '%s (%s)' % (name, users[name]), 'between %s' % key, ok, 'src/cffi/cparser.py',
                       '%r is rewritten, %r is not (matched: %r): the same cdef with a `# N "file"` line between these two tokens fails to parse' % (clean, var, mv.group() if mv else None))
    run.need(n >= 8, 'P6: fewer token gaps than confirmed by hand (%d)' % n)


def p4b(run, pats):
    """backslash-newline is allowed between any two tokens of a #define line, not only inside the value"""
    rx = pats['_r_define']
    for text, where in (('#define \\\n A 5', 'define | NAME'), ('# \\\n define A 5', '# | define'), ('#define A \\\n 5', 'NAME | value'), ('#define A 5 \\\n', 'value | end')):
        got = [mm.groups() for mm in rx.finditer(text + '\nint x;')]
        ok = len(got) == 1 and got[0][0] == 'A' and got[0][1].replace('\\\n', '').strip() == '5'
        run.ob('P4/continuation-allowed-between-any-two-tokens-of-a-define', '_r_define', 'between %s' % where, ok, 'src/cffi/cparser.py',
               '%r is read as %r: the line is not recognised as `#define A 5`' % (text, got))


def check(run):
    run.technique = ('pipeline rules on the pre-parser: symbolic walk of the replacement helpers (Python ast, nothing of cffi executed), '
                     'denotation of the pattern constants on class representatives (standard re engine on constants read from the ast), '
                     'order-of-rewrites rules')
    m = cffi_mod('cparser')
    pats = module_patterns(m)
    p1(run, m)
    p2(run, m, pats)
    p3(run, m, pats)
    p3b(run, m)
    p3c(run, m, pats)
    p6(run, m, pats)
    p7(run, m, pats)
    p4b(run, pats)
    p4(run, m)
    p5(run, m, pats)
    run.assume('pycparser skips exactly space, tab and newline between tokens (its hand-written lexer is a dependency, not analysed); '
               'cdef sources contain no string literals outside line directives (documented restriction of cffi)')
    run.assume('decided: what the three patterns denote on the listed classes, what replaces a comment, the order of the rewrites and the white-space '
               'normalisation; not decided: byte-identity of emit_c_code() for every insertion (that quantifies over all texts)')
    for rule, k in (('P1', 5), ('P2', 30), ('P3', 21), ('P4', 10), ('P5', 6), ('P6', 8), ('P7', 1)):
        run.min_instances(rule, k)
