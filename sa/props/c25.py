"""C25 — every declared name is found by the runtime lookup of generated tables (DESIGN §3 C25).

W1 writer: every step list except 'field' is sorted by the plain entry name (no key
   transformation, not reversed) and frozen; struct/enum indices come from the same
   order; entry names are the declared names; both targets emit the lists in order.
R1 reader: search_sorted's decisions over the four abstract outcomes of one probe
   {stored < key, equal and terminated, equal but longer, stored > key} are
   {go right, found, go left, go left}; the interval update keeps left <= mid < right.
R2 each search_in_X passes name member, stride and count of the same table.
G1 generated tables of the probe corpus (names that are prefixes of one another) are
   strictly increasing in strncmp order.
"""
import ast
import re

from .. import AnalysisError, gen
from ..cast import cx, absint
from ..cast.absint import Con
from ..cast.cfg import cfg_of, stmt_text
from ..cast.loader import backend_tu
from ..pyast.index import cffi_mod, u, own_nodes


def w1(run):
    m = cffi_mod('recompiler')
    fn = m.find('Recompiler.collect_step_tables')
    sorts = [c for c in ast.walk(fn) if isinstance(c, ast.Call) and isinstance(c.func, ast.Attribute) and c.func.attr == 'sort']
    if not sorts:
        run.ob('W1/every-step-but-field-is-sorted', 'Recompiler.collect_step_tables', 'lst.sort(key=lambda entry: entry.name)',
               False, m.where(fn), 'the step lists are not sorted at all')
    for c in sorts:
        kw = {k.arg: k.value for k in c.keywords}
        key = kw.get('key')
        ok = isinstance(key, ast.Lambda) and len(key.args.args) == 1 and isinstance(key.body, ast.Attribute) and \
            isinstance(key.body.value, ast.Name) and key.body.value.id == key.args.args[0].arg and key.body.attr == 'name'
        run.ob('W1/sort-key-is-the-plain-name', 'Recompiler.collect_step_tables', u(c), ok and 'reverse' not in kw and not c.args,
               m.where(c), 'key must be `lambda e: e.name`, no reverse')
        # guarded only by step_name != "field"
        p = m.parents.get(m.parents.get(c))
        guard = u(p.test) if isinstance(p, ast.If) else None
        okg = guard in ("step_name != 'field'", '"field" != step_name', "'field' != step_name")
        loop = p
        while loop is not None and not isinstance(loop, ast.For):
            loop = m.parents.get(loop)
        okl = loop is not None and u(loop.iter) == 'self.ALL_STEPS' and u(c.func.value) == 'lst'
        src = [n for n in ast.walk(loop) if isinstance(n, ast.Assign) and u(n.targets[0]) == 'lst'] if loop else []
        okl = okl and len(src) == 1 and u(src[0].value) == 'self._lsts[step_name]'
        run.ob('W1/every-step-but-field-is-sorted', 'Recompiler.collect_step_tables', 'if %s: lst.sort(...)' % guard,
               okg and okl, m.where(c), 'loop over %s' % (u(loop.iter) if loop else None))
        froz = [n for n in ast.walk(loop) if isinstance(n, ast.Assign) and u(n.targets[0]) == 'self._lsts[step_name]'] if loop else []
        okf = len(froz) == 1 and u(froz[0].value) == 'tuple(lst)' and froz[0].lineno > c.lineno
        run.ob('W1/lists-frozen-after-sorting', 'Recompiler.collect_step_tables', 'self._lsts[step_name] = tuple(lst)', okf, m.where(c))
    # the filling happens before the sort loop
    body = fn.body
    idx = {u(s): i for i, s in enumerate(body)}
    gi = idx.get("self._generate('ctx')")
    mi = idx.get('self._add_missing_struct_unions()')
    si = [i for i, s in enumerate(body) if isinstance(s, ast.For) and any(isinstance(x, ast.Call) and isinstance(x.func, ast.Attribute) and x.func.attr == 'sort' for x in ast.walk(s))]
    run.ob('W1/tables-filled-before-sorting', 'Recompiler.collect_step_tables', "self._generate('ctx'); self._add_missing_struct_unions(); <sort loop>",
           gi is not None and mi is not None and si and gi < si[0] and mi < si[0], m.where(fn))
    # ALL_STEPS literal
    cls = m.find('Recompiler')
    steps = None
    for st in cls.body:
        if isinstance(st, ast.Assign) and u(st.targets[0]) == 'ALL_STEPS':
            steps = ast.literal_eval(st.value)
    run.ob('W1/all-steps-cover-the-searched-tables', 'Recompiler', 'ALL_STEPS', steps is not None and
           {'global', 'struct_union', 'enum', 'typename'} <= set(steps), m.where(cls), str(steps))
    # struct/enum numbering uses the same order
    ctt = m.find('Recompiler.collect_type_table')
    for attr in ('_struct_unions', '_enums'):
        srt = [c for c in ast.walk(ctt) if isinstance(c, ast.Call) and u(c.func) == 'sorted' and c.args and u(c.args[0]) == 'self.%s' % attr]
        ok = len(srt) == 1
        if ok:
            kw = {k.arg: k.value for k in srt[0].keywords}
            key = kw.get('key')
            ok = isinstance(key, ast.Lambda) and isinstance(key.body, ast.Attribute) and key.body.attr == 'name' and \
                isinstance(key.body.value, ast.Name) and key.body.value.id == key.args.args[0].arg and 'reverse' not in kw
            par = m.parents.get(srt[0])
            ok = ok and isinstance(par, ast.Call) and u(par.func) == 'enumerate'
        run.ob('W1/index-numbering-uses-name-order', 'Recompiler.collect_type_table', 'enumerate(sorted(self.%s, key=lambda tp: tp.name))' % attr,
               ok, m.where(ctt))
    # entry names are the declared names
    EXPECT = {'TypenameExpr': 'name', 'StructUnionExpr': 'tp.name', 'EnumExpr': 'tp.name', 'GlobalExpr': None}
    n = 0
    for qn, f in m.defs.items():
        if not isinstance(f, ast.FunctionDef) or not qn.startswith('Recompiler.'):
            continue
        for c in ast.walk(f):
            if isinstance(c, ast.Call) and isinstance(c.func, ast.Attribute) and c.func.attr == 'append' and \
                    u(c.func.value).startswith('self._lsts['):
                step = ast.literal_eval(c.func.value.slice) if isinstance(c.func.value, ast.Subscript) else None
                arg = c.args[0]
                run.need(isinstance(arg, ast.Call), 'append to _lsts of a non-constructor value in %s' % qn)
                ctor = u(arg.func)
                first = u(arg.args[0]) if arg.args else None
                want = EXPECT.get(ctor)
                if ctor == 'GlobalExpr':
                    ok = first in ('name', 'enumerator')
                else:
                    ok = want is not None and first == want
                pairs = {'typename': 'TypenameExpr', 'struct_union': 'StructUnionExpr', 'enum': 'EnumExpr', 'global': 'GlobalExpr'}
                ok = ok and pairs.get(step) == ctor
                n += 1
                run.ob('W1/entry-carries-the-declared-name', qn, "self._lsts[%r].append(%s(%s, ...))" % (step, ctor, first), ok, m.where(c))
    run.need(n >= 8, 'expected >= 8 appends to self._lsts, found %d' % n)
    # emission keeps list order in both targets
    for qn in ('Recompiler.write_c_source_to_f', 'Recompiler.write_py_source_to_f'):
        f = m.find(qn)
        uses = [x for x in ast.walk(f) if isinstance(x, ast.Subscript) and u(x.value) == 'self._lsts']
        ok = bool(uses)
        bad = [u(c) for c in ast.walk(f) if isinstance(c, ast.Call) and u(c.func) in ('sorted', 'reversed', 'set') and
               any('lst' == u(a) or '_lsts' in u(a) for a in c.args)]
        bad += [u(c) for c in ast.walk(f) if isinstance(c, ast.Call) and isinstance(c.func, ast.Attribute) and
                c.func.attr in ('sort', 'reverse') and u(c.func.value) in ('lst',)]
        run.ob('W1/emission-keeps-list-order', qn, 'for entry in self._lsts[step_name]', ok and not bad, m.where(f), str(bad))


def r1(run, tu):
    fname = 'search_sorted'
    g = cfg_of(tu, fname)
    fn = tu.func(fname)
    actions = {}
    for n in g.nodes:
        if n.ast is None:
            continue
        if n.kind == 'return':
            v = stmt_text(n.ast)
            actions[n.id] = 'found' if v == 'return middle' else ('notfound' if v == 'return -1' else 'other:' + v)
        elif n.kind == 'stmt' and n.ast.get('kind') != 'DeclStmt':
            for l, r, op, x in cx.assignments(n.ast):
                if cx.lhs_text(l) == 'right':
                    actions[n.id] = 'go-left'
                elif cx.lhs_text(l) == 'left':
                    actions[n.id] = 'go-right'
    run.need(set(actions.values()) >= {'found', 'notfound', 'go-left', 'go-right'}, 'search_sorted: actions not recognised: %s' % actions)
    run.ob('R1/no-other-exit', fname, 'returns are `middle` or -1', not any(a.startswith('other') for a in actions.values()), tu.where(fn), str(actions))
    cases = [('stored < key', -3, 65, 'go-right'), ('stored < key (stored ends)', -3, 0, 'go-right'),
             ('equal and terminated', 0, 0, 'found'), ('equal but stored is longer', 0, 65, 'go-left'),
             ('stored > key', 4, 65, 'go-left'), ('stored > key (byte 0)', 4, 0, 'go-left')]
    for label, diff, term, want in cases:
        hooks = {'strncmp': lambda args, node, d=diff: Con(d, 32, True)}
        env = {'src[search_len]': Con(term, 8, True)}
        it = absint.Interp(g, env, hooks, const_vars=set(env)).run()
        # which per-iteration actions are reachable for this abstract outcome
        got = sorted({a for nid, a in actions.items() if nid in it.in_state and a != 'notfound'})
        run.ob('R1/decision-for-abstract-outcome', fname, '%s -> %s' % (label, want), got == [want], tu.where(fn),
               'reachable actions with strncmp()=%d, src[len]=%d: %s' % (diff, term, got))
    # interval arithmetic: left <= middle < right, and the updates shrink the interval
    it = absint.Interp(g, {})
    mids = [r for l, r, op, _x in cx.assignments(fn) if cx.lhs_text(l) == 'middle']
    run.need(len(mids) == 1, 'middle is assigned %d times' % len(mids))
    ok = True
    for lft in range(0, 9):
        for rgt in range(lft + 1, 12):
            v = it.ev(mids[0], {'left': Con(lft), 'right': Con(rgt)})
            if not (isinstance(v, Con) and lft <= v.v < rgt):
                ok = False
    run.ob('R1/probe-index-inside-interval', fname, 'middle = %s' % cx.render(mids[0]), ok, tu.where(mids[0]),
           'left <= middle < right must hold for all 0 <= left < right < 12')
    for l, r, op, x in cx.assignments(fn):
        name = cx.lhs_text(l)
        if name in ('left', 'right') and op == '=':
            v = it.ev(r, {'middle': Con(5)})
            want = 6 if name == 'left' else 5
            run.ob('R1/interval-update', fname, '%s = %s' % (name, cx.render(r)), isinstance(v, Con) and v.v == want, tu.where(x),
                   'with middle=5 evaluates to %s, want %d' % (v, want))
    inits = {d['name']: cx.render(cx.kids(d)[-1]) for d in cx.walk(fn) if d.get('kind') == 'VarDecl' and d.get('init') and d['name'] in ('left', 'right')}
    run.ob('R1/initial-interval-is-whole-table', fname, 'left = 0, right = array_len', inits == {'left': '0', 'right': 'array_len'}, tu.where(fn), str(inits))
    loops = [cx.render(n.ast) for n in g.nodes if n.kind == 'cond' and 'left' in cx.refs(n.ast) and 'right' in cx.refs(n.ast)]
    run.ob('R1/loop-until-interval-empty', fname, 'while (left < right)', loops == ['left < right'], tu.where(fn), str(loops))
    # element fetch: base + middle * item_size, comparison over search_len bytes of `search`
    srcdef = [cx.render(cx.kids(d)[-1]) for d in cx.walk(fn) if d.get('kind') == 'VarDecl' and d.get('name') == 'src' and d.get('init')]
    run.ob('R1/element-address', fname, 'src = *(baseptr + middle * item_size)', srcdef == ['*(baseptr + middle * item_size)'], tu.where(fn), str(srcdef))
    cmpc = cx.calls_in(fn, 'strncmp')
    run.ob('R1/compares-key-prefix', fname, 'strncmp(src, search, search_len)', len(cmpc) == 1 and
           [cx.render(a) for a in cx.call_args(cmpc[0])] == ['src', 'search', 'search_len'], tu.where(fn))


def r2(run, tu):
    n = 0
    for fname in sorted(tu.functions):
        if not fname.startswith('search_in_') or not tu.has_func(fname):
            continue
        field = fname[len('search_in_'):]
        c = cx.calls_in(tu.func(fname), 'search_sorted')
        run.need(len(c) == 1, '%s does not call search_sorted once' % fname)
        a = [cx.render(x) for x in cx.call_args(c[0])]
        want = ['&ctx->%s->name' % field, 'sizeof(*ctx->%s)' % field, 'ctx->num_%s' % field, 'search', 'search_len']
        # sizeof renders with the type; compare loosely on the expression inside
        szok = 'sizeof' in a[1]
        sznode = cx.call_args(c[0])[1]
        inner = [cx.render(k) for y in cx.walk(sznode) if y.get('kind') == 'UnaryExprOrTypeTraitExpr' for k in cx.kids(y)]
        ok = a[0] == want[0] and a[2] == want[2] and a[3:] == want[3:] and szok and inner == ['*ctx->%s' % field]
        run.ob('R2/lookup-uses-one-table-consistently', fname, 'search_sorted(%s)' % ', '.join(a), ok, tu.where(c[0]),
               'stride operand: %s' % inner)
        n += 1
    run.need(n == 4, 'expected 4 search_in_* functions, found %d' % n)


def strncmp_key(s):
    return s.encode('utf8')


def g1(run, thorough):
    texts = gen.generated()
    n = 0
    for probe in gen.api_probes():
        t = texts[probe]
        for table, pat in (('_cffi_globals', r'static const struct _cffi_global_s _cffi_globals\[\] = \{(.*?)\n\};'),
                           ('_cffi_struct_unions', r'static const struct _cffi_struct_union_s _cffi_struct_unions\[\] = \{(.*?)\n\};'),
                           ('_cffi_enums', r'static const struct _cffi_enum_s _cffi_enums\[\] = \{(.*?)\n\};'),
                           ('_cffi_typenames', r'static const struct _cffi_typename_s _cffi_typenames\[\] = \{(.*?)\n\};')):
            mm = re.search(pat, t, re.S)
            if not mm:
                continue
            names = re.findall(r'^\s*\{\s*"([^"]*)"', mm.group(1), re.M)
            if not names:
                continue
            ks = [strncmp_key(x) for x in names]
            ok = all(ks[i] < ks[i + 1] for i in range(len(ks) - 1))
            n += 1
            run.ob('G1/generated-table-strictly-increasing', '%s:%s' % (probe, table), '%d names' % len(names), ok, None,
                   None if ok else str(names))
    for probe in gen.abi_probes():
        tree = ast.parse(texts[probe])
        for node in ast.walk(tree):
            if isinstance(node, ast.keyword) and node.arg in ('_globals', '_struct_unions', '_enums', '_typenames'):
                val = ast.literal_eval(node.value)
                names = []
                for e in val:
                    if node.arg == '_globals':
                        if isinstance(e, bytes):
                            names.append(e[4:])
                    elif node.arg == '_struct_unions':
                        names.append(e[0][8:])
                    elif node.arg == '_enums':
                        names.append(e[8:].split(b'\0')[0])
                    else:
                        names.append(e[4:])
                ok = all(names[i] < names[i + 1] for i in range(len(names) - 1))
                n += 1
                run.ob('G1/generated-table-strictly-increasing', '%s:%s' % (probe, node.arg), '%d names' % len(names), ok, None,
                       None if ok else str(names))
    run.need(n >= 12, 'expected >= 12 generated tables in the corpus, found %d' % n)


def check(run):
    run.explanation = (
        'Writer/reader agreement for the sorted name tables. Writer (ast of recompiler.py): every step list except '
        '`field` is sorted with key `entry.name` (no transformation, no reverse) after all filling and then frozen, '
        'struct/enum indices are numbered in the same order, entries carry the declared name, emission keeps list '
        'order. Reader (clang CFG of search_sorted, constant propagation): for each of the four abstract outcomes of '
        'one probe exactly the right action is reachable, the probe index stays inside the interval, updates are '
        'middle / middle+1, the four search_in_* wrappers pass one table consistently. Generated tables of the probe '
        'corpus (with names that are prefixes of one another) are strictly increasing in byte order.')
    tu = backend_tu()
    w1(run)
    r1(run, tu)
    r2(run, tu)
    g1(run, run.tier == 'thorough')
    from . import c08
    c08.n6(run, tu, prefix='R3')     # the key a struct/union/enum is looked up with (shared with C08)
    run.min_instances('W1', 15)
    run.min_instances('R1/decision-for-abstract-outcome', 6)
    run.min_instances('R2', 4)
    run.assume('declared names are ASCII C identifiers (pycparser lexer), so Python str order equals strncmp byte order')
    run.assume('distinct names within one table (C namespaces; the generator asserts index consistency)')
