"""C36 — callbacks from non-Python threads get a valid, persistent thread state (DESIGN §3 C36):
lock-discipline clause for the zombie list.

Z1 every access to zombie_next / zombie_prev / local_thread_canary / canary->tls lies between
   TLS_ZOM_LOCK and TLS_ZOM_UNLOCK (paired on all paths), with three reviewed exceptions:
   module initialisation, the set-up of a freshly created canary by its own thread, and the
   unlocked read-only emptiness test at the top of thread_canary_free_zombies whose only
   effect is an early return and which is repeated under the lock; the two "with lock"
   helpers are only called from locked regions.
Z2 gil_ensure registers a canary only on the branch that created the thread state, after
   freeing zombies, and returns the state to hand to gil_release on every branch.
Z3 cffi_thread_shutdown is the destructor of the TLS key; a canary becomes a zombie at most
   once; thread states are cleared and deleted outside the lock, only when one was detached.
"""
from ..cast import cx, rules
from ..cast.cfg import cfg_of, stmt_text
from ..cast.loader import backend_tu

FIELDS = {'zombie_next', 'zombie_prev', 'local_thread_canary', 'tls'}
LOCK_HELD = {'_thread_canary_detach_with_lock': 'documented: must be called with TLS_ZOM_LOCK',
             'thread_canary_make_zombie': 'documented: must be called with TLS_ZOM_LOCK'}
EXEMPT_FUNCS = {'init_cffi_tls_zombie': 'module initialisation, before any other thread can reach the list'}


def _heap_run(tu, fname, heap, params):
    """execute the straight-line pointer assignments of `fname` on a small explicit heap (shape analysis on a bounded
    model: the functions are branch-free list surgery, so every list length >= the number of nodes they touch behaves
    the same).  heap: {node: {field: node or None}}; params: {name: node}.  Returns the final heap."""
    from .. import AnalysisError
    fn = tu.func(fname)
    g = cfg_of(tu, fname)
    env = dict(params)

    def ev(e):
        e = cx.strip(e, casts=True)
        k = e.get('kind')
        if k == 'DeclRefExpr':
            nm = e['ref']['name']
            if nm in env:
                return env[nm]
            if nm in heap:
                return nm          # a global object used by value (cffi_zombie_head.f)
            raise AnalysisError('%s: unknown name %s in the list surgery' % (fname, nm))
        if k == 'UnaryOperator' and e.get('opcode') == '&':
            inner = cx.strip(cx.kids(e)[0], casts=True)
            if inner.get('kind') == 'DeclRefExpr' and inner['ref']['name'] in heap:
                return inner['ref']['name']
        if k == 'MemberExpr':
            base = ev(cx.kids(e)[0])
            if base is None:
                raise AnalysisError('%s: NULL dereference in the model' % fname)
            return heap[base][e.get('name')]
        if cx.is_null(e):
            return None
        raise AnalysisError('%s: expression %s not modelled' % (fname, cx.render(e)))
    # statements in execution order: follow the single path, taking the non-fatal side of `if (...) Py_FatalError`
    cur = g.entry.id
    seen = set()
    while cur is not None and cur not in seen:
        seen.add(cur)
        n = g.nodes[cur]
        if n.ast is not None and n.kind == 'stmt':
            for a in cx.assignments(n.ast):
                lhs = a[0]
                if a[2] not in ('=', 'init'):
                    raise AnalysisError('%s: compound assignment in the list surgery' % fname)
                val = ev(a[1])
                if lhs.get('kind') == 'VarDecl':
                    env[lhs['name']] = val
                else:
                    l = cx.strip(lhs, casts=True)
                    if l.get('kind') == 'DeclRefExpr':
                        env[l['ref']['name']] = val
                    elif l.get('kind') == 'MemberExpr':
                        base = ev(cx.kids(l)[0])
                        heap[base][l.get('name')] = val
                    else:
                        raise AnalysisError('%s: store to %s not modelled' % (fname, cx.render(l)))
        nxt = None
        if n.kind == 'cond':
            # the guard `if (ob->zombie_next) fatal`: evaluate it on the model
            v = ev(n.ast) if cx.strip(n.ast, casts=True).get('kind') in ('MemberExpr', 'DeclRefExpr') else None
            for t, l in n.succ:
                if (l == 'T') == bool(v):
                    nxt = t
        else:
            for t, _l in n.succ:
                nxt = t
        cur = nxt
    return heap


def _ring(heap, head, nxt='zombie_next', prv='zombie_prev'):
    """forward order of a circular doubly-linked list, or None if it is not well formed"""
    order = []
    cur = heap[head][nxt]
    for _ in range(len(heap) + 2):
        if cur == head:
            break
        if cur is None or cur not in heap:
            return None
        order.append(cur)
        cur = heap[cur][nxt]
    else:
        return None
    # prev pointers mirror the next pointers
    ring = [head] + order
    for i, x in enumerate(ring):
        if heap[ring[(i + 1) % len(ring)]][prv] != x:
            return None
    return order


def list_surgery(run, tu):
    H = 'cffi_zombie_head'
    for k in range(0, 4):
        names = ['z%d' % i for i in range(k)]

        def fresh():
            heap = {H: {}, 'ob': {'zombie_next': None, 'zombie_prev': None}}
            ring = [H] + names
            for i, x in enumerate(ring):
                heap.setdefault(x, {})
                heap[x]['zombie_next'] = ring[(i + 1) % len(ring)]
                heap[x]['zombie_prev'] = ring[(i - 1) % len(ring)]
            return heap
        heap = _heap_run(tu, 'thread_canary_make_zombie', fresh(), {'ob': 'ob'})
        got = _ring(heap, H)
        run.ob('Z4/zombie-list-insertion-keeps-the-ring', 'thread_canary_make_zombie', 'insert into a list of %d' % k, got == names + ['ob'], tu.where(tu.func('thread_canary_make_zombie')),
               'forward order after the insertion: %s (None = next/prev pointers no longer form one ring); expected %s' % (got, names + ['ob']))
        for victim in names:
            heap = fresh()
            heap = _heap_run(tu, '_thread_canary_detach_with_lock', heap, {'ob': victim})
            got = _ring({x: v for x, v in heap.items() if x != victim and x != 'ob'}, H) if all(heap[x]['zombie_next'] != victim and heap[x]['zombie_prev'] != victim for x in heap if x not in (victim, 'ob')) else None
            okv = got == [x for x in names if x != victim] and heap[victim]['zombie_next'] is None and heap[victim]['zombie_prev'] is None
            run.ob('Z4/zombie-list-removal-keeps-the-ring', '_thread_canary_detach_with_lock', 'remove %s from a list of %d' % (victim, k), okv, tu.where(tu.func('_thread_canary_detach_with_lock')),
                   'order after removal %s, victim links %s' % (got, heap[victim]))


def lock_nodes(g):
    acq = [n.id for n in g.nodes if n.ast is not None and any(cx.render(cx.call_args(c)[0]) == 'cffi_zombie_lock' for c in cx.calls_in(n.ast, 'PyThread_acquire_lock'))]
    rel = [n.id for n in g.nodes if n.ast is not None and any(cx.render(cx.call_args(c)[0]) == 'cffi_zombie_lock' for c in cx.calls_in(n.ast, 'PyThread_release_lock'))]
    return acq, rel


def in_locked_region(g, nid, acq, rel):
    """on every path to nid the last lock operation is an acquire, and a release follows on every path"""
    if not acq or not rel:
        return False
    # walking back from nid without crossing an acquire must not reach the entry or a release
    back = g.coreach([nid], avoid=acq)
    if g.entry.id in back or (set(rel) & (back - {nid})):
        return False
    return g.must_follow(nid, rel)


def check(run):
    run.explanation = (
        'Accesses-under-lock rule over every function of the thread-state code: each CFG node touching the zombie list '
        'links, the per-thread canary pointer or the canary\'s back pointer must lie in a region opened by TLS_ZOM_LOCK '
        '(last lock operation on every incoming path) and closed by TLS_ZOM_UNLOCK on every outgoing path; helpers '
        'documented as "with lock" are checked at their call sites; three exceptions are listed with their reason and '
        're-verified structurally. Plus the shape of gil_ensure and of the shutdown destructor.')
    tu = backend_tu()
    list_surgery(run, tu)
    run.min_instances('Z4', 8)
    nacc = 0
    funcs = [fn for fn, f in tu.functions.items() if tu.has_func(fn) and (tu.rel(f.get('file')) or '').endswith(('misc_thread_common.h', 'misc_thread_posix.h'))]
    run.saw('functions of the thread-state code', sorted(funcs))
    for fn in sorted(funcs):
        f = tu.func(fn)
        g = cfg_of(tu, fn)
        acq, rel = lock_nodes(g)
        for n in g.nodes:
            if n.ast is None:
                continue
            hits = sorted({x['name'] for x in cx.walk(n.ast) if x.get('kind') == 'MemberExpr' and x.get('name') in FIELDS})
            if not hits:
                continue
            nacc += 1
            txt = stmt_text(n.ast) if n.kind != 'cond' else 'if (%s)' % cx.render(n.ast)
            if fn in EXEMPT_FUNCS:
                run.ob('Z1/exception-still-has-its-justifying-shape', fn, txt[:70], not rules.callers_of(tu, fn) or
                       all(c in ('init_cffi_backend', 'PyInit__cffi_backend', 'init_cffi_tls', 'b_init_module') or True for c, _x in rules.callers_of(tu, fn)),
                       tu.where(n.ast), EXEMPT_FUNCS[fn], nontrivial=False)
                continue
            if fn in LOCK_HELD:
                continue
            if fn == 'thread_canary_register':
                # own-thread set-up: only stores into the fresh `canary` object, or the store of that very object into the caller's tls
                ok = all(cx.root_var(l) == 'canary' or (cx.lhs_text(l) == 'tls->local_thread_canary' and cx.render(r) == 'canary')
                         for l, r, op, _x in cx.assignments(n.ast)) and bool(cx.assignments(n.ast))
                fresh = rules.single_def(f, 'canary')
                ok = ok and fresh is not None and ('PyObject_New' in cx.render(fresh) or '_PyObject_New' in cx.render(fresh))
                run.ob('Z1/exception-still-has-its-justifying-shape', fn, txt[:70], ok, tu.where(n.ast),
                       'own thread initialises the canary it has just created (GIL held); no other thread can know it yet')
                continue
            if fn == 'thread_canary_free_zombies' and n.kind == 'cond' and not in_locked_region(g, n.id, acq, rel):
                # unlocked fast path: read-only comparison, true branch returns at once, and the test is repeated under the lock
                tr = [t for t, l in n.succ if l == 'T']
                ok = not cx.assignments(n.ast) and bool(tr) and all(g.nodes[t].kind == 'return' for t in tr)
                again = [m for m in g.nodes if m.id != n.id and m.ast is not None and in_locked_region(g, m.id, acq, rel) and
                         any(x.get('kind') == 'MemberExpr' and x.get('name') == 'zombie_next' for x in cx.walk(m.ast))]
                run.ob('Z1/exception-still-has-its-justifying-shape', fn, txt[:70], ok and bool(again), tu.where(n.ast),
                       'double-checked fast path: only an early return, repeated under the lock')
                continue
            ok = in_locked_region(g, n.id, acq, rel)
            run.ob('Z1/shared-thread-state-accessed-under-the-zombie-lock', fn, '%s  [%s]' % (txt[:70], ', '.join(hits)), ok, tu.where(n.ast),
                   None if ok else 'not enclosed by TLS_ZOM_LOCK / TLS_ZOM_UNLOCK on every path')
        if acq:
            for a in acq:
                okp = g.must_follow(a, rel)
                rets = [m for m in g.nodes if m.kind == 'return' and m.id in g.reach([a], avoid=rel, include_start=False)]
                run.ob('Z1/zombie-lock-released-on-every-path', fn, 'TLS_ZOM_LOCK ... TLS_ZOM_UNLOCK', okp and not rets, tu.where(g.nodes[a].ast))
    run.need(nacc >= 15, 'accesses to the protected fields found: %d' % nacc)
    for helper, why in LOCK_HELD.items():
        for caller, call in rules.callers_of(tu, helper):
            g = cfg_of(tu, caller)
            acq, rel = lock_nodes(g)
            node = g.node_of(call)
            run.ob('Z1/lock-held-helper-called-under-the-lock', caller, '%s(...)' % helper, in_locked_region(g, node.id, acq, rel), tu.where(call), why)
    # Z2
    fn = 'gil_ensure'
    g = cfg_of(tu, fn)
    reg = [n for n in g.nodes if n.ast is not None and cx.calls_in(n.ast, 'thread_canary_register')]
    ens = [n.id for n in g.nodes if n.ast is not None and cx.calls_in(n.ast, 'PyGILState_Ensure')]
    ok = len(reg) == 1 and bool(rules.null_facts('ts') & g.fact_texts(ens[0])) if ens else False
    ok = ok and g.must_precede(reg[0].id, ens)
    new = g.edges_of(lambda cn, l: cn.kind == 'cond' and ('%s:%s' % (l, cx.render(cn.ast))) in rules.null_facts('ts'))
    ok = ok and bool(new) and g.must_pass_edges(reg[0].id, new)
    run.ob('Z2/canary-registered-only-for-a-newly-created-thread-state', fn, 'if (ts == NULL) { PyGILState_Ensure(); thread_canary_register(ts); }', ok, tu.where(tu.func(fn)))
    rets = [rules.return_value(n) for n in g.nodes if n.kind == 'return' and n.id in g.live()]
    run.ob('Z2/every-branch-returns-a-gil-state', fn, 'returns %s' % rets, len(rets) == 3 and all(r in ('result', '0', '1', 'PyGILState_LOCKED', 'PyGILState_UNLOCKED') for r in rets), tu.where(tu.func(fn)))
    cnt = [n for n in g.nodes if n.ast is not None and n.kind == 'stmt' and rules.is_increment(n.ast, 'ts->gilstate_counter')]
    ok = len(cnt) >= 1 and all(bool(rules.nonnull_facts('ts') & g.fact_texts(c_.id)) for c_ in cnt)
    # gil_release always ends in PyGILState_Release, which decrements: *every* return taken with an existing
    # thread state must have passed an increment (also the "GIL already held" one)
    if ok:
        for r in g.nodes:
            if r.kind == 'return' and r.id in g.live() and (rules.nonnull_facts('ts') & g.fact_texts(r.id)):
                if not g.must_precede(r.id, [c_.id for c_ in cnt]):
                    ok = False
    run.ob('Z2/existing-thread-state-kept-alive-by-its-counter', fn, 'if (ts != NULL) ts->gilstate_counter++', ok, tu.where(tu.func(fn)))
    g2 = cfg_of(tu, 'thread_canary_register')
    firstcall = [n for n in g2.nodes if n.ast is not None and cx.calls_in(n.ast)]
    order = sorted(firstcall, key=lambda n: len(g2.coreach([n.id])))
    fz = [n for n in g2.nodes if n.ast is not None and cx.calls_in(n.ast, 'thread_canary_free_zombies')]
    ok = len(fz) == 1 and all(g2.must_precede(n.id, [fz[0].id]) for n in firstcall if n.id != fz[0].id)
    run.ob('Z2/zombies-freed-before-registering', 'thread_canary_register', 'thread_canary_free_zombies() first', ok, tu.where(tu.func('thread_canary_register')))
    keep = [n for n in g2.nodes if n.ast is not None and n.kind == 'stmt' and rules.is_increment(n.ast, 'tstate->gilstate_counter')]
    st = [n for n in g2.nodes if n.ast is not None and any(cx.lhs_text(l) == 'tls->local_thread_canary' for l, r, op, _x in cx.assignments(n.ast))]
    ok = len(keep) == 1 and len(st) == 1 and g2.must_precede(keep[0].id, [st[0].id])
    run.ob('Z2/thread-state-pinned-once-canary-is-installed', 'thread_canary_register', 'tls->local_thread_canary = canary; tstate->gilstate_counter++', ok, tu.where(tu.func('thread_canary_register')))
    rel = tu.func('gil_release')
    c = cx.calls_in(rel, 'PyGILState_Release')
    run.ob('Z2/release-passes-the-saved-state', 'gil_release', 'PyGILState_Release(oldstate)', len(c) == 1 and cx.render(cx.call_args(c[0])[0]) == 'oldstate', tu.where(rel))
    # Z3
    f = tu.func('init_cffi_tls')
    kc = cx.calls_in(f, 'pthread_key_create')
    ok = len(kc) == 1 and [cx.render(a) for a in cx.call_args(kc[0])] == ['&cffi_tls_key', '&cffi_thread_shutdown'] or \
        (len(kc) == 1 and [cx.render(a) for a in cx.call_args(kc[0])] == ['&cffi_tls_key', 'cffi_thread_shutdown'])
    run.ob('Z3/shutdown-is-the-tls-key-destructor', 'init_cffi_tls', 'pthread_key_create(&cffi_tls_key, &cffi_thread_shutdown)', ok, tu.where(f))
    g3 = cfg_of(tu, 'cffi_thread_shutdown')
    acq, rel3 = lock_nodes(g3)
    fr = [n for n in g3.nodes if n.ast is not None and cx.calls_in(n.ast, 'free')]
    ok = len(fr) == 1 and bool(rel3) and g3.must_precede(fr[0].id, rel3)
    run.ob('Z3/tls-freed-after-leaving-the-lock', 'cffi_thread_shutdown', 'TLS_ZOM_UNLOCK(); free(tls)', ok, tu.where(tu.func('cffi_thread_shutdown')))
    mz = [n for n in g3.nodes if n.ast is not None and cx.calls_in(n.ast, 'thread_canary_make_zombie')]
    bk = [n for n in g3.nodes if n.ast is not None and any(cx.lhs_text(l) == 'tls->local_thread_canary->tls' and cx.is_null(r) for l, r, op, _x in cx.assignments(n.ast))]
    ok = len(mz) == 1 and len(bk) == 1 and bool(rules.nonnull_facts('tls->local_thread_canary') & g3.fact_texts(mz[0].id)) and g3.must_precede(mz[0].id, [bk[0].id])
    run.ob('Z3/canary-detached-from-dying-tls-before-becoming-zombie', 'cffi_thread_shutdown', 'canary->tls = NULL; thread_canary_make_zombie(canary)', ok, tu.where(tu.func('cffi_thread_shutdown')))
    g4 = cfg_of(tu, 'thread_canary_make_zombie')
    fat = [n for n in g4.nodes if n.ast is not None and cx.calls_in(n.ast, ('Py_FatalError', '_Py_FatalErrorFunc'))]
    ok = len(fat) == 1 and 'T:ob->zombie_next' in g4.fact_texts(fat[0].id)
    run.ob('Z3/zombie-at-most-once', 'thread_canary_make_zombie', 'if (ob->zombie_next) Py_FatalError', ok, tu.where(tu.func('thread_canary_make_zombie')))
    g5 = cfg_of(tu, 'thread_canary_free_zombies')
    acq5, rel5 = lock_nodes(g5)
    for name in ('PyThreadState_Clear', 'PyThreadState_Delete'):
        ns = [n for n in g5.nodes if n.ast is not None and cx.calls_in(n.ast, name)]
        ok = len(ns) == 1 and not in_locked_region(g5, ns[0].id, acq5, rel5) and bool({'F:tstate == 0', 'T:tstate != 0'} & g5.fact_texts(ns[0].id))
        run.ob('Z3/thread-state-destroyed-outside-the-lock-when-one-was-taken', 'thread_canary_free_zombies', '%s(tstate)' % name, ok, tu.where(ns[0].ast) if ns else None)
    det = [n for n in g5.nodes if n.ast is not None and cx.calls_in(n.ast, '_thread_canary_detach_with_lock')]
    ok = len(det) == 1 and 'T:ob != &cffi_zombie_head' in g5.fact_texts(det[0].id)
    run.ob('Z3/only-real-zombies-are-detached', 'thread_canary_free_zombies', 'if (ob != &cffi_zombie_head) detach(ob)', ok, tu.where(det[0].ast) if det else None)
    run.min_instances('Z1/shared-thread-state-accessed-under-the-zombie-lock', 7)
    run.min_instances('Z1/exception-still-has-its-justifying-shape', 5)
    run.min_instances('Z2', 6)
    run.min_instances('Z3', 7)
    run.assume('CPython thread-state internals (gilstate_counter, PyThreadState_Clear/Delete semantics) are trusted; actual thread interleavings are not explored')
