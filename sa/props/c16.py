"""C16 — array/pointer indexing, slicing and arithmetic follow the C model (DESIGN §3 C16):
bounds-guard and error-class clauses.

I1 _cdata_get_indexed_ptr: every path to the address computation through the array
   class passes `i < 0` false and `i >= length` false; through the owning-pointer
   class passes `i != 0` false; each rejecting exit raises IndexError; the index
   conversion maps overflow to IndexError.
I2 _cdata_getslicearg: paths to `bounds[..] =` pass start <= stop, no step, and for
   arrays 0 <= start, stop <= length; every failing exit leaves IndexError (or the
   documented TypeError for non-indexable types) -- including the exits taken when
   converting start/stop fails.
I3 cdata_ass_slice: fast paths require equal length; the iterator path raises
   ValueError on fewer and on more items.
I4 the subscript functions obtain every address from the two guarded helpers.
I5 direct_typeoffsetof integer branch: multiplication checked for overflow before return.
"""
from ..cast import cx, rules
from ..cast.cfg import cfg_of, stmt_text
from ..cast.loader import backend_tu


def setter_classes(g, node_ids=None):
    out = {}
    for n in g.nodes:
        if n.ast is None or (node_ids is not None and n.id not in node_ids):
            continue
        for c in cx.calls_in(n.ast, ('PyErr_Format', 'PyErr_SetString', 'PyErr_SetObject')):
            out[n.id] = rules.exc_class_of(c)
    return out


def i1(run, tu):
    fn = '_cdata_get_indexed_ptr'
    g = cfg_of(tu, fn)
    F = rules.macro_flags(tu, 'CT_')
    rets = [n for n in g.nodes if n.kind == 'return' and n.id in g.live() and not cx.is_null(cx.kids(n.ast)[0])]
    run.need(len(rets) == 1, '%s: expected exactly one address-computing return' % fn)
    r = rets[0]
    txt = stmt_text(r.ast)
    run.ob('I1/address-is-base-plus-index-times-itemsize', fn, txt, txt.replace(' ', '') in (
        'returncd->c_data+i*cffi_get_size(cd->c_type->ct_itemdescr)', 'returncd->c_data+i*cd->c_type->ct_itemdescr->ct_size'), tu.where(r.ast))
    # class edges
    def class_edges(mask):
        out = []
        for n, t, l in g.cond_edges():
            if n.kind == 'cond' and l == 'T':
                ff = rules.flag_facts(g, [(n, 'T')], 'cd->c_type->ct_flags')
                if ff.get(mask) == 'T':
                    out.append((n.id, t, l))
        return out
    arr = class_edges(F['CT_ARRAY'])
    ptr = class_edges(F['CT_POINTER'])
    run.need(len(arr) == 1 and len(ptr) == 1, '%s: array/pointer class tests not found' % fn)
    for label, cond_text, start in (('array: i >= 0', 'i < 0', arr[0][1]), ('array: i < length', 'i >= get_array_length(cd)', arr[0][1])):
        pas = g.edges_of(lambda cn, lab, ct=cond_text: cn.kind == 'cond' and cx.render(cn.ast) == ct and lab == 'F')
        alt = g.edges_of(lambda cn, lab: False)
        if cond_text == 'i < 0':
            pas += g.edges_of(lambda cn, lab: cn.kind == 'cond' and cx.render(cn.ast) == 'i >= 0' and lab == 'T')
        else:
            pas += g.edges_of(lambda cn, lab: cn.kind == 'cond' and cx.render(cn.ast) == 'i < get_array_length(cd)' and lab == 'T')
        ok = bool(pas) and r.id not in g.reach([start], avoid_edges=pas)
        path = None
        if not ok:
            path = g.describe_path(g.witness_path(start, r.id, avoid_edges=pas) or [])
        run.ob('I1/array-index-within-bounds', fn, label, ok, tu.where(r.ast),
               None if ok else 'an array access can reach the address computation without `%s` having been refuted' % cond_text, path=path)
    # owning pointer: only index 0
    own = g.edges_of(lambda cn, lab: cn.kind == 'cond' and lab == 'T' and cx.render(cn.ast) in (
        'Py_TYPE(cd) == &CDataOwning_Type', 'Py_TYPE(cd) == &CDataOwningGC_Type'))
    if len(own) >= 2:
        pas = g.edges_of(lambda cn, lab: cn.kind == 'cond' and ((cx.render(cn.ast) == 'i != 0' and lab == 'F') or (cx.render(cn.ast) == 'i == 0' and lab == 'T')))
        ok = bool(pas) and all(r.id not in g.reach([t], avoid_edges=pas) for _s, t, _l in own)
        run.ob('I1/owning-pointer-accepts-only-index-0', fn, 'CDataOwn_Check(cd) -> i == 0', ok, tu.where(r.ast))
    else:
        # the shared helper does not make the test: then every function that indexes through it has to, after the call
        # (the address it got back differs from c_data), or the rule is gone for that operation
        callers = sorted(n_ for n_, f_ in tu.functions.items() if tu.has_func(n_) and n_ != fn and any(cx.callee_name(c) == fn for c in cx.calls_in(f_)))
        run.need(callers, '%s: no caller found' % fn)
        # only the operations installed on the owning types matter (CDataOwn_as_mapping)
        slots = {x['ref']['name'] for x in cx.walk(tu.var('CDataOwn_as_mapping')) if x.get('kind') == 'DeclRefExpr' and x.get('ref')}
        callers = [c_ for c_ in callers if c_ in slots]
        run.need(callers, 'CDataOwn_as_mapping: no operation of the owning types indexes through %s' % fn)
        for cn_ in callers:
            cg = cfg_of(tu, cn_)
            calls_ = cg.nodes_calling(fn)
            after = set()
            for c_ in calls_:
                after |= set(cg.reach([c_.id], include_start=False))
            raises = [n_ for n_ in cg.nodes if n_.id in after and n_.ast is not None and any(
                cx.callee_name(c) in ('PyErr_Format', 'PyErr_SetString') and cx.call_args(c) and cx.render(cx.call_args(c)[0]) == 'PyExc_IndexError' for c in cx.calls_in(n_.ast))]
            run.ob('I1/owning-pointer-accepts-only-index-0', cn_, 'index through %s' % fn, bool(raises), tu.where(calls_[0].ast) if calls_ else tu.where(tu.func(cn_)),
                   '%s no longer refuses a non-zero index on an owning pointer (ffi.new("T *") allocates one item) and %s does not either: p[1] = v writes outside the allocation' % (fn, cn_))
    # both owning tests are under the pointer class
    # rejecting exits
    cls = setter_classes(g)
    for nid, c in sorted(cls.items()):
        n = g.nodes[nid]
        f = g.fact_texts(nid)
        about_index = any(t.split(':', 1)[1].startswith('i ') for t in f if t.startswith('T:'))
        if about_index:
            run.ob('I1/out-of-range-raises-IndexError', fn, stmt_text(n.ast)[:70], c == 'PyExc_IndexError', tu.where(n.ast), 'class %s under %s' % (c, sorted(t for t in f if ':i ' in t)))
    conv = [c for c in cx.calls_in(tu.func(fn)) if cx.callee_name(c) in ('PyNumber_AsSsize_t', 'PyLong_AsSsize_t')]
    ok = len(conv) == 1 and cx.callee_name(conv[0]) == 'PyNumber_AsSsize_t' and cx.render(cx.call_args(conv[0])[1]) == 'PyExc_IndexError'
    run.ob('I1/index-conversion-overflow-is-IndexError', fn, cx.render(conv[0]) if conv else 'index conversion', ok, tu.where(conv[0]) if conv else None)


def i2(run, tu):
    fn = '_cdata_getslicearg'
    g = cfg_of(tu, fn)
    f = tu.func(fn)
    F = rules.macro_flags(tu, 'CT_')
    stores = [n for n in g.nodes if n.ast is not None and any(cx.lhs_text(l).startswith('bounds[') for l, r, op, _x in cx.assignments(n.ast))]
    run.need(len(stores) == 2, '%s: stores to bounds[] not found' % fn)
    vals = {}
    for n in stores:
        for l, r, op, _x in cx.assignments(n.ast):
            vals[cx.lhs_text(l)] = cx.render(r)
    run.ob('I2/bounds-are-start-and-length', fn, 'bounds[0] = start; bounds[1] = stop - start', vals == {'bounds[0]': 'start', 'bounds[1]': 'stop - start'},
           tu.where(stores[0].ast), str(vals))
    tgt = stores[0].id if stores[0].id in g.coreach([stores[1].id]) else stores[1].id
    def need_edge(desc, texts):
        pas = g.edges_of(lambda cn, lab: cn.kind == 'cond' and (cx.render(cn.ast), lab) in texts)
        ok = bool(pas) and g.must_pass_edges(tgt, pas)
        path = None if ok else g.describe_path(g.witness_path(g.entry.id, tgt, avoid_edges=pas) or [])
        run.ob('I2/slice-guard-on-every-path', fn, desc, ok, tu.where(g.nodes[tgt].ast), path=path)
    need_edge('start <= stop', {('start > stop', 'F'), ('start <= stop', 'T'), ('stop < start', 'F')})
    need_edge('no step', {('slice->step != &_Py_NoneStruct', 'F'), ('slice->step == &_Py_NoneStruct', 'T')})
    arr = []
    for n, t, l in g.cond_edges():
        if n.kind == 'cond' and l == 'T' and rules.flag_facts(g, [(n, 'T')], 'ct->ct_flags').get(F['CT_ARRAY']) == 'T':
            arr.append((n.id, t, l))
    run.need(len(arr) == 1, '%s: array class test not found' % fn)
    for desc, texts in (('array: start >= 0', {('start < 0', 'F'), ('start >= 0', 'T')}),
                        ('array: stop <= length', {('stop > get_array_length(cd)', 'F'), ('stop <= get_array_length(cd)', 'T')})):
        pas = g.edges_of(lambda cn, lab, texts=texts: cn.kind == 'cond' and (cx.render(cn.ast), lab) in texts)
        ok = bool(pas) and tgt not in g.reach([arr[0][1]], avoid_edges=pas)
        run.ob('I2/array-slice-within-bounds', fn, desc, ok, tu.where(g.nodes[tgt].ast))
    # failing exits
    setters = setter_classes(g)
    conv = [c for c in cx.calls_in(f) if cx.callee_name(c) in ('PyNumber_AsSsize_t', 'PyLong_AsSsize_t', 'PyNumber_Index')]
    conv_ok = bool(conv) and all(cx.callee_name(c) == 'PyNumber_AsSsize_t' and cx.render(cx.call_args(c)[1]) == 'PyExc_IndexError' for c in conv)
    for n in g.nodes:
        if n.kind != 'return' or n.id not in g.live() or not cx.is_null(cx.kids(n.ast)[0]):
            continue
        always_set = g.must_precede(n.id, list(setters))
        facts = g.fact_texts(n.id)
        if always_set:
            # the class of the nearest setter(s)
            near = [s for s in setters if n.id in g.reach([s]) and not (g.reach([s], include_start=False) & set(setters) & g.coreach([n.id]))]
            classes = {setters[s] for s in near}
            nonindexable = any(t.startswith('F:') and 'ct->ct_flags &' in t for t in facts) and classes == {'PyExc_TypeError'}
            ok = classes == {'PyExc_IndexError'} or nonindexable
            run.ob('I2/rejection-raises-IndexError', fn, 'return NULL after %s' % sorted(classes), ok, tu.where(n.ast), 'facts: %s' % sorted(facts)[-3:])
        else:
            # the pending error was produced by the integer conversion itself
            which = [t for t in facts if t.startswith('T:') and '== -1' in t]
            run.ob('I2/conversion-failure-is-IndexError', fn, 'return NULL with the error of the %s conversion' % (which[0][2:].split(' ')[0] if which else '?'),
                   conv_ok, tu.where(n.ast),
                   None if conv_ok else 'the conversion (%s) leaves OverflowError for an index too large for Py_ssize_t; only None is mapped to IndexError here'
                   % ', '.join(sorted({cx.callee_name(c) for c in conv})))


def i3(run, tu):
    fn = 'cdata_ass_slice'
    g = cfg_of(tu, fn)
    f = tu.func(fn)
    copies = [n for n in g.nodes if n.ast is not None and cx.calls_in(n.ast, ('memmove', 'memcpy'))]
    run.need(len(copies) == 2, '%s: expected two bulk-copy fast paths' % fn)
    for n in copies:
        facts = g.fact_texts(n.id)
        c = (cx.calls_in(n.ast, 'memmove') + cx.calls_in(n.ast, 'memcpy'))[0]
        if cx.callee_name(c) == 'memmove':
            ok = 'T:get_array_length(v) == length' in facts and any('ct_itemdescr == ct' in t and t.startswith('T:') for t in facts)
            run.ob('I3/array-fast-path-needs-equal-length-and-type', fn, cx.render(c)[:70], ok, tu.where(c), str(sorted(facts)[-4:]))
        else:
            ok = 'F:srclen != length' in facts or 'T:srclen == length' in facts
            run.ob('I3/bytes-fast-path-needs-equal-length', fn, cx.render(c)[:70], ok, tu.where(c), str(sorted(facts)[-4:]))
    # length mismatch of bytes -> ValueError
    cls = setter_classes(g)
    for nid, c in cls.items():
        facts = g.fact_texts(nid)
        if 'T:srclen != length' in facts:
            run.ob('I3/bytes-length-mismatch-raises-ValueError', fn, stmt_text(g.nodes[nid].ast)[:60], c == 'PyExc_ValueError', tu.where(g.nodes[nid].ast))
    # iterator path: exactly `length` items
    loop = [n for n in g.nodes if n.kind == 'cond' and cx.render(n.ast) == 'i < length']
    run.ob('I3/iterator-path-consumes-length-items', fn, 'for (i = 0; i < length; i++)', len(loop) == 1, tu.where(f))
    few = [nid for nid, c in cls.items() if 'T:item == 0' in g.fact_texts(nid) and 'F:PyErr_Occurred()' in g.fact_texts(nid)]
    okf = len(few) == 1 and cls[few[0]] == 'PyExc_ValueError' and loop and few[0] in g.reach([t for t, l in loop[0].succ if l == 'T'])
    run.ob('I3/too-few-values-raise-ValueError', fn, 'item == NULL inside the loop', okf, tu.where(g.nodes[few[0]].ast) if few else tu.where(f))
    more = [nid for nid, c in cls.items() if 'T:item != 0' in g.fact_texts(nid) and 'F:i < length' in g.fact_texts(nid)]
    okm = len(more) == 1 and cls[more[0]] == 'PyExc_ValueError'
    run.ob('I3/too-many-values-raise-ValueError', fn, 'one more iternext() after the loop', okm, tu.where(g.nodes[more[0]].ast) if more else tu.where(f))
    # no success without a check of the number of source values
    eq_facts = ('T:get_array_length(v) == length', 'F:srclen != length', 'T:srclen == length')
    after_loop = [n.id for n in g.nodes if n.ast is not None and n.kind == 'stmt' and stmt_text(n.ast).replace(' ', '') == 'item=iternext(it)' and
                  'F:i < length' in g.fact_texts(n.id)]
    for r in g.nodes:
        if r.kind != 'return':
            continue
        rv = rules.return_value(r)
        if rv in ('-1',):
            continue
        facts = g.fact_texts(r.id)
        if rv == '0':
            ok = any(t in facts for t in eq_facts)
            why = 'dominating facts %s' % sorted(t for t in facts if 'length' in t)
        else:
            ok = bool(after_loop) and r.id not in g.reach([g.entry.id], avoid=after_loop, avoid_edges=g.edges_of(
                    lambda cn, l: (cx.render(cn.ast).replace(' ', ''), l) in (('item==0', 'T'), ('err<0', 'T'))))
            why = 'the final return is reached without the extra iternext() on a path that is not an error exit'
        run.ob('I3/success-only-after-the-source-length-was-checked', fn, 'return %s' % rv, ok, tu.where(r.ast), why)
    # stores go through convert_from_object at cdata advancing by itemsize
    adv = [stmt_text(n.ast) for n in g.nodes if n.ast is not None and n.kind == 'stmt' and stmt_text(n.ast).startswith('cdata +=')]
    run.ob('I3/cursor-advances-by-itemsize', fn, 'cdata += itemsize', adv == ['cdata += itemsize'], tu.where(f), str(adv))
    start = [cx.render(r) for l, r, op, _x in cx.assignments(f) if cx.lhs_text(l) == 'cdata' and op == '=']
    run.ob('I3/start-address-from-checked-bounds', fn, 'cdata = cd->c_data + itemsize * bounds[0]', start == ['cd->c_data + itemsize * bounds[0]'], tu.where(f), str(start))


def i4(run, tu):
    for fn in ('cdataowning_subscript', 'cdata_subscript', 'cdata_ass_sub'):
        f = tu.func(fn)
        g = cfg_of(tu, fn)
        calls = cx.called_names(f)
        ok = '_cdata_get_indexed_ptr' in calls and (('cdata_slice' in calls) or ('cdata_ass_slice' in calls))
        # the element address passed on is the helper's result, tested for failure first
        var = None
        for l, r, op, x in cx.assignments(f):
            if cx.calls_in(r, '_cdata_get_indexed_ptr'):
                var = cx.lhs_text(l)
        users = [n for n in g.nodes if n.ast is not None and any(
            cx.callee_name(c) in ('convert_to_object', 'convert_from_object') and cx.render(cx.call_args(c)[0]) == var for c in cx.calls_in(n.ast))]
        ok = ok and var is not None and len(users) == 1
        for n in users:
            facts = g.fact_texts(n.id)
            okf = ('F:%s == 0' % var in facts) or ('F:PyErr_Occurred()' in facts)
            edges = g.edges_of(lambda cn, lab: cn.kind == 'cond' and lab == 'F' and cx.render(cn.ast) in ('%s == 0' % var, 'PyErr_Occurred()'))
            okf = g.must_pass_edges(n.id, edges)
            ok = ok and okf
        # no other pointer arithmetic on c_data in these functions
        arith = [cx.render(x) for x in cx.walk(f) if x.get('kind') == 'BinaryOperator' and x.get('opcode') in ('+', '-') and 'c_data' in cx.render(x)]
        run.ob('I4/element-address-only-from-guarded-helper', fn, '%s = _cdata_get_indexed_ptr(cd, key)' % var, ok and not arith, tu.where(f), 'own arithmetic: %s' % arith)
    # slices: address from checked bounds
    f = tu.func('cdata_slice')
    arith = [cx.render(r) for l, r, op, _x in cx.assignments(f) if cx.lhs_text(l) == 'cdata']
    run.ob('I4/slice-address-from-checked-bounds', 'cdata_slice', 'cdata = cd->c_data + itemsize * bounds[0]',
           arith == ['cd->c_data + array_type->ct_itemdescr->ct_size * bounds[0]'], tu.where(f), str(arith))
    c = cx.calls_in(f, 'new_sized_cdata')
    run.ob('I4/slice-view-has-length-stop-minus-start', 'cdata_slice', 'new_sized_cdata(cdata, array_type, bounds[1])',
           len(c) == 1 and [cx.render(a) for a in cx.call_args(c[0])] == ['cdata', 'array_type', 'bounds[1]'], tu.where(f))
    # who else calls the helpers
    users = sorted({fn for fn, _c in rules.callers_of(tu, '_cdata_get_indexed_ptr')})
    run.saw('callers of _cdata_get_indexed_ptr', users)
    users2 = sorted({fn for fn, _c in rules.callers_of(tu, '_cdata_getslicearg')})
    run.ob('I4/slice-bounds-only-consumed-by-slice-functions', '_cdata_getslicearg', 'callers', users2 == ['cdata_ass_slice', 'cdata_slice'], None, str(users2))


def i5(run, tu):
    fn = 'direct_typeoffsetof'
    g = cfg_of(tu, fn)
    f = tu.func(fn)
    mul = [(l, r, x) for l, r, op, x in cx.assignments(f) if cx.lhs_text(l) == '*offset' and 'index' in cx.refs(r)]
    run.need(len(mul) == 1, '%s: *offset = index * size not found' % fn)
    node = g.node_of(mul[0][2])
    # every successful return after the multiplication passes the division check
    rets = [n for n in g.nodes if n.kind == 'return' and not cx.is_null(cx.kids(n.ast)[0]) and n.id in g.reach([node.id])]
    pas = g.edges_of(lambda cn, lab: cn.kind == 'cond' and lab == 'F' and cx.render(cn.ast).replace(' ', '') in (
        '*offset/ct->ct_itemdescr->ct_size!=index',))
    ok = bool(pas) and bool(rets) and all(r.id not in g.reach([node.id], avoid_edges=pas) for r in rets)
    run.ob('I5/offset-multiplication-checked-for-overflow', fn, '*offset = %s' % cx.render(mul[0][1]), ok, tu.where(mul[0][2]))
    rhs = cx.render(mul[0][1]).replace(' ', '')
    run.ob('I5/offset-is-index-times-itemsize', fn, '*offset = %s' % cx.render(mul[0][1]),
           'index' in rhs and 'ct->ct_itemdescr->ct_size' in rhs and '*' in rhs, tu.where(mul[0][2]))


def check(run):
    run.explanation = (
        'Bounds-guard and error-class rules on the CFGs of the indexing helpers. For each access class (array, owning '
        'pointer) every path from the class test to the address computation must take the refuting edge of each bound '
        'test; each rejecting exit must raise IndexError, including the exits taken when the integer conversion of an '
        'index or slice bound fails; slice assignment copies only under equal length and raises ValueError for fewer or '
        'more items; the subscript functions take every element address from the two guarded helpers after testing for '
        'failure; typeoffsetof checks its multiplication. Decides the guard clauses, not aliasing of views.')
    tu = backend_tu()
    i1(run, tu)
    i2(run, tu)
    i3(run, tu)
    i4(run, tu)
    i5(run, tu)
    run.min_instances('I1', 6)
    run.min_instances('I2', 8)
    run.min_instances('I3', 7)
    run.min_instances('I4', 5)
    run.assume('get_array_length(cd) returns the length the array cdata was created with')
    run.assume('(p+i)-p == i and aliasing of views are arithmetic/behavioural and not decided')
