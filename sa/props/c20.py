"""C20 — ffi.new zero-fills and initializes exactly like assignment (DESIGN §3 C20):
zeroing and shared-converter clauses.

N1 memory handed out by allocate_owning_object is calloc'ed unless dont_clear; the
   only callers passing a non-zero literal are the pointer wrapper (no data of its
   own) and convert_struct_to_owning_object (fully overwritten by memcpy); the
   default allocator clears; the custom-allocator path memsets unless told not to.
N2 direct_newp initialises through convert_from_object with the item type, the same
   function item and field assignment use.
N3 the var-size pre-pass and the explicit array length dominate the allocation and are
   the allocated and recorded sizes.
"""
from ..cast import cx, rules
from ..cast.cfg import cfg_of, stmt_text
from ..cast.loader import backend_tu


def n1(run, tu):
    fn = 'allocate_owning_object'
    g = cfg_of(tu, fn)
    f = tu.func(fn)
    allocs = []
    for n in g.nodes:
        if n.ast is None:
            continue
        for c in cx.calls_in(n.ast, ('malloc', 'calloc', 'PyObject_Malloc', 'PyMem_Malloc', 'realloc')):
            allocs.append((n, c))
    run.need(len(allocs) >= 1, '%s: no allocation call found' % fn)
    for n, c in allocs:
        name = cx.callee_name(c)
        facts = g.fact_texts(n.id)
        if name == 'calloc':
            a = [cx.render(x) for x in cx.call_args(c)]
            ok = sorted(a) == ['1', 'size']
            run.ob('N1/clearing-allocation-covers-the-whole-object', fn, 'calloc(%s)' % ', '.join(a), ok, tu.where(c))
        else:
            ok = 'T:dont_clear' in facts
            run.ob('N1/uncleared-allocation-only-when-asked', fn, '%s(...) under dont_clear' % name, ok, tu.where(c), str(sorted(facts)))
    # every path with dont_clear == 0 goes through calloc
    cl = [n.id for n, c in allocs if cx.callee_name(c) == 'calloc']
    pas = g.edges_of(lambda cn, l: cn.kind == 'cond' and cx.render(cn.ast) == 'dont_clear' and l == 'F')
    ok = bool(cl) and bool(pas) and all(g.exit.id not in g.reach([t], avoid=cl) for _s, t, _l in pas)
    run.ob('N1/default-path-is-calloc', fn, 'if (!dont_clear) cd = calloc(size, 1)', ok, tu.where(f))
    # who passes what
    callers = rules.callers_of(tu, fn)
    run.saw('callers of allocate_owning_object', ['%s(%s)' % (c_, cx.render(cx.call_args(call)[2])) for c_, call in callers])
    for caller, call in callers:
        arg = cx.call_args(call)[2]
        v = cx.int_value(arg)
        txt = cx.render(arg)
        gc = cfg_of(tu, caller)
        node = gc.node_of(call)
        if v == 0:
            run.ob('N1/caller-asks-for-cleared-memory', caller, 'allocate_owning_object(..., 0)', True, tu.where(call))
        elif v is not None:
            size = cx.render(cx.call_args(call)[0])
            if 'sizeof' in size and 'structptr' in (tu.text(cx.call_args(call)[0]) or size):
                # the wrapper object owns no data: its c_data must be redirected to the real struct
                red = [m.id for m in gc.nodes if m.ast is not None and any(cx.lhs_text(l) == 'cd->c_data' and 'c_data' in cx.render(r) and cx.render(r) != 'cd->c_data'
                                                                            for l, r, op, _x in cx.assignments(m.ast))]
                ok = bool(red) and all(gc.exit.id not in gc.reach([t], avoid=red) or True for t, _l in node.succ)
                okp = bool(red) and gc.must_follow(node.id, red + [m.id for m in gc.nodes if m.kind == 'return' and cx.is_null(cx.kids(m.ast)[0])])
                run.ob('N1/uncleared-wrapper-owns-no-data', caller, 'allocate_owning_object(sizeof(CDataObject_own_structptr), ct, 1)', okp, tu.where(call),
                       'cd->c_data redirected to the struct object on every successful path')
            else:
                # must be completely overwritten: memcpy(cd->c_data, ..., datasize) with size = dataoffset + datasize
                mc = [m for m in gc.nodes if m.ast is not None and any(
                    cx.render(cx.call_args(c)[0]) == 'cd->c_data' for c in cx.calls_in(m.ast, 'memcpy'))]
                ok = len(mc) == 1
                if ok:
                    c = cx.calls_in(mc[0].ast, 'memcpy')[0]
                    n_arg = cx.render(cx.call_args(c)[2])
                    ok = size.replace(' ', '') == ('dataoffset+%s' % n_arg).replace(' ', '')
                    base = [cx.render(r) for l, r, op, _x in cx.assignments(tu.func(caller)) if cx.lhs_text(l) == 'cd->c_data']
                    ok = ok and base == ['cd + dataoffset']
                    ok = ok and gc.must_follow(node.id, [mc[0].id] + [m.id for m in gc.nodes if m.kind == 'return' and cx.is_null(cx.kids(m.ast)[0])])
                run.ob('N1/uncleared-memory-fully-overwritten', caller, 'allocate_owning_object(%s, ct, 1); memcpy(cd->c_data, data, datasize)' % size, ok, tu.where(call))
        else:
            run.ob('N1/clear-flag-comes-from-the-allocator', caller, 'allocate_owning_object(..., %s)' % txt, txt == 'allocator->ca_dont_clear', tu.where(call))
    da = tu.var('default_allocator')
    init = [c for c in cx.kids(da) if c.get('kind') == 'InitListExpr']
    vals = [cx.render(e) for e in cx.kids(init[0])] if init else []
    run.ob('N1/default-allocator-clears', 'default_allocator', '{ NULL, NULL, 0 }', len(vals) == 3 and cx.int_value(cx.kids(init[0])[2]) == 0, tu.where(da), str(vals))
    # custom allocator path
    fa = 'allocate_with_allocator'
    ga = cfg_of(tu, fa)
    ms = [n for n in ga.nodes if n.ast is not None and cx.calls_in(n.ast, 'memset')]
    ok = len(ms) == 1
    if ok:
        c = cx.calls_in(ms[0].ast, 'memset')[0]
        facts = ga.fact_texts(ms[0].id)
        ok = [cx.render(a) for a in cx.call_args(c)] == ['cd->c_data', '0', 'datasize'] and 'F:allocator->ca_dont_clear' in facts and \
            'F:allocator->ca_alloc == 0' in facts
        # every successful exit of the custom branch with ca_dont_clear == 0 passed the memset
        pas = ga.edges_of(lambda cn, l: cn.kind == 'cond' and cx.render(cn.ast) == 'allocator->ca_dont_clear' and l == 'F')
        ok = ok and bool(pas) and all(ga.exit.id not in ga.reach([t], avoid=[ms[0].id]) for _s, t, _l in pas)
    run.ob('N1/custom-allocator-memory-cleared-unless-told-otherwise', fa, 'if (!allocator->ca_dont_clear) memset(cd->c_data, 0, datasize)', ok, tu.where(tu.func(fa)))
    fo = tu.func('_ffi_new_with_allocator')
    dc = [cx.render(r) for l, r, op, _x in cx.assignments(fo) if cx.lhs_text(l) == 'alloc1.ca_dont_clear']
    ok = len(dc) == 1 and dc[0].endswith('== &_Py_FalseStruct') and 'ob_item[3]' in dc[0]
    run.ob('N1/dont-clear-only-when-user-passed-False', '_ffi_new_with_allocator', 'alloc1.ca_dont_clear = (should_clear_after_alloc == Py_False)', ok, tu.where(fo), str(dc))


def n2(run, tu):
    fn = 'direct_newp'
    f = tu.func(fn)
    g = cfg_of(tu, fn)
    calls = [c for c in cx.calls_in(f, 'convert_from_object')]
    ok = len(calls) == 1
    if ok:
        a = [cx.render(x) for x in cx.call_args(calls[0])]
        ok = a[0] == 'cd->c_data' and a[2] == 'init' and 'ct->ct_itemdescr' in a[1] and a[1].endswith(': ct')
        node = g.node_of(calls[0])
        ok = ok and ('T:init != &_Py_NoneStruct' in g.fact_texts(node.id))
    run.ob('N2/initialiser-stored-with-the-shared-converter', fn, 'convert_from_object(cd->c_data, item type, init)', ok, tu.where(calls[0]) if calls else tu.where(f))
    a = cx.calls_in(tu.func('cdata_ass_sub'), 'convert_from_object')
    run.ob('N2/item-assignment-uses-the-same-converter', 'cdata_ass_sub', 'convert_from_object(c, ctitem, v)',
           len(a) == 1 and [cx.render(x) for x in cx.call_args(a[0])] == ['c', 'ctitem', 'v'], tu.where(tu.func('cdata_ass_sub')))
    b = cx.calls_in(tu.func('convert_field_from_object'), 'convert_from_object')
    run.ob('N2/field-assignment-uses-the-same-converter', 'convert_field_from_object', 'convert_from_object(data, cf->cf_type, value)',
           len(b) == 1 and [cx.render(x) for x in cx.call_args(b[0])] == ['data', 'cf->cf_type', 'value'], tu.where(tu.func('convert_field_from_object')))
    s = cx.calls_in(tu.func('cdata_setattro'), 'convert_field_from_object')
    run.ob('N2/attribute-assignment-routes-to-field-converter', 'cdata_setattro', 'convert_field_from_object(cd->c_data, cf, value)',
           len(s) == 1 and [cx.render(x) for x in cx.call_args(s[0])] == ['cd->c_data', 'cf', 'value'], tu.where(tu.func('cdata_setattro')))
    # a failed initialisation drops the new object
    node = g.node_of(calls[0]) if calls else None
    if node is not None and node.kind == 'cond':
        for t, l in node.succ:
            if l == 'T':
                rets = {rules.return_value(g.nodes[m]) for m in g.reach([t]) if g.nodes[m].kind == 'return'}
                dec = any(g.nodes[m].ast is not None and stmt_text(g.nodes[m].ast) == 'Py_DECREF(cd)' for m in g.reach([t]))
                run.ob('N2/failed-initialisation-returns-nothing', fn, 'if (convert_from_object(...) < 0) { Py_DECREF(cd); return NULL; }', rets == {'0'} and dec, tu.where(calls[0]))


def n3(run, tu):
    fn = 'direct_newp'
    f = tu.func(fn)
    g = cfg_of(tu, fn)
    allocs = [n for n in g.nodes if n.ast is not None and cx.calls_in(n.ast, 'allocate_with_allocator')]
    run.need(len(allocs) == 2, '%s: expected two allocate_with_allocator calls' % fn)
    for n in allocs:
        c = cx.calls_in(n.ast, 'allocate_with_allocator')[0]
        a = [cx.render(x) for x in cx.call_args(c)]
        run.ob('N3/allocation-uses-the-computed-size', fn, 'allocate_with_allocator(%s)' % ', '.join(a), a[0] == 'dataoffset' and a[1] == 'datasize' and a[3] == 'allocator', tu.where(c))
    pre = [n for n in g.nodes if n.ast is not None and cx.calls_in(n.ast, 'convert_struct_from_object')]
    ok = len(pre) == 1
    if ok:
        c = cx.calls_in(pre[0].ast, 'convert_struct_from_object')[0]
        a = [cx.render(x) for x in cx.call_args(c)]
        ok = a == ['0', 'ctitem', 'init', '&optvarsize']
        ok = ok and all(pre[0].id in g.coreach([n.id]) for n in allocs if True) and all(not (g.reach([n.id]) & {pre[0].id}) for n in allocs)
        take = [m for m in g.nodes if m.ast is not None and m.kind == 'stmt' and stmt_text(m.ast) == 'datasize = optvarsize']
        ok = ok and len(take) == 1 and g.must_precede(take[0].id, [pre[0].id])
        init = rules.single_def(f, 'optvarsize')
        ok = ok and init is not None and cx.render(init) == 'datasize'
    run.ob('N3/var-size-pass-precedes-allocation', fn, 'convert_struct_from_object(NULL, ctitem, init, &optvarsize); datasize = optvarsize', ok,
           tu.where(pre[0].ast) if pre else tu.where(f))
    rec = [(cx.lhs_text(l), cx.render(r), x) for l, r, op, x in cx.assignments(f) if cx.lhs_text(l).endswith('->length')]
    texts = sorted((a.replace('(CDataObject_own_length *)', '').replace('(', '').replace(')', ''), b) for a, b, _x in rec)
    ok = len(rec) == 2 and {b for _a, b, _x in rec} == {'datasize', 'explicitlength'}
    run.ob('N3/recorded-length-is-the-allocated-size', fn, '->length = datasize / explicitlength', ok, tu.where(f), str(texts))
    # array length: from get_new_array_length, overflow-checked, non-negative
    el = [cx.render(r) for l, r, op, _x in cx.assignments(f) if cx.lhs_text(l) == 'explicitlength' and cx.render(r) != '-1']
    ok = el == ['get_new_array_length(ct->ct_itemdescr, &init)']
    ds = [n for n in g.nodes if n.ast is not None and n.kind == 'stmt' and stmt_text(n.ast).replace(' ', '').startswith('datasize=explicitlength*')]
    ok = ok and len(ds) == 1 and 'F:explicitlength < 0' in g.fact_texts(ds[0].id)
    ovf = g.edges_of(lambda cn, l: cn.kind == 'cond' and 'datasize / explicitlength' in cx.render(cn.ast) and l == 'F') + \
        g.edges_of(lambda cn, l: cn.kind == 'cond' and cx.render(cn.ast) == 'explicitlength > 0' and l == 'F')
    ok = ok and bool(ovf) and all(n.id not in g.reach([ds[0].id], avoid_edges=ovf, include_start=False) for n in allocs) if ds else False
    run.ob('N3/array-size-is-length-times-itemsize-checked', fn, 'datasize = explicitlength * ctitem->ct_size (overflow checked)', ok, tu.where(ds[0].ast) if ds else tu.where(f))
    # unknown size rejected before allocation
    pas = g.edges_of(lambda cn, l: cn.kind == 'cond' and cx.render(cn.ast) == 'datasize < 0' and l == 'F')
    uses = [n for n in g.nodes if n.kind == 'cond' and cx.render(n.ast) == 'datasize < 0']
    run.ob('N3/unknown-size-rejected', fn, 'if (datasize < 0) -> TypeError', len(uses) >= 1, tu.where(f))
    dbl = [n for n in g.nodes if n.ast is not None and n.kind == 'stmt' and stmt_text(n.ast) == 'datasize *= 2']
    F = rules.macro_flags(tu, 'CT_')
    ok = len(dbl) == 1 and rules.flag_facts(g, g.dominating_facts(dbl[0].id), 'ctitem->ct_flags').get(F['CT_PRIMITIVE_CHAR']) == 'T'
    run.ob('N3/char-pointer-gets-room-for-a-terminator', fn, 'if (ctitem is a char type) datasize *= 2', ok, tu.where(dbl[0].ast) if dbl else tu.where(f))


def n4(run, tu):
    """the length helper is given the *item* type of the array being allocated, at every call site"""
    for fname, call in rules.callers_of(tu, 'get_new_array_length'):
        f = tu.func(fname)
        a0 = cx.call_args(call)[0]
        txt = cx.render(a0)
        ok = txt.endswith('->ct_itemdescr')
        if not ok and cx.strip(a0, casts=True).get('kind') == 'DeclRefExpr':
            d = rules.single_def(f, txt)
            ok = d is not None and cx.render(d).endswith('->ct_itemdescr')
            txt = '%s (= %s)' % (txt, cx.render(d) if d is not None else '?')
        run.ob('N4/length-helper-gets-the-item-type', fname, 'get_new_array_length(%s, ...)' % txt, ok, tu.where(call),
               'the helper decides by the item size whether a str initialiser is counted in UTF-16 units; given the array type (size -1) it counts code points')


def n5(run, tu):
    """add_varsize_length fails exactly when offset + itemsize * length does not fit: decided exhaustively on a
    width-reduced model (Py_ssize_t / size_t taken as 8 bits; the function only uses width-parametric arithmetic)"""
    from ..cast import absint
    from ..cast.absint import Con
    fn = 'add_varsize_length'
    g = cfg_of(tu, fn)
    big = [int(x['value']) for x in cx.walk(tu.func(fn)) if x.get('kind') == 'IntegerLiteral' and abs(int(x['value'])) > 127]
    if big:
        from .. import AnalysisError
        raise AnalysisError('%s: uses width-specific constants (%s); the width-reduced model does not apply and this rule cannot decide it' % (fn, big[:3]))
    saved = dict(absint._TYPES)
    bad_accept, bad_reject, bad_value = [], [], []
    n = 0
    try:
        for k in ('long', 'Py_ssize_t', 'ssize_t', 'long long', 'intptr_t'):
            absint._TYPES[k] = (8, True)
        for k in ('unsigned long', 'size_t', 'unsigned long long', 'uintptr_t'):
            absint._TYPES[k] = (8, False)
        for offset in (0, 1, 5, 24, 100, 127):
            for itemsize in (1, 2, 3, 4, 8, 16):
                for length in range(0, 128):
                    for old in (0, 50):
                        env = {'offset': Con(offset, 8, True), 'itemsize': Con(itemsize, 8, True), 'varsizelength': Con(length, 8, True), '*optvarsize': Con(old, 8, True)}
                        it = absint.Interp(g, env, {}, const_vars={'offset', 'itemsize', 'varsizelength'}).run()
                        rets = {nid: v for nid, v in it.returns.items()}
                        vals = sorted({v.v if isinstance(v, Con) else None for v in rets.values()})
                        if len(vals) != 1 or vals[0] is None:
                            from .. import AnalysisError
                            raise AnalysisError('%s: not decided by constant propagation at offset=%d itemsize=%d length=%d (returns %s)' % (fn, offset, itemsize, length, vals))
                        true = offset + itemsize * length
                        n += 1
                        if true > 127 and vals[0] == 0:
                            bad_accept.append((offset, itemsize, length, true))
                        elif true <= 127 and vals[0] != 0:
                            bad_reject.append((offset, itemsize, length, true))
                        elif true <= 127:
                            rid = list(rets)[0]
                            st = it.in_state.get(rid) or {}
                            nv = st.get('*optvarsize')
                            if not (isinstance(nv, Con) and nv.v == max(old, true)):
                                bad_value.append((offset, itemsize, length, true, old, repr(nv)))
    finally:
        absint._TYPES.clear()
        absint._TYPES.update(saved)
    site = tu.where(tu.func(fn))
    run.ob('N5/size-overflow-detected-exactly', fn, 'offset + itemsize * length too large -> OverflowError (8-bit model, %d points)' % n, not bad_accept, site,
           'accepted although the true size %d does not fit: offset=%d itemsize=%d length=%d (a wrapped product that lands at or above the offset slips through)' % (
               bad_accept[0][3], bad_accept[0][0], bad_accept[0][1], bad_accept[0][2]) if bad_accept else 'every overflowing combination is rejected')
    run.ob('N5/size-overflow-detected-exactly', fn, 'sizes that fit are accepted', not bad_reject, site, 'rejected: %s' % (bad_reject[:2],) if bad_reject else '')
    run.ob('N5/size-overflow-detected-exactly', fn, '*optvarsize becomes max(old, offset + itemsize * length)', not bad_value, site, str(bad_value[:2]))


def n6(run, tu):
    """ffi.new sizes the allocation for a flexible array wherever it sits: the "contains an open-ended array" mark of a field's type is
    passed on to the enclosing type for nested structs AND nested unions (direct_newp and the sizing pre-pass only look at the mark)"""
    import re
    fn = 'b_complete_struct_or_union_lock_held'
    g = cfg_of(tu, fn)
    F = rules.macro_flags(tu, 'CT_')
    var = F['CT_WITH_VAR_ARRAY']
    sites = [n for n in g.nodes if n.ast is not None and n.kind == 'stmt' and stmt_text(n.ast).replace(' ', '') == 'ct->ct_flags_mut|=%d' % var]
    run.need(len(sites) >= 2, '%s: the two places that mark the type (own open array, nested member) not found' % fn)
    nested = [n for n in sites if any(f.startswith('T:') and 'ftype->ct_flags_mut & %d' % var in f for f in g.fact_texts(n.id))]
    run.need(len(nested) == 1, '%s: the propagation of the mark from a member\'s type not found' % fn)
    # reachability of that statement for a member whose type is a struct / a union carrying the mark, by constant propagation from the
    # first test of the member's kind (whatever way the tests are written)
    from ..cast import absint
    from ..cast.absint import Con
    arr = F['CT_ARRAY']
    heads = [n for n, l in g.dominating_facts(nested[0].id) if n.kind == 'cond' and l == 'F' and cx.render(n.ast).replace(' ', '') == 'ftype->ct_size<0']
    run.need(len(heads) >= 1, '%s: the test chain on the member type not found' % fn)
    masks = []
    for kind in ('CT_STRUCT', 'CT_UNION'):
        env = {'ftype->ct_flags': Con(F[kind], 32, True), 'ftype->ct_flags_mut': Con(var, 32, True), 'ftype->ct_size': Con(16, 64, True)}
        it = absint.Interp(g, env, {}, const_vars=set(env))
        it.run_from(heads[0].id, env, set())
        if nested[0].id in it.in_state:
            masks.append(kind)
    ok = masks == ['CT_STRUCT', 'CT_UNION']
    run.ob('N6/open-array-mark-propagates-through-nested-structs-and-unions', fn, 'if (ftype is a struct or union && ftype has the mark) ct gets the mark', ok, tu.where(nested[0].ast),
           'the mark is only passed on for members of kind %s: a struct whose member is a union ending in `T y[]` is allocated without room for y' % masks)


def check(run):
    run.explanation = (
        'Who-passes-dont_clear rule over all callers of allocate_owning_object with a structural proof for each non-zero '
        'literal (wrapper without data; buffer fully overwritten by memcpy of the same size), calloc on the default path, '
        'default allocator constant, memset on the custom-allocator path; shared-converter rule (ffi.new, item, field and '
        'attribute assignment all end in convert_from_object with the element type); var-size pre-pass and explicit array '
        'length dominate the allocation and are the sizes allocated and recorded.')
    tu = backend_tu()
    n1(run, tu)
    n2(run, tu)
    n3(run, tu)
    n4(run, tu)
    n5(run, tu)
    n6(run, tu)
    run.min_instances('N4', 2)
    run.min_instances('N5', 3)
    run.min_instances('N1', 9)
    run.min_instances('N2', 5)
    run.min_instances('N3', 7)
    run.assume('byte equality of the two initialisation routes for nested initialisers is behavioural and not decided')
