"""C02 — bit-field reads/writes range-exact, round-trip and isolated (DESIGN §3 C02).

L   the (type size, width) lattice admitted by the struct builder's own guards is
    exactly {1 <= width <= 8*size}; bit shifts assigned under the GCC algorithm are 0
    or dominated by the fit test; _add_field stores shift/width unchanged;
O1  for every lattice point every << / >> in both accessors has an amount inside
    the width of its (promoted) left operand;
O2  constant propagation gives the closed forms of fmin/fmax/valuemask/shiftforsign;
O3  in the known-bits domain the written word is val[i-shift] inside the field
    and old[i] outside; the unsigned read is old[shift+i] for i < width, 0 above;
O4  the reject path stores nothing and raises OverflowError.
"""
from ..cast import cx, absint
from ..cast.absint import Con, Sym, TOP, fresh, convert
from ..cast.cfg import cfg_of, stmt_text
from ..cast.loader import backend_tu
from ..cast import rules
from .. import AnalysisError

SIZES = (1, 2, 4, 8)


def macro_int(tu, name):
    m = tu.macros.get(name)
    if m is None or m[0] is not None:
        return None
    try:
        return int(m[1].split('/*')[0].strip().rstrip('UuLl'), 0)
    except ValueError:
        return None


# ---------------------------------------------------------------- lattice ---
def derive_lattice(run, tu):
    fname = 'b_complete_struct_or_union_lock_held'
    g = cfg_of(tu, fname)
    fn = tu.func(fname)
    adds = [c for c in cx.calls_in(fn, '_add_field')]
    run.need(len(adds) >= 3, '_add_field call sites not found in %s' % fname)
    bit_calls = []
    for c in adds:
        a = cx.call_args(c)
        if len(a) >= 6 and cx.render(a[5]) == 'fbitsize':
            bit_calls.append(c)
    run.need(len(bit_calls) == 1, 'expected exactly one _add_field(..., bitshift, fbitsize, ...) call, found %d' % len(bit_calls))
    call = bit_calls[0]
    node = g.node_of(call)
    facts = g.dominating_facts(node.id)
    texts = sorted('%s:%s' % (l, cx.render(n.ast)) for n, l in facts if n.kind == 'cond')
    run.saw('guards dominating the bit-field _add_field call', texts)
    # evaluate the guards that mention only fbitsize / ftype->ct_size over candidate points
    rel = []
    for n, l in facts:
        if n.kind != 'cond':
            continue
        names = {x for x in cx.subexprs_text(n.ast) if x in ('fbitsize', 'ftype->ct_size')}
        others = cx.refs(n.ast) - {'fbitsize', 'ftype'}
        if 'fbitsize' in names and not others and not cx.calls_in(n.ast):
            rel.append((n, l))
    run.need(rel, 'no guard on fbitsize dominates the bit-field _add_field call')
    admitted = set()
    for size in SIZES:
        for b in range(-2, 8 * size + 9):
            env = {'fbitsize': Con(b, 32, True), 'ftype->ct_size': Con(size, 64, True)}
            it = absint.Interp(g, env)
            ok = True
            for n, l in rel:
                v = it.ev(n.ast, dict(env))
                if not isinstance(v, Con):
                    ok = None
                    break
                if (v.v != 0) != (l == 'T'):
                    ok = False
                    break
            if ok is None:
                run.need(False, 'guard on fbitsize not evaluable: %s' % cx.render(n.ast))
            if ok:
                admitted.add((size, b))
    want = {(size, b) for size in SIZES for b in range(1, 8 * size + 1)}
    missing = sorted(want - admitted)
    extra = sorted(admitted - want)
    run.ob('L/full-range-of-widths-accepted', fname, 'guards on fbitsize before _add_field(..., bitshift, fbitsize, ...)',
           not missing, tu.where(call),
           None if not missing else 'widths rejected although 1 <= width <= 8*size, e.g. (size, width) = %s; guards: %s'
           % (missing[:4], [t for t in texts if 'fbitsize' in t]))
    run.ob('L/no-width-beyond-the-type', fname, 'guards on fbitsize before _add_field(..., bitshift, fbitsize, ...)',
           not extra, tu.where(call),
           None if not extra else 'widths admitted outside 1..8*size, e.g. (size, width) = %s; guards: %s'
           % (extra[:4], [t for t in texts if 'fbitsize' in t]))
    # field type is an integer/char primitive
    tfacts = [t for t in texts if 'ftype->ct_flags &' in t and t.startswith('T:')]
    sig = macro_int(tu, 'CT_PRIMITIVE_SIGNED')
    uns = macro_int(tu, 'CT_PRIMITIVE_UNSIGNED')
    ch = macro_int(tu, 'CT_PRIMITIVE_CHAR')
    run.need(None not in (sig, uns, ch), 'CT_PRIMITIVE_* macros not found')
    okt = False
    for t in tfacts:
        try:
            mask = eval(t.split('&', 1)[1].replace('(', ' ').replace(')', ' ').replace('|', '+'))
        except Exception:
            continue
        if mask & ~(sig | uns | ch) == 0 and mask:
            okt = True
    run.ob('L/field-type-is-integer-or-char', fname, 'ftype->ct_flags & (SIGNED|UNSIGNED|CHAR)', okt, tu.where(call),
           'type guards: %s' % tfacts)
    # bit shift: every assignment to bitshift reaching the call under the GCC algorithm
    for l, r, op, x in cx.assignments(fn):
        if cx.lhs_text(l) != 'bitshift' or op not in ('=', 'init'):
            continue
        rt = cx.render(r)
        n2 = g.node_of(x)
        f2 = g.fact_texts(n2.id)
        msvc = macro_int(tu, 'SF_MSVC_BITFIELDS')
        if 'T:sflags & %d' % msvc in f2:
            continue            # MSVC layout: not the configuration analysed (DESIGN §5)
        if rt == '0':
            ok = True
            why = 'constant 0'
        elif rt == 'bits_already_occupied':
            ok = 'F:bits_already_occupied + fbitsize > 8 * ftype->ct_size' in f2
            why = 'dominated by the fit test' if ok else 'not dominated by `bits_already_occupied + fbitsize > 8*size` being false'
        elif rt == '8 * ftype->ct_size - fbitsize - bitshift':
            ok = True            # big-endian mirror of a shift already inside [0, 8*size - width]
            why = 'mirror image within the storage unit'
        else:
            ok = False
            why = 'unrecognised shift expression'
        run.ob('L/shift-keeps-field-inside-unit', fname, 'bitshift = %s' % rt, ok, tu.where(x), why)
    # _add_field stores both unchanged
    af = tu.func('_add_field')
    stores = {cx.lhs_text(l): cx.render(r) for l, r, op, _x in cx.assignments(af) if op == '='}
    run.ob('L/add-field-stores-width', '_add_field', 'cf->cf_bitsize = fbitsize',
           stores.get('cf->cf_bitsize') == 'fbitsize', tu.where(af), 'stored: %s' % stores.get('cf->cf_bitsize'))
    run.ob('L/add-field-stores-shift', '_add_field', 'cf->cf_bitshift = bitshift',
           stores.get('cf->cf_bitshift') == 'bitshift', tu.where(af), 'stored: %s' % stores.get('cf->cf_bitshift'))
    return admitted & want


# ------------------------------------------------------------ accessors ---
def hooks_for(size):
    def rd_signed(args, node):
        return convert(fresh('old', 8 * size, True), 64, True)

    def rd_unsigned(args, node):
        return convert(fresh('old', 8 * size, False), 64, False)

    def as_ll(args, node):
        return fresh('val', 64, True)
    return {'read_raw_signed_data': rd_signed, 'read_raw_unsigned_data': rd_unsigned,
            'PyLong_AsLongLong': as_ll}


def enclosing_stmt_text(g, node):
    n = g.node_of(node)
    return stmt_text(n.ast) if n is not None and n.ast is not None else cx.render(node)


def analyse_accessors(run, tu, lattice, thorough):
    SIGNED = macro_int(tu, 'CT_PRIMITIVE_SIGNED')
    UNSIGNED = macro_int(tu, 'CT_PRIMITIVE_UNSIGNED')
    FITS = macro_int(tu, 'CT_PRIMITIVE_FITS_LONG')
    gto = cfg_of(tu, 'convert_to_object_bitfield')
    gfrom = cfg_of(tu, 'convert_from_object_bitfield')
    points = 0
    shift_bad = {}      # key -> (detail, site)
    shift_sites = set()
    o2_bad = {}
    o3_bad = {}
    undecided = {}
    reads_checked = writes_checked = 0
    for signed in (True, False):
        for size in SIZES:
            widths = sorted(b for (s, b) in lattice if s == size)
            for b in widths:
                shifts = range(0, 8 * size - b + 1)
                if not thorough:
                    # quick: all widths, boundary + a middle shift (the expressions are affine in shift)
                    cand = {0, 8 * size - b, (8 * size - b) // 2, 1 if 8 * size - b >= 1 else 0}
                    shifts = sorted(cand)
                for s in shifts:
                    points += 1
                    flags = (SIGNED if signed else UNSIGNED) | (FITS if (signed or size < 8) else 0)
                    env = {'cf->cf_bitsize': Con(b, 16, True), 'cf->cf_bitshift': Con(s, 16, True),
                           'ct->ct_size': Con(size, 64, True), 'ct->ct_flags': Con(flags, 32, True)}
                    tag = 'signed' if signed else 'unsigned'
                    for g in (gto, gfrom):
                        it = absint.Interp(g, env, hooks_for(size), const_vars=set(env)).run()
                        for node, amt, width, ok in it.events.shifts:
                            st = enclosing_stmt_text(g, node)
                            key = (g.name, '%s  [in `%s`, %s branch]' % (cx.render(node), st, tag))
                            shift_sites.add(key)
                            if not ok and amt is None:
                                raise AnalysisError('C02: shift amount of `%s` in %s is not a propagated constant at '
                                                    '(size=%d,width=%d,shift=%d)' % (cx.render(node), g.name, size, b, s))
                            if not ok:
                                d = shift_bad.setdefault(key, {'points': [], 'site': tu.where(node), 'w': width})
                                if len(d['points']) < 6:
                                    d['points'].append({'size': size, 'width': b, 'shift': s, 'amount': amt})
                        dl = delegated(g, it)
                        if dl is not None:
                            # the whole storage unit is handed to the plain integer conversion: sound
                            # exactly when the field covers the unit (width == 8*size, hence shift 0)
                            okd = (b == 8 * size and s == 0)
                            c = '%s  [whole-unit field delegated to the plain integer conversion]' % dl
                            if okd:
                                note_good('O3/full-width-delegation', g.name, c)
                            else:
                                d = o3_bad.setdefault(('O3/full-width-delegation', g.name, c), {'site': None, 'detail': ''})
                                d['detail'] = 'delegation taken at %s where the field does not cover its unit' % (
                                    {'size': size, 'width': b, 'shift': s},)
                            continue
                        if g is gto:
                            reads_checked += check_read(run, tu, g, it, signed, size, b, s, o2_bad, o3_bad, tag)
                        else:
                            writes_checked += check_write(run, tu, g, it, signed, size, b, s, o2_bad, o3_bad, tag)
    for key in sorted(shift_sites):
        fn, construct = key
        bad = shift_bad.get(key)
        run.ob('O1/shift-amount-below-width', fn, construct, bad is None, bad['site'] if bad else None,
               None if bad is None else 'shift amount not in [0, %d) for lattice points %s (undefined behaviour; on x86 the '
               'count is masked so the mask collapses)' % (bad['w'], bad['points']))
    for (rule, fn, construct), d in sorted(o2_bad.items()):
        run.ob(rule, fn, construct, False, d['site'], 'expected %s, propagated %s at lattice points %s' % (
            d['want'], d['got'], d['points']))
    for (rule, fn, construct), d in sorted(o3_bad.items()):
        run.ob(rule, fn, construct, False, d['site'], d['detail'])
    run.saw('lattice points (sign,size,width,shift)', ['%d' % points])
    run.extra['lattice_points'] = points
    return points, reads_checked, writes_checked


DELEGATES = {'convert_to_object_bitfield': ('convert_to_object', ['data', 'ct']),
             'convert_from_object_bitfield': ('convert_from_object', ['data', 'ct', 'init'])}


def delegated(g, it):
    """text of the delegation if every return reachable at this lattice point is
    `return <plain conversion>(data, ct[, init])` with untouched arguments, else None"""
    target, want = DELEGATES[g.name]
    rets = [n for n in g.nodes if n.kind == 'return' and n.id in it.in_state]
    if not rets:
        return None
    txt = None
    for n in rets:
        ks = cx.kids(n.ast)
        c = cx.strip(ks[0], casts=True) if ks else None
        if c is None or c.get('kind') != 'CallExpr' or cx.callee_name(c) != target:
            return None
        if [cx.render(a) for a in cx.call_args(c)] != want:
            return None
        # the arguments are the function's own parameters, not reassigned before
        st = it.in_state[n.id]
        txt = 'return %s' % cx.render(c)
    for l, r, op, x in cx.assignments(g.fn):
        if cx.lhs_text(l) in ('data', 'init') and op != 'init':
            return None
    return txt


def _record(store, rule, fn, construct, site, want, got, point):
    if got == 'None':
        raise AnalysisError('C02: constant propagation cannot decide `%s` in %s at %s' % (construct, fn, point))
    d = store.setdefault((rule, fn, construct), {'site': site, 'want': want, 'got': got, 'points': []})
    if len(d['points']) < 5:
        d['points'].append(point)


GOOD = {}


def note_good(rule, fn, construct):
    GOOD[(rule, fn, construct)] = GOOD.get((rule, fn, construct), 0) + 1


def check_read(run, tu, g, it, signed, size, b, s, o2_bad, o3_bad, tag):
    """closed forms in convert_to_object_bitfield"""
    pt = {'size': size, 'width': b, 'shift': s}
    fn = g.name
    # state just before the first return on the live branch
    n = 0
    for node in g.nodes:
        if node.kind != 'return' or node.id not in it.in_state:
            continue
        st = it.in_state[node.id]
        vm = st.get('valuemask')
        want = (1 << b) - 1
        c = 'valuemask == 2^width - 1  [%s branch]' % tag
        if not (isinstance(vm, Con) and vm.v == want):
            # a shift violation already explains an unknown mask at this point
            if any(not ok for _n, _a, _w, ok in it.events.shifts):
                pass
            else:
                _record(o2_bad, 'O2/closed-form', fn, c, tu.where(node.ast), hex(want), repr(vm), pt)
        else:
            note_good('O2/closed-form', fn, c)
        if signed:
            sf = st.get('shiftforsign')
            c = 'shiftforsign == 2^(width-1)  [signed branch]'
            if not (isinstance(sf, Con) and sf.v == 1 << (b - 1)):
                _record(o2_bad, 'O2/closed-form', fn, c, tu.where(node.ast), hex(1 << (b - 1)), repr(sf), pt)
            else:
                note_good('O2/closed-form', fn, c)
        else:
            v = st.get('value')
            want_bits = tuple([('old', s + i) for i in range(b)] + [0] * (64 - b))
            c = 'value == (old >> shift) & (2^width - 1)  [unsigned branch]'
            verdict, bitno = absint.word_equiv(v, want_bits) if v is not None else ('undecided', None)
            okv = verdict == 'equal'
            if not okv:
                if any(not ok for _n, _a, _w, ok in it.events.shifts):
                    pass
                elif verdict == 'undecided':
                    raise AnalysisError('C02: cannot decide the value read by %s at %s (%s)' % (fn, pt, describe_bits(v)))
                else:
                    d = o3_bad.setdefault(('O3/read-selects-exactly-the-field', fn, c), {'site': tu.where(node.ast), 'detail': ''})
                    d['detail'] = 'at %s bit %s of the value passed on is %s' % (pt, bitno, describe_bit(absint.to_bits(v)[bitno]))
            else:
                note_good('O3/read-selects-exactly-the-field', fn, c)
        n += 1
    return n


def describe_bits(v):
    if v is TOP:
        return 'unknown'
    if isinstance(v, Con):
        return hex(v.v)
    out = []
    run_start = None
    for i, bit in enumerate(v.b):
        out.append(describe_bit(bit))
    return 'bits[0..]=' + ','.join(out[:24]) + ('...' if len(out) > 24 else '')


def check_write(run, tu, g, it, signed, size, b, s, o2_bad, o3_bad, tag):
    pt = {'size': size, 'width': b, 'shift': s}
    fn = g.name
    conds = [n for n in g.nodes if n.kind == 'cond' and cx.render(n.ast) in ('value < fmin', 'value > fmax')]
    run.need(len(conds) == 2, 'range test `value < fmin || value > fmax` not found in %s' % fn)
    n = 0
    for c in conds:
        st = it.in_state.get(c.id)
        if st is None:
            continue
        if signed:
            wmin, wmax = -(1 << (b - 1)), ((1 << (b - 1)) - 1) or 1
        else:
            wmin, wmax = 0, (1 << b) - 1
            if b == 64:
                wmax = absint.wrap(wmax, 64, True)     # what a PY_LONG_LONG can hold; flagged below
        for name, want in (('fmin', wmin), ('fmax', wmax)):
            v = st.get(name)
            cst = '%s == %s  [%s branch]' % (name, {'fmin': '-2^(width-1)' if signed else '0',
                                                   'fmax': ('2^(width-1)-1 (1 if width==1)' if signed else '2^width-1')}[name], tag)
            if not (isinstance(v, Con) and v.v == want):
                if any(not ok for _n, _a, _w, ok in it.events.shifts):
                    continue
                _record(o2_bad, 'O2/closed-form', fn, cst, tu.where(c.ast), str(want), repr(v), pt)
            else:
                note_good('O2/closed-form', fn, cst)
        n += 1
        break
    # the stored word(s)
    wcalls = [c for c in cx.calls_in(g.fn, 'write_raw_integer_data')]
    run.need(len(wcalls) >= 1, 'no write_raw_integer_data call in %s' % fn)
    want = []
    for i in range(64):
        if s <= i < s + b:
            want.append(('val', i - s))
        elif i < 8 * size:
            want.append(('old', i))
        else:
            want.append(0)
    seen_store = False
    for wc in wcalls:
        args = it.call_args.get(wc['id'])
        cst = 'stored word == (old & ~mask) | ((value << shift) & mask)  [%s branch]' % tag
        if args is None:
            continue
        seen_store = True
        word, sz = args[1], args[2]
        verdict, bitno = absint.word_equiv(word, want)
        # only the low 8*size bits reach memory
        if verdict != 'equal':
            v2, b2 = absint.word_equiv(word, want[:8 * size]) if word is not TOP else (verdict, bitno)
            if v2 == 'equal':
                verdict = 'equal'
        oksz = isinstance(sz, Con) and sz.v == size
        if verdict == 'equal' and oksz:
            note_good('O3/masked-merge', fn, cst)
            continue
        if any(not okk for _n, _a, _w, okk in it.events.shifts):
            continue
        if verdict == 'undecided' and (oksz or sz is TOP):
            raise AnalysisError('C02: cannot decide the stored word of %s at %s in the known-bits domain (%s)'
                                % (fn, pt, describe_bits(word)))
        d = o3_bad.setdefault(('O3/masked-merge', fn, cst), {'site': tu.where(wc), 'detail': ''})
        d['detail'] = 'at %s bit %s of the word written is %s (size argument %r)' % (
            pt, bitno, describe_bit(absint.to_bits(word)[bitno]) if bitno is not None and word is not TOP else '?', sz)
    if not seen_store:
        d = o3_bad.setdefault(('O3/masked-merge', fn, 'a store is reached on the accepting path'), {'site': None, 'detail': ''})
        d['detail'] = 'no store is reachable at %s' % pt
    return n + 1


def describe_bit(b):
    if b in (0, 1, None):
        return str(b)
    if b[0] in ('not', '&', '|', '^'):
        return '(%s)' % (' %s ' % b[0]).join(describe_bit(x) for x in b[1:]) if b[0] != 'not' else '~%s' % describe_bit(b[1])
    return '%s[%d]' % b


def o4(run, tu):
    fname = 'convert_from_object_bitfield'
    g = cfg_of(tu, fname)
    conds = [n for n in g.nodes if n.kind == 'cond' and cx.render(n.ast) in ('value < fmin', 'value > fmax')]
    stores = [n.id for n in g.nodes if n.ast is not None and (
        cx.calls_in(n.ast, 'write_raw_integer_data') or
        any(cx.root_var(l) == 'data' and op != 'init' and l.get('kind') != 'VarDecl' for l, r, op, _x in cx.assignments(n.ast)))]
    run.need(stores, 'no store found in %s' % fname)
    for c in conds:
        for t, l in c.succ:
            if l != 'T':
                continue
            reach = g.reach([t])
            hit = [s for s in stores if s in reach]
            run.ob('O4/reject-path-stores-nothing', fname, 'if (%s) -> reject' % cx.render(c.ast), not hit,
                   tu.where(c.ast), None if not hit else 'a store is reachable after the range test failed',
                   path=g.describe_path(g.witness_path(t, hit[0]) or []) if hit else None)
            # error class and failure value
            fmt = [x for n in g.nodes if n.id in reach and n.ast is not None for x in cx.calls_in(n.ast, 'PyErr_Format')]
            classes = {rules.exc_class_of(x) for x in fmt}
            rets = {rules.return_value(n) for n in g.nodes if n.id in reach and n.kind == 'return'}
            run.ob('O4/reject-raises-OverflowError', fname, 'if (%s) -> reject' % cx.render(c.ast),
                   classes == {'PyExc_OverflowError'} and rets == {'-1'}, tu.where(c.ast),
                   'classes=%s returns=%s' % (sorted(classes), sorted(rets)))
    # the range test dominates the store
    for s in stores:
        f = g.fact_texts(s)
        ok = 'F:value < fmin' in f and 'F:value > fmax' in f
        run.ob('O4/range-test-dominates-store', fname, stmt_text(g.nodes[s].ast)[:80], ok, tu.where(g.nodes[s].ast),
               None if ok else 'facts at the store: %s' % sorted(f))
    # who else writes a bit-field? every caller of write_raw_integer_data with cf_bitsize in scope goes through here
    for fn2, call in rules.callers_of(tu, 'convert_from_object_bitfield'):
        pass


def routing(run, tu):
    """fields with a bit shift are read/written only through the two accessors, the others never"""
    n = 0
    for target in ('convert_to_object_bitfield', 'convert_from_object_bitfield'):
        for fname, call in rules.callers_of(tu, target):
            g = cfg_of(tu, fname)
            node = g.node_of(call)
            obj = cx.render(cx.call_args(call)[1])
            f = g.fact_texts(node.id)
            ok = ('T:%s->cf_bitshift >= 0' % obj in f) or \
                 ('F:%s->cf_bitshift == -1' % obj in f and 'T:%s->cf_bitshift != -2' % obj in f)
            run.ob('R/accessor-only-for-bitfields', fname, '%s(data, %s, ...)' % (target, obj), ok, tu.where(call),
                   None if ok else 'facts: %s' % sorted(x for x in f if 'cf_bitshift' in x))
            n += 1
    for target in ('convert_to_object', 'convert_from_object'):
        for fname, call in rules.callers_of(tu, target):
            args = cx.call_args(call)
            if len(args) < 2:
                continue
            t = cx.render(args[1])
            if not t.endswith('->cf_type'):
                continue
            obj = t[:-len('->cf_type')]
            g = cfg_of(tu, fname)
            node = g.node_of(call)
            f = g.fact_texts(node.id)
            ok = bool({'F:%s->cf_bitshift >= 0' % obj, 'T:%s->cf_bitshift == -1' % obj,
                       'T:%s->cf_bitshift < 0' % obj} & f)
            run.ob('R/plain-conversion-only-for-regular-fields', fname, '%s(data, %s, ...)' % (target, t), ok,
                   tu.where(call), None if ok else 'facts: %s' % sorted(x for x in f if 'cf_bitshift' in x))
            n += 1
    return n


CHECKING = {'PyLong_AsLongLong', 'PyLong_AsLong', 'PyLong_AsSsize_t', '_my_PyLong_AsLongLong'}
MASKING = {'PyLong_AsUnsignedLongLongMask', 'PyLong_AsUnsignedLongMask', '_PyLong_AsInt', 'PyLong_AsLongLongAndOverflow',
           'PyLong_AsLongAndOverflow', 'PyLong_AsUnsignedLongLong', 'PyLong_AsUnsignedLong', '_my_PyLong_AsUnsignedLongLong'}


def o5(run, tu):
    """the value tested against fmin/fmax comes from a conversion that itself rejects what does not fit 64 bits;
    a masking conversion would reduce a huge int modulo 2**64 *before* the range test"""
    fn = 'convert_from_object_bitfield'
    f = tu.func(fn)
    defs = []
    for a in cx.assignments(f):
        if cx.lhs_text(a[0]) == 'value' and a[2] in ('=', 'init'):
            defs.append(a)
    run.need(len(defs) >= 1, '%s: `value` is never assigned' % fn)
    for a in defs:
        calls = [cx.callee_name(c) for c in cx.calls_in(a[1])]
        txt = cx.render(a[1], keep_casts=True)
        if not calls:
            raise AnalysisError('%s: `value = %s` is not a conversion call this rule knows' % (fn, txt))
        bad = [c for c in calls if c in MASKING]
        unknown = [c for c in calls if c not in MASKING and c not in CHECKING]
        if unknown and not bad:
            raise AnalysisError('%s: conversion %s not classified as range-checking or masking' % (fn, unknown))
        run.ob('O5/range-checking-conversion-before-the-range-test', fn, 'value = %s' % txt, not bad, tu.where(a[3]),
               '%s reduces or re-interprets an out-of-range int instead of failing: values beyond 64 bits reach the fmin/fmax test wrapped' % bad if bad else 'the conversion raises OverflowError for ints that do not fit')


def union_reset(run, tu):
    """in a union every member is laid out from byte 0, bit 0: with is_union fixed to true, constant
    propagation must find byteoffset == 0 and bitoffset == 0 where the placement of a field starts"""
    F = 'b_complete_struct_or_union_lock_held'
    g = cfg_of(tu, F)
    conds = [n for n in g.nodes if n.kind == 'cond' and cx.render(n.ast).replace(' ', '') in ('is_union', 'is_union!=0')]
    resets = []
    for n in conds:
        tsucc = [t for t, l in n.succ if l == 'T']
        fsucc = [t for t, l in n.succ if l == 'F']
        region = g.reach(tsucc, avoid=set(fsucc))
        if any(g.nodes[i].ast is not None and any(lv in ('byteoffset', 'bitoffset') for lv, _x in cx.writes(g.nodes[i].ast)) for i in region):
            resets.append((n, fsucc))
    run.need(len(resets) == 1, '%s: expected one `if (is_union)` resetting the running offsets, found %d' % (F, len(resets)))
    n, fsucc = resets[0]
    env = {'is_union': Con(1, 32, True)}
    it = absint.Interp(g, env, {}, const_vars=set(env)).run()
    st = it.in_state.get(fsucc[0]) or {}
    for var in ('byteoffset', 'bitoffset'):
        v = st.get(var)
        run.ob('L/union-members-start-at-offset-zero', F, 'is_union -> %s == 0 when a member is placed' % var,
               isinstance(v, Con) and v.v == 0, tu.where(n.ast), 'constant propagation with is_union != 0 gives %s = %r after the reset' % (var, v))


def check(run):
    run.explanation = (
        'Sparse conditional constant propagation with a known-bits domain over the CFGs of the two bit-field '
        'accessors, instantiated at every point of the (signedness, storage size, width, shift) lattice that the '
        'struct builder\'s own dominating guards admit (derived by evaluating those guards, not assumed): shift '
        'amounts are inside the operand width, the range constants and masks have their closed forms, the stored '
        'word is val[i-shift] inside the field and old[i] outside, and the reject path is store-free and raises '
        'OverflowError. Decides the mask/range/shift/merge clauses, not the arithmetic sign-extension identity nor '
        'agreement with compiled C accessors.')
    thorough = run.tier == 'thorough'
    tu = backend_tu()
    lattice = derive_lattice(run, tu)
    run.need(len(lattice) >= 100, 'derived lattice suspiciously small: %d points' % len(lattice))
    GOOD.clear()
    o5(run, tu)
    union_reset(run, tu)
    points, rc, wc = analyse_accessors(run, tu, lattice, thorough)
    for (rule, fn, construct), cnt in sorted(GOOD.items()):
        # a closed form that failed at some point is reported above; report ok only if it never failed
        if not any(o.rule == rule and o.function == fn and o.construct == construct and not o.ok for o in run.obs):
            run.ob(rule, fn, construct, True, None, 'held at %d lattice points' % cnt)
    o4(run, tu)
    routing(run, tu)
    run.exhaustive = thorough
    run.min_instances('O1/shift-amount-below-width', 6)
    run.min_instances('O2/closed-form', 5)
    run.min_instances('O3', 2)
    run.min_instances('O4', 5)
    run.min_instances('O5', 1)
    run.min_instances('L', 6)
    run.min_instances('R', 3)
    run.assume('LP64 little-endian target (sizes of C types as in this sandbox); signed overflow wraps (-fno-strict-overflow, as CPython builds extensions)')
    run.assume('bits_already_occupied >= 0 (asserted in the source, not derived); MSVC bit-field layout not analysed (not the build configuration)')
