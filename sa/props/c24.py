"""C24 — cffi-gen-src output is byte-identical to FFI.emit_c_code (DESIGN §3 C24): pass-through dataflow.

The generated text is obtained only from generate_c_source(ffi) = getvalue() of the
StringIO handed to ffi.emit_c_code, and reaches sys.stdout.write / f.write through
assignments and parameter passing only; the cdef text and prelude reach cdef() and
set_source() unmodified and in that order; --ffi-var resolves directly or by calling;
both invocations run the same `run`.
"""
import ast
import os
import re

from ..cast.loader import repo_root
from ..pyast.index import cffi_mod, pymod, u
from ..pyast import flow


def check(run):
    run.explanation = (
        'Def-use rules on the ast of _cffi_gen_src.py: each value on the chain script/cdef text -> FFI -> generated '
        'text -> output is bound once and only handed on as a call argument (no operator, slice, method or format '
        'touches it), generate_c_source returns getvalue() of the very StringIO passed to ffi.emit_c_code, both '
        'output branches write the parameter itself, the file is opened as UTF-8, make_ffi_from_sources passes cdef '
        'to cdef() and (modulename, csrc) to set_source() in that order, and both entry points call the same run().')
    m = cffi_mod('_cffi_gen_src')
    # generate_c_source
    f = m.find('generate_c_source')
    rets = [s for s in ast.walk(f) if isinstance(s, ast.Return)]
    ok = len(rets) == 1 and isinstance(rets[0].value, ast.Call) and isinstance(rets[0].value.func, ast.Attribute) \
        and rets[0].value.func.attr == 'getvalue' and isinstance(rets[0].value.func.value, ast.Name) and not rets[0].value.args
    buf = rets[0].value.func.value.id if ok else None
    val = flow.assigned_value(f, buf) if buf else None
    ok = ok and val is not None and u(val) == 'io.StringIO()'
    kinds = flow.use_kinds(f, buf) if buf else []
    ok = ok and sorted(kinds) == sorted(['arg:ffi.emit_c_code:0', 'call:.getvalue()'])
    run.ob('F/generated-text-is-what-emit_c_code-wrote', 'generate_c_source', 'output = io.StringIO(); ffi.emit_c_code(output); return output.getvalue()',
           ok, m.where(f), 'uses of the buffer: %s' % kinds)
    okp, why = flow.is_passthrough(f, 'ffi', allowed_prefixes=('call:.emit_c_code',))
    run.ob('F/emit_c_code-called-on-the-given-ffi', 'generate_c_source', 'ffi.emit_c_code(output)', okp and flow.params(f) == ['ffi'], m.where(f), str(why))
    # write_c_source
    f = m.find('write_c_source')
    okp, why = flow.is_passthrough(f, 'generated')
    kinds = flow.use_kinds(f, 'generated')
    run.ob('F/text-written-unmodified', 'write_c_source', 'sys.stdout.write(generated) / f.write(generated)',
           okp and sorted(kinds) == ['arg:f.write:0', 'arg:sys.stdout.write:0'], m.where(f), str(why))
    opens = [c for c in ast.walk(f) if isinstance(c, ast.Call) and u(c.func) == 'open']
    ok = len(opens) == 1
    if ok:
        kw = {k.arg: u(k.value) for k in opens[0].keywords}
        args = [u(a) for a in opens[0].args]
        mode = args[1] if len(args) > 1 else kw.get('mode')
        ok = args[0] == 'output' and mode == "'w'" and kw.get('encoding') in ("'utf-8'", "'utf8'", "'UTF-8'") and \
            'newline' not in kw and 'errors' not in kw
    run.ob('F/file-opened-for-text-write-as-utf8', 'write_c_source', "open(output, 'w', encoding='utf-8')", ok, m.where(f),
           u(opens[0]) if opens else None)
    ifs = [s for s in f.body if isinstance(s, ast.If)]
    ok = len(ifs) == 1 and u(ifs[0].test) in ("output == '-'", "'-' == output")
    ok = ok and any(isinstance(s, ast.Return) for s in ifs[0].body) and 'sys.stdout.write(generated)' in [u(c) for c in ast.walk(ifs[0]) if isinstance(c, ast.Call)]
    run.ob('F/dash-selects-stdout', 'write_c_source', "if output == '-': sys.stdout.write(generated); return", ok, m.where(f))
    # the two sub-commands
    for name, srcs in (('exec_python', None), ('read_sources', ('cdef', 'csrc'))):
        f = m.find(name)
        okp, why = flow.is_passthrough(f, 'generated')
        val = flow.assigned_value(f, 'generated')
        kinds = flow.use_kinds(f, 'generated')
        ok = okp and val is not None and u(val) == 'generate_c_source(ffi)' and kinds == ['arg:write_c_source:1']
        wc = [c for c in ast.walk(f) if isinstance(c, ast.Call) and u(c.func) == 'write_c_source']
        ok = ok and len(wc) == 1 and u(wc[0].args[0]) == 'output'
        run.ob('F/subcommand-hands-text-straight-to-writer', name, 'generated = generate_c_source(ffi); write_c_source(output, generated)',
               ok, m.where(f), str(why))
        okf, whyf = flow.is_passthrough(f, 'ffi')
        run.ob('F/ffi-handed-on-unchanged', name, 'ffi', okf, m.where(f), str(whyf))
    f = m.find('read_sources')
    vals = {n: flow.assigned_value(f, n) for n in ('csrc', 'cdef', 'ffi')}
    ok = all(v is not None for v in vals.values()) and u(vals['csrc']) == 'csrc_input.read()' and u(vals['cdef']) == 'cdef_input.read()' \
        and u(vals['ffi']) == 'make_ffi_from_sources(module_name, cdef, csrc)'
    for n in ('csrc', 'cdef'):
        okp, why = flow.is_passthrough(f, n)
        ok = ok and okp
    run.ob('F/inputs-read-whole-and-passed-on', 'read_sources', 'csrc = csrc_input.read(); cdef = cdef_input.read(); make_ffi_from_sources(module_name, cdef, csrc)',
           ok, m.where(f), str({k: (u(v) if v is not None else None) for k, v in vals.items()}))
    f = m.find('exec_python')
    v = flow.assigned_value(f, 'ffi')
    run.ob('F/script-text-read-whole', 'exec_python', 'ffi = find_ffi_in_python_script(pyfile.read(), pyfile.name, ffi_var)',
           v is not None and u(v) == 'find_ffi_in_python_script(pyfile.read(), pyfile.name, ffi_var)', m.where(f), u(v) if v is not None else None)
    # make_ffi_from_sources
    f = m.find('make_ffi_from_sources')
    body = [u(s) for s in f.body if not (isinstance(s, ast.Expr) and isinstance(s.value, ast.Constant))]
    ok = body == ['ffibuilder = FFI()', 'ffibuilder.cdef(cdef)', 'ffibuilder.set_source(modulename, csrc)', 'return ffibuilder'] and \
        flow.params(f) == ['modulename', 'cdef', 'csrc']
    run.ob('F/cdef-and-prelude-passed-unmodified-in-order', 'make_ffi_from_sources', ' ; '.join(body), ok, m.where(f))
    # find_ffi_in_python_script: --ffi-var
    f = m.find('find_ffi_in_python_script')
    asg = [u(s) for s in ast.walk(f) if isinstance(s, ast.Assign) and u(s.targets[0]) == 'ffi']
    rets = [u(s.value) for s in ast.walk(f) if isinstance(s, ast.Return)]
    ok = asg == ['ffi = globs[ffivar]', 'ffi = ffi()'] and rets == ['ffi']
    calls_if = [s for s in ast.walk(f) if isinstance(s, ast.If) and any(u(x) == 'ffi = ffi()' for x in s.body)]
    ok = ok and len(calls_if) == 1 and u(calls_if[0].test) == 'not isinstance(ffi, FFI) and callable(ffi)'
    run.ob('F/ffi-var-resolved-directly-or-by-calling', 'find_ffi_in_python_script', ' ; '.join(asg), ok, m.where(f))
    ex = [c for c in ast.walk(f) if isinstance(c, ast.Call) and u(c.func) == '_execfile']
    ok = len(ex) == 1 and [u(a) for a in ex[0].args] == ['pysrc', 'filename', 'globs']
    okp, why = flow.is_passthrough(f, 'pysrc')
    run.ob('F/script-executed-unmodified', 'find_ffi_in_python_script', '_execfile(pysrc, filename, globs)', ok and okp, m.where(f), str(why))
    # the script runs as `python script.py` would run it: its own directory is the FIRST entry of sys.path while it executes (a sibling
    # helper module wins over a same-named module elsewhere -- the working directory of `python -m cffi.gen_src` comes first otherwise,
    # and the two ways of invoking the tool build different FFIs), and the path is restored afterwards
    ff = m.find('find_ffi_in_python_script')
    ins = [c for c in ast.walk(ff) if isinstance(c, ast.Call) and u(c.func) in ('sys.path.insert', 'sys.path.append', 'sys.path.extend') or
           (isinstance(c, ast.AugAssign) and u(c.target) == 'sys.path')]
    local = {u(st.targets[0]): u(st.value) for st in ast.walk(ff) if isinstance(st, ast.Assign) and len(st.targets) == 1 and isinstance(st.targets[0], ast.Name)}
    first = [c for c in ins if isinstance(c, ast.Call) and u(c.func) == 'sys.path.insert' and len(c.args) == 2 and u(c.args[0]) == '0' and
             'dirname(filename)' in local.get(u(c.args[1]), u(c.args[1]))]
    exs = [c for c in ast.walk(ff) if isinstance(c, ast.Call) and u(c.func) == '_execfile']
    okp = len(ins) == 1 and len(first) == 1 and bool(exs) and first[0].lineno < exs[0].lineno
    run.ob('F/script-directory-first-on-the-module-path', 'find_ffi_in_python_script', '; '.join(u(c) for c in ins) or 'sys.path is not prepared', okp, m.where(ff),
           'the directory of the script must be sys.path[0] while the script runs (as with `python script.py`); otherwise an earlier entry -- the working directory under `python -m` -- can supply a different helper module')
    restores = [st for st in ast.walk(ff) if isinstance(st, ast.Try) and any('sys.path' in u(x) and 'old_path' in u(x) for x in st.finalbody)]
    run.ob('F/module-path-restored-after-the-script', 'find_ffi_in_python_script', 'finally: sys.path[:] = old_path', len(restores) == 1 and any(c in list(ast.walk(restores[0])) for c in exs), m.where(ff))
    # run(): dispatch
    f = m.find('run')
    calls = {u(c.func): c for c in ast.walk(f) if isinstance(c, ast.Call) and u(c.func) in ('exec_python', 'read_sources')}
    ok = set(calls) == {'exec_python', 'read_sources'}
    if ok:
        k1 = {k.arg: u(k.value) for k in calls['exec_python'].keywords}
        k2 = {k.arg: u(k.value) for k in calls['read_sources'].keywords}
        ok = k1 == {'output': 'args.output', 'pyfile': 'args.pyfile', 'ffi_var': 'args.ffi_var'} and \
            k2 == {'output': 'args.output', 'module_name': 'args.module_name', 'cdef_input': 'args.cdef', 'csrc_input': 'args.csrc'}
    run.ob('F/arguments-routed-to-their-parameters', 'run', 'exec_python(...) / read_sources(...)', ok, m.where(f))
    # argparse: input files are opened as UTF-8 text
    n = 0
    for c in ast.walk(m.tree):
        if isinstance(c, ast.Call) and isinstance(c.func, ast.Attribute) and c.func.attr == 'add_argument' and c.args and \
                isinstance(c.args[0], ast.Constant) and c.args[0].value in ('pyfile', 'cdef', 'csrc'):
            kw = {k.arg: u(k.value) for k in c.keywords}
            n += 1
            run.ob('F/input-files-decoded-as-utf8', 'argparse', "add_argument(%r, type=...)" % c.args[0].value,
                   kw.get('type') in ("argparse.FileType('r', encoding='utf-8')",), m.where(c), kw.get('type'))
    run.need(n == 3, 'expected 3 file arguments, found %d' % n)
    # both invocations run the same function
    g = cffi_mod('gen_src')
    imp = [s for s in ast.walk(g.tree) if isinstance(s, ast.ImportFrom) and s.module in ('cffi._cffi_gen_src', '_cffi_gen_src') and
           any(a.name == 'run' for a in s.names)]
    call = [c for c in ast.walk(g.tree) if isinstance(c, ast.Call) and u(c.func) == 'run' and not c.args and not c.keywords]
    # nothing else reaches stdout: with output '-' the text written by sys.stdout.write must be the only bytes.
    # emit_c_code(<file-like>) -> recompile(..., c_file=<file-like>, compiler_verbose=<default>) -> _make_c_or_py_source
    from ..pyast import sympath as sp
    rm = cffi_mod('recompiler')
    api = cffi_mod('api')
    rc = rm.find('recompile')
    dflt = {a.arg: d for a, d in zip(rc.args.args[-len(rc.args.defaults):], rc.args.defaults)}
    ecall = [c for c in ast.walk(api.find('FFI.emit_c_code')) if isinstance(c, ast.Call) and u(c.func) == 'recompile']
    run.need(len(ecall) == 1, 'FFI.emit_c_code: expected one recompile(...) call')
    given = {k.arg: k.value for k in ecall[0].keywords if k.arg}
    vnode = given.get('compiler_verbose', dflt.get('compiler_verbose'))
    try:
        verbose = ast.literal_eval(vnode) if vnode is not None else None
    except Exception:
        verbose = sp.Opq('compiler_verbose')
    mk = rm.find('_make_c_or_py_source')
    prints = []

    def h_print(a, k, e, f):
        if 'file' not in k:
            prints.append(a)
    ev = sp.Evaluator({'print': h_print, '_is_file_like': lambda a, k, e, f: True, 'Recompiler': lambda a, k, e, f: sp.Opq('recompiler')})
    ps = ev.run(mk, {'verbose': verbose, 'target_file': sp.Opq('<file-like>'), 'preamble': 'x'})
    fl = [p for p in ps if p.outcome and p.outcome[0] == 'return']
    run.ob('F/nothing-else-is-printed-to-stdout', '_make_c_or_py_source', 'emit_c_code(<file-like>): no print() on the way (verbose=%r from recompile\'s default)' % (verbose,),
           bool(fl) and not prints, rm.where(mk),
           'print(%s) goes to stdout before the generated text: `cffi-gen-src ... -` starts with that line' % (', '.join(map(repr, prints[0])) if prints else ''))
    run.ob('F/module-entry-point-is-run', 'cffi.gen_src', 'from cffi._cffi_gen_src import run; run()', bool(imp) and len(call) == 1, 'src/cffi/gen_src.py')
    pp = os.path.join(repo_root(), 'pyproject.toml')
    txt = open(pp).read() if os.path.exists(pp) else ''
    mm = re.search(r'^\s*cffi-gen-src\s*=\s*"([^"]+)"', txt, re.M)
    run.ob('F/console-script-is-run', 'pyproject.toml', 'cffi-gen-src = "cffi._cffi_gen_src:run"', bool(mm) and mm.group(1) == 'cffi._cffi_gen_src:run',
           'pyproject.toml', mm.group(1) if mm else None)
    run.min_instances('F', 18)
    run.exhaustive = True
    run.assume('FFI.emit_c_code writes the same text to a StringIO as to a file name (decided by recompiler, see C23); argparse and stdout encoding are not analysed')
