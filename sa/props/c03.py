"""C03 — integer stores accept exactly the type's range (DESIGN §3 C03).

R1 _cffi_to_c_{i,u}{8,16,32,64}: accepted interval (from the facts dominating
   `return tmp` once the error-pending exits are removed, bounds constant-folded)
   equals the N-bit range and fits the declared return type;
R2 _cffi_to_c__Bool returns 0/1 exactly on tmp==0 / tmp==1, anything else fails;
R3 convert_from_object: every store of an integer through `data` is preceded on
   all paths by the round-trip comparison of the matching signedness (or the
   _Bool test); the failing side raises OverflowError and stores nothing;
R4 strict flag literal 1 on store paths, 0 on cast paths;
R5 export table: slot -> function agrees with the macros of _cffi_include.h and
   with the header embedded in vengine_cpy.py, with compatible types;
R6 _cffi_to_c_int / _cffi_from_c_int dispatch folds to the converter of the
   argument type's size and signedness, for every generated wrapper argument;
R7 every converted argument is followed by the error test before the C call;
R8 callbacks: the range-checking conversion dominates the widened ffi_arg write.
"""
import ast
import re

from ..cast import cx, absint, rules
from ..cast.absint import Con
from ..cast.cfg import cfg_of, stmt_text
from ..cast.loader import backend_tu, wrapper_tu
from ..pyast.index import cffi_mod
from .. import gen
from .c22 import export_slots

ALIASES = {   # macro in the shipped header -> backend function in the same slot (confirmed by reading)
    '_cffi_to_c_char': '_convert_to_char',
    '_cffi_restore_errno': 'restore_errno_only',
    '_cffi_save_errno': 'save_errno_only',
    '_cffi_from_c_deref': 'convert_to_object',
    '_cffi_to_c': 'convert_from_object',
    '_cffi_from_c_struct': 'convert_struct_to_owning_object',
    '_cffi_prepare_pointer_call_argument': '_prepare_pointer_call_argument',
    '_cffi_convert_array_from_object': 'convert_array_from_object',
    '_cffi_call_python': 'cffi_call_python',
    '_cffi_get_struct_layout': '_cffi_get_struct_layout',
}


def pending_error_edges(g):
    """branch edges meaning 'a Python error is already pending'"""
    return g.edges_of(lambda n, l: n.kind == 'cond' and cx.render(n.ast) == 'PyErr_Occurred()' and l == 'T')


def fn_return_type(fn):
    return fn.get('type', '').split('(')[0].strip()


def r1(run, tu):
    for signed in (True, False):
        for bits in (8, 16, 32, 64):
            name = '_cffi_to_c_%s%d' % ('i' if signed else 'u', bits)
            g = cfg_of(tu, name)
            fn = tu.func(name)
            pend = pending_error_edges(g)
            it = absint.Interp(g, {})
            rets = [n for n in g.nodes if n.kind == 'return' and 'tmp' == cx.render(cx.kids(n.ast)[0])]
            run.need(len(rets) == 1, '%s: expected one `return tmp`' % name)
            lo, hi = (-(1 << 63), (1 << 63) - 1) if signed else (0, (1 << 64) - 1)
            src = None
            for l, r, op, _x in cx.assignments(fn):
                if cx.lhs_text(l) == 'tmp':
                    src = cx.render(r)
            facts = g.dominating_facts(rets[0].id, avoid_edges=pend)
            used = []
            for cn, lab in facts:
                e = cx.strip(cn.ast)
                if e.get('kind') != 'BinaryOperator' or e.get('opcode') not in ('<', '>', '<=', '>='):
                    continue
                a, b = cx.kids(e)
                if cx.render(a) != 'tmp':
                    continue
                k = it.ev(b, {})
                if not isinstance(k, Con):
                    badsh = [(cx.render(nn), a, w) for nn, a, w, okk in it.events.shifts if not okk and a is not None]
                    if badsh:
                        run.ob('R1/accepted-range-is-the-N-bit-range', name, 'bound %s' % cx.render(b), False,
                               tu.where(cn.ast), 'the bound shifts by %d in a %d-bit type (undefined): %s' % (
                                   badsh[0][1], badsh[0][2], badsh[0][0]))
                        continue
                    run.need(False, '%s: bound `%s` does not fold to a constant' % (name, cx.render(b)))
                op = e['opcode']
                if lab == 'F':
                    op = {'<': '>=', '>': '<=', '<=': '>', '>=': '<'}[op]
                used.append('tmp %s %d' % (op, k.v))
                if op == '<=':
                    hi = min(hi, k.v)
                elif op == '<':
                    hi = min(hi, k.v - 1)
                elif op == '>=':
                    lo = max(lo, k.v)
                elif op == '>':
                    lo = max(lo, k.v + 1)
            want = (-(1 << (bits - 1)), (1 << (bits - 1)) - 1) if signed else (0, (1 << bits) - 1)
            run.ob('R1/accepted-range-is-the-N-bit-range', name, 'return tmp  accepted iff %d <= tmp <= %d' % want,
                   (lo, hi) == want, tu.where(fn), 'accepted [%d, %d] from facts %s' % (lo, hi, used))
            # source conversion: strict for unsigned
            want_src = '_my_PyLong_AsLongLong(obj)' if signed else '_my_PyLong_AsUnsignedLongLong(obj, 1)'
            run.ob('R1/source-conversion', name, 'tmp = %s' % want_src, src == want_src, tu.where(fn), 'tmp = %s' % src)
            # out of range -> _convert_overflow (OverflowError) unless an error is pending
            others = [n for n in g.nodes if n.kind == 'return' and n is not rets[0]]
            ok = bool(others) and all(cx.calls_in(n.ast, '_convert_overflow') for n in others)
            run.ob('R1/out-of-range-raises-overflow', name, 'return _convert_overflow(...)', ok, tu.where(fn))
            rt = absint.ctype(fn_return_type(fn))
            okr = rt is not None and (-(1 << (rt[0] - 1)) if rt[1] else 0) <= want[0] and \
                want[1] <= ((1 << (rt[0] - 1)) - 1 if rt[1] else (1 << rt[0]) - 1)
            run.ob('R1/return-type-holds-the-range', name, 'returns %s' % fn_return_type(fn), okr, tu.where(fn))


def r2(run, tu):
    name = '_cffi_to_c__Bool'
    g = cfg_of(tu, name)
    fn = tu.func(name)
    src = None
    for l, r, op, _x in cx.assignments(fn):
        if cx.lhs_text(l) == 'tmp':
            src = cx.render(r)
    run.ob('R2/source-conversion', name, 'tmp = _my_PyLong_AsLongLong(obj)', src == '_my_PyLong_AsLongLong(obj)',
           tu.where(fn), 'tmp = %s' % src)
    seen = set()
    for n in g.nodes:
        if n.kind != 'return' or n.id not in g.live():
            continue
        v = rules.return_value(n)
        f = g.fact_texts(n.id)
        if v in ('0', '1'):
            ok = ('T:tmp == %s' % v) in f
            seen.add(v)
            run.ob('R2/returns-%s-only-for-%s' % (v, v), name, 'return %s' % v, ok, tu.where(n.ast), 'facts %s' % sorted(f))
        else:
            ok = ('T:PyErr_Occurred()' in f) or bool(cx.calls_in(n.ast, '_convert_overflow'))
            ok = ok and 'F:tmp == 0' in f and 'F:tmp == 1' in f
            run.ob('R2/other-values-fail', name, 'return %s' % v, ok, tu.where(n.ast), 'facts %s' % sorted(f))
    run.ob('R2/both-values-accepted', name, 'return 0 and return 1 exist', seen == {'0', '1'}, tu.where(fn))


def r3(run, tu):
    name = 'convert_from_object'
    g = cfg_of(tu, name)
    fn = tu.func(name)
    SIGNED = 'ct->ct_flags & 1'
    UNSIGNED = 'ct->ct_flags & 2'
    stores = []
    for n in g.nodes:
        if n.ast is None:
            continue
        for c in cx.calls_in(n.ast, 'write_raw_integer_data'):
            if cx.render(cx.call_args(c)[0]) == 'data':
                stores.append((n, c))
    run.need(len(stores) >= 2, 'integer stores through `data` not found in %s' % name)
    for n, c in stores:
        f = g.fact_texts(n.id)
        signed = ('T:' + SIGNED) in f
        unsigned = ('T:' + UNSIGNED) in f
        run.need(signed != unsigned, 'store %s is not under exactly one signedness branch' % tu.where(c))
        reader = 'read_raw_signed_data' if signed else 'read_raw_unsigned_data'
        size = cx.render(cx.call_args(c)[2])
        val = cx.render(cx.call_args(c)[1])
        want_cmp = '%s != %s(buf, %s)' % (val, reader, size)

        def passing(cn, l, want_cmp=want_cmp, val=val):
            t = cx.render(cn.ast)
            if l == 'F' and t == want_cmp:
                return True
            if l == 'F' and t == '%s > 1' % val and not signed:
                return 'T:ct->ct_flags & %d' % IS_BOOL in g.fact_texts(cn.id)
            return False
        IS_BOOL = int(tu.macros['CT_IS_BOOL'][1].split()[0], 0)
        edges = g.edges_of(passing)
        ok = bool(edges) and g.must_pass_edges(n.id, edges)
        path = None
        if not ok:
            p = g.witness_path(g.entry.id, n.id, avoid_edges=edges)
            path = g.describe_path(p or [])
        run.ob('R3/range-check-before-store', name, 'write_raw_integer_data(data, %s, %s) [%s]' % (
            val, size, 'signed' if signed else 'unsigned'), ok, tu.where(c),
            None if ok else 'a path reaches the store without `%s` (or the _Bool test) having failed to fire' % want_cmp,
            path=path)
        # the comparison reads what was just written to the scratch buffer with the same size
        for (src, dst, lab) in edges:
            cn = g.nodes[src]
            if cx.render(cn.ast) != want_cmp:
                continue
            pre = [p for p, _l in cn.pred]
            okb = any(g.nodes[p].ast is not None and
                      [cx.render(a) for cc in cx.calls_in(g.nodes[p].ast, 'write_raw_integer_data')
                       for a in cx.call_args(cc)] == ['buf', val, size] for p in pre)
            run.ob('R3/scratch-write-feeds-compare', name, want_cmp, okb, tu.where(cn.ast))
            # failing side: OverflowError, no store through data
            for t, l in cn.succ:
                if l != 'T':
                    continue
                reach = g.reach([t])
                hits = [s for s, _c in stores if s.id in reach]
                ovf = [x.id for x in g.nodes_calling('_convert_overflow')]
                okf = not hits and bool(ovf) and g.exit.id not in g.reach([t], avoid=ovf)
                run.ob('R3/reject-stores-nothing-and-overflows', name, 'if (%s) goto overflow' % want_cmp, okf,
                       tu.where(cn.ast))
    # the value comes from the strict conversions
    srcs = {cx.lhs_text(l): cx.render(r) for l, r, op, _x in cx.assignments(fn) if cx.lhs_text(l) == 'value'}


def r4(run, tu):
    STORE = {'convert_from_object', '_cffi_to_c_u8', '_cffi_to_c_u16', '_cffi_to_c_u32', '_cffi_to_c_u64'}
    CAST = {'cast_to_integer_or_char', 'do_cast'}
    n = 0
    for fname, call in rules.callers_of(tu, '_my_PyLong_AsUnsignedLongLong'):
        arg = cx.render(cx.call_args(call)[1])
        if fname in STORE:
            ok, what = arg == '1', 'store path must be strict (1)'
        elif fname in CAST:
            ok, what = arg == '0', 'cast path must be non-strict (0)'
        elif fname == '_my_PyLong_AsUnsignedLongLong':
            ok, what = arg == 'strict', 'recursive call forwards the flag'
        else:
            ok, what = arg in ('1',), 'unclassified caller must be strict'
        run.ob('R4/strict-flag', fname, '_my_PyLong_AsUnsignedLongLong(..., %s)' % arg, ok, tu.where(call), what)
        n += 1
    run.need(n >= 8, 'expected >= 8 callers of _my_PyLong_AsUnsignedLongLong, found %d' % n)
    # the strict branch rejects negatives with OverflowError
    g = cfg_of(tu, '_my_PyLong_AsUnsignedLongLong')
    neg = [x for x in g.nodes if x.kind == 'cond' and cx.render(x.ast) == '_PyLong_Sign(ob) < 0']
    ok = bool(neg) and all('T:strict' in g.fact_texts(x.id) for x in neg)
    for x in neg:
        for t, l in x.succ:
            if l == 'T':
                cls = {rules.exc_class_of(c) for m in g.reach([t]) if g.nodes[m].ast is not None
                       for c in cx.calls_in(g.nodes[m].ast, 'PyErr_SetString')}
                ok = ok and cls == {'PyExc_OverflowError'}
    run.ob('R4/strict-rejects-negative', '_my_PyLong_AsUnsignedLongLong', 'if (strict) if (_PyLong_Sign(ob) < 0) goto negative',
           ok, tu.where(tu.func('_my_PyLong_AsUnsignedLongLong')))


MACRO_RE = re.compile(r'^\(\((?P<ret>.+?)\(\*\)\((?P<args>.*)\)\)_cffi_exports\[(?P<idx>\w+)\]\)$')


def norm_type(t):
    t = t.replace('struct _cffi_ctypedescr', 'CTypeDescrObject').replace('_cffi_wchar_t', 'wchar_t')
    t = t.replace('PY_LONG_LONG', 'long long').replace('Py_ssize_t[]', 'Py_ssize_t *')
    t = t.replace('cffi_char32_t', 'CHAR32').replace('cffi_char16_t', 'CHAR16')
    return re.sub(r'\s+', '', t)


def parse_export_macros(defs):
    """{macro: (ret, args, idx)} from {name: body}"""
    out = {}
    for name, body in defs.items():
        m = MACRO_RE.match(re.sub(r'\s+', ' ', body).replace(' ', ' ').strip().replace('( (', '(('))
        if not m:
            b2 = re.sub(r'\s+', ' ', body).strip()
            m = MACRO_RE.match(b2)
        if m:
            out[name] = (m.group('ret').strip(), m.group('args').strip(), m.group('idx'))
    return out


def r5(run, tu):
    slots = export_slots(tu)
    run.need(slots and len(slots) >= 25, 'cffi_exports[] not found')
    wt = wrapper_tu()
    defs = {k: v[1] for k, v in wt.macros.items() if v[0] is None and '_cffi_exports[' in v[1]}
    macs = parse_export_macros(defs)
    run.need(len(macs) >= 25, 'export macros of _cffi_include.h not recognised (%d)' % len(macs))
    consts = {k: v[1] for k, v in wt.macros.items() if v[0] is None}

    def idx_of(s):
        if s.isdigit():
            return int(s)
        v = consts.get(s)
        return int(v) if v and v.isdigit() else None
    used = {}
    for name, (ret, args, idx) in sorted(macs.items()):
        i = idx_of(idx)
        run.need(i is not None, 'slot index of %s not a constant' % name)
        want = ALIASES.get(name, name)
        got = slots[i] if i < len(slots) else None
        run.ob('R5/macro-slot-names-the-function', '_cffi_include.h', '#define %s ..._cffi_exports[%d]' % (name, i),
               got == want, 'src/cffi/_cffi_include.h', 'cffi_exports[%d] = %s, macro expects %s' % (i, got, want))
        used[i] = name
        if got and tu.has_func(got):
            ft = tu.func(got).get('type', '')
            fret, fargs = ft.split('(', 1)[0], ft.split('(', 1)[1].rsplit(')', 1)[0]
            okt = norm_type(fret) == norm_type(ret) and norm_type(fargs) == norm_type(args)
            # known benign difference: wchar_t converters are declared on the 32/16-bit char typedefs
            run.ob('R5/cast-type-matches-function-type', '_cffi_include.h', '%s: (%s(*)(%s))' % (name, ret, args),
                   okt or _wchar_equiv(ret, args, fret, fargs), 'src/cffi/_cffi_include.h',
                   'backend %s has type %s' % (got, ft))
    n = idx_of('_CFFI_NUM_EXPORTS')
    run.ob('R5/num-exports-is-table-length', '_cffi_include.h', '_CFFI_NUM_EXPORTS', n == len(slots),
           'src/cffi/_cffi_include.h', '_CFFI_NUM_EXPORTS=%s, cffi_exports has %d slots' % (n, len(slots)))
    # header embedded in vengine_cpy.py (verify())
    vm = cffi_mod('vengine_cpy')
    hdr = None
    for node in ast.walk(vm.tree):
        if isinstance(node, ast.Assign) and any(isinstance(t, ast.Name) and t.id == 'cffimod_header' for t in node.targets):
            hdr = ast.literal_eval(node.value) if isinstance(node.value, ast.Constant) else None
    run.need(isinstance(hdr, str), 'cffimod_header string not found in vengine_cpy.py')
    text = hdr.replace('\\\n', ' ')
    vdefs = {}
    for m in re.finditer(r'^#define\s+(\w+)\s+(.*)$', text, re.M):
        if '_cffi_exports[' in m.group(2):
            vdefs[m.group(1)] = m.group(2)
    vmacs = parse_export_macros(vdefs)
    run.need(len(vmacs) >= 20, 'export macros of vengine_cpy.py not recognised (%d)' % len(vmacs))
    for name, (ret, args, idx) in sorted(vmacs.items()):
        i = int(idx)
        want = ALIASES.get(name, name)
        got = slots[i] if i < len(slots) else None
        run.ob('R5/verify-header-slot-names-the-function', 'vengine_cpy.cffimod_header',
               '#define %s ..._cffi_exports[%d]' % (name, i), got == want, 'src/cffi/vengine_cpy.py',
               'cffi_exports[%d] = %s, macro expects %s' % (i, got, want))
    m = re.search(r'#define\s+_CFFI_NUM_EXPORTS\s+(\d+)', text)
    run.ob('R5/verify-header-num-exports-within-table', 'vengine_cpy.cffimod_header', '_CFFI_NUM_EXPORTS',
           bool(m) and int(m.group(1)) <= len(slots), 'src/cffi/vengine_cpy.py')


def _wchar_equiv(ret, args, fret, fargs):
    a = norm_type(ret) + '|' + norm_type(args)
    b = norm_type(fret) + '|' + norm_type(fargs)
    for w in ('CHAR32', 'CHAR16', 'cffi_wchar_t', '_cffi_wchar_t', 'wchar_t'):
        a = a.replace(w, 'W')
        b = b.replace(w, 'W')
    return a == b and 'W' in a


FROM_C = {'PyLong_FromLong': (64, True), 'PyLong_FromUnsignedLong': (64, False),
          'PyLong_FromLongLong': (64, True), 'PyLong_FromUnsignedLongLong': (64, False),
          'PyInt_FromLong': (64, True)}


def r6_r7(run, tu, thorough):
    slots = export_slots(tu)
    probes = ['p_funcs'] if not thorough else gen.api_probes()
    nargs = nres = 0
    for probe in probes:
        gt = gen.gen_tu(probe)
        for fname in sorted(gt.functions):
            if not fname.startswith('_cffi_f_') or not gt.has_func(fname):
                continue
            cname = fname[len('_cffi_f_'):]
            fn = gt.func(fname)
            g = cfg_of(gt, fname)
            ccall = cx.calls_in(fn, cname)
            if len(ccall) != 1:
                continue
            cnode = g.node_of(ccall[0])
            decls = {d['name']: d for d in cx.walk(fn) if d.get('kind') == 'VarDecl'}
            for node in g.nodes:
                if node.ast is None or node.kind != 'stmt':
                    continue
                for l, r, op, x in cx.assignments(node.ast):
                    var = cx.lhs_text(l)
                    if op != '=' or not re.match(r'^x\d+$', var) or var not in decls:
                        continue
                    t = absint.ctype(decls[var].get('dtype') or decls[var].get('type'))
                    ty = decls[var].get('type')
                    if t is None:
                        continue
                    it = absint.Interp(g, {})
                    it.ev(r, {})
                    chosen = []
                    for c in cx.calls_in(r):
                        if c['id'] in it.call_args and cx.callee_text(c).startswith('_cffi_exports['):
                            chosen.append(cx.callee_text(c))
                    if not chosen:
                        continue          # not an integer conversion (char, wchar, float...)
                    idx = [int(re.search(r'\[(\d+)\]', c).group(1)) for c in chosen]
                    funcs = [slots[i] for i in idx]
                    if ty in ('_Bool',):
                        want = '_cffi_to_c__Bool'
                    elif funcs[0] in ('_convert_to_char', '_cffi_to_c_wchar_t', '_cffi_to_c_wchar3216_t'):
                        continue
                    else:
                        want = '_cffi_to_c_%s%d' % ('i' if t[1] else 'u', t[0])
                    nargs += 1
                    run.ob('R6/argument-converter-matches-type', '%s:%s' % (probe, fname),
                           '%s = _cffi_to_c_int(arg, %s)' % (var, ty), funcs == [want], gt.where(x),
                           'folded to %s (slots %s); want %s' % (funcs, idx, want))
                    # R7: error test between conversion and the C call
                    edges = g.edges_of(lambda cn, lab, var=var: cn.kind == 'cond' and lab == 'F' and (
                        cx.render(cn.ast) == '%s == -1' % var or cx.render(cn.ast) == 'PyErr_Occurred()'))
                    ok7 = bool(edges) and g.must_pass_edges(cnode.id, edges, start=node.id)
                    # and the failing side returns NULL
                    for (src, dst, lab) in edges:
                        cn = g.nodes[src]
                        if cx.render(cn.ast) != 'PyErr_Occurred()':
                            continue
                        if node.id not in g.coreach([src]):
                            continue
                        for tt, ll in cn.succ:
                            if ll == 'T':
                                rets = {rules.return_value(g.nodes[m]) for m in g.reach([tt]) if g.nodes[m].kind == 'return'}
                                calls_c = cnode.id in g.reach([tt])
                                ok7 = ok7 and rets == {'0'} and not calls_c
                    run.ob('R7/error-test-before-the-call', '%s:%s' % (probe, fname),
                           'if (%s == (%s)-1 && PyErr_Occurred()) return NULL' % (var, ty), ok7, gt.where(x))
            # result conversion
            for node in g.nodes:
                if node.ast is None:
                    continue
                for l, r, op, x in cx.assignments(node.ast):
                    if cx.lhs_text(l) != 'pyresult' or 'result' not in decls:
                        continue
                    t = absint.ctype(decls['result'].get('dtype') or decls['result'].get('type'))
                    if t is None:
                        continue
                    it = absint.Interp(g, {})
                    it.ev(r, {})
                    chosen = [cx.callee_name(c) for c in cx.calls_in(r) if c['id'] in it.call_args]
                    chosen = [c for c in chosen if c in FROM_C]
                    if len(chosen) != 1:
                        continue
                    cb, cs = FROM_C[chosen[0]]
                    ok = (cs == t[1] and cb >= t[0]) or (cs and not t[1] and cb > t[0])
                    nres += 1
                    run.ob('R6/result-constructor-represents-type', '%s:%s' % (probe, fname),
                           'pyresult = _cffi_from_c_int(result, %s)' % decls['result'].get('type'), ok, gt.where(x),
                           'folded to %s' % chosen[0])
    run.saw('generated integer argument conversions', ['%d' % nargs])
    run.saw('generated integer result conversions', ['%d' % nres])
    return nargs, nres


def r8(run, tu):
    name = 'convert_from_object_fficallback'
    g = cfg_of(tu, name)
    wide = []
    for n in g.nodes:
        if n.ast is None:
            continue
        for c in cx.calls_in(n.ast, 'write_raw_integer_data'):
            a = cx.call_args(c)
            if cx.render(a[0]) == 'result':
                wide.append((n, c))
    run.need(wide, 'widened ffi_arg write not found in %s' % name)
    for n, c in wide:
        f = g.fact_texts(n.id)
        ok = 'F:convert_from_object(result, ctype, pyobj) < 0' in f
        run.ob('R8/range-check-dominates-widened-write', name, cx.render(c), ok, tu.where(c),
               None if ok else 'facts: %s' % sorted(f))
    # every other exit that reports success goes through convert_from_object itself or the void case
    for n in g.nodes:
        if n.kind != 'return' or n.id not in g.live():
            continue
        v = stmt_text(n.ast)
        if v == 'return 0':
            f = g.fact_texts(n.id)
            ok = 'F:convert_from_object(result, ctype, pyobj) < 0' in f or 'T:pyobj == &_Py_NoneStruct' in f
            run.ob('R8/success-only-after-check', name, v, ok, tu.where(n.ast), 'facts: %s' % sorted(f))


def r9(run, tu):
    """a value that does not even convert to 64 bits leaves convert_from_object with the error the conversion set (OverflowError for a
    too large int, TypeError for a non-number): the path from a failed conversion goes straight to `return -1` -- it does not clear the
    error, and does not go through _convert_overflow(), whose str(value) raises ValueError for ints beyond the interpreter's digit limit"""
    fn = 'convert_from_object'
    g = cfg_of(tu, fn)
    fails = [n for n in g.nodes if n.kind == 'cond' and cx.render(n.ast).replace(' ', '') == 'PyErr_Occurred()' and
             any(re.match(r'^T:value == (\(unsigned long long\))?-1$', f) or 'value == ' in f and '-1' in f and f.startswith('T:') for f in g.fact_texts(n.id))]
    run.need(len(fails) >= 2, '%s: the failure tests after the two 64-bit conversions were not found (%d)' % (fn, len(fails)))
    bad_calls = ('PyErr_Clear', '_convert_overflow', 'PyErr_Restore', 'PyErr_SetString', 'PyErr_Format')
    for n in fails:
        t = [x for x, l in n.succ if l == 'T']
        r = g.reach(t)
        touched = sorted({cx.callee_name(c) for i in r if g.nodes[i].ast is not None for c in cx.calls_in(g.nodes[i].ast) if cx.callee_name(c) in bad_calls})
        rets = {rules.return_value(g.nodes[i]) for i in r if g.nodes[i].kind == 'return'}
        run.ob('R9/failed-64-bit-conversion-propagates-its-own-error', fn, 'if (value == -1 && PyErr_Occurred()) return -1', not touched and rets == {'-1'}, tu.where(n.ast),
               'after the failed conversion the path calls %s and returns %s: the error class the caller sees is no longer the conversion\'s (OverflowError)' % (touched, sorted(rets)))


def check(run):
    run.explanation = (
        'Range constants of the eight API-mode integer converters are recovered by constant-folding the comparison '
        'bounds that dominate `return tmp` (error-pending exits removed) and compared with the N-bit range; '
        'convert_from_object\'s integer stores are shown to be reachable only through the failing-to-fire edge of the '
        'round-trip comparison of the matching signedness (or the _Bool test), whose firing side raises OverflowError '
        'and stores nothing; strict-flag literals are classified per caller; the export table is compared slot by slot '
        'with the macros of both shipped headers, names and function types; the _cffi_to_c_int/_cffi_from_c_int '
        'dispatch is folded on the clang AST of every generated wrapper argument/result of the probe corpus.')
    thorough = run.tier == 'thorough'
    tu = backend_tu()
    r1(run, tu)
    r2(run, tu)
    r3(run, tu)
    r4(run, tu)
    r5(run, tu)
    na, nr = r6_r7(run, tu, thorough)
    run.need(na >= 20 and nr >= 20, 'generated conversions found: %d args, %d results' % (na, nr))
    r8(run, tu)
    r9(run, tu)
    run.min_instances('R1/accepted-range-is-the-N-bit-range', 8)
    run.min_instances('R3/range-check-before-store', 2)
    run.min_instances('R5/macro-slot-names-the-function', 25)
    run.min_instances('R5/verify-header-slot-names-the-function', 20)
    run.min_instances('R8', 2)
    run.min_instances('R9', 2)
    run.exhaustive = True
    run.assume('memcpy-based write_raw_integer_data/read_raw_*_data are inverse on the low `size` bytes (not decided here)')
    run.assume('global-variable stores through dlsym\'ed addresses use the same convert_from_object (not separately analysed)')
