"""C33 — verify() produces the same library behaviour as set_source() (structural clauses; sibling cross-check).

Both build paths generate C from the same declarations with two *sibling* generators:
Recompiler (set_source / compile) and VCPythonEngine (verify, CPython engine).  Decided:

V1 for the same abstract function (0-3 arguments, void or not) both generators emit a CPython
   wrapper with the same local declarations, the same argument conversions (Python argument i into
   xi, through the same converter with the same error test), the same call NAME(x0..xk) inside the
   same errno bracket, the same result conversion, and the same unpacking order of the Python
   arguments; the calling convention flag of the method table matches the arity like the opcode of
   the recompiler's table does.
V2 for every type class both support (integer, _Bool, char, float, double, long double, pointer,
   struct, enum, function pointer) the two `_convert_funcarg_to_c` and the two
   `_convert_expr_from_c` emit the same text.
V3 struct layouts: the verify engine asks the compiler for sizeof(T), the alignment idiom and, per
   non-bit-field member in declaration order, offsetof and sizeof (0 for a flexible array); the
   loader reads them back in the same positions, either to impose them (partial structs) or to
   compare all of them with the computed layout and raise VerificationError.
The conversion macros both texts rely on are the same export slots (C03 R5).  The generic engine
(vengine_gen) goes through dlopen + libffi like ABI mode and is not compared here.
"""
import ast
import re

from .. import AnalysisError
from ..pyast.index import cffi_mod, u
from ..pyast import sympath as sp

MRO = {
    'int': ['PrimitiveType', 'BasePrimitiveType', 'BaseType'],
    'struct': ['StructType', 'StructOrUnion', 'StructOrUnionOrEnum', 'BaseType'],
    'union': ['UnionType', 'StructOrUnion', 'StructOrUnionOrEnum', 'BaseType'],
    'enum': ['EnumType', 'StructOrUnionOrEnum', 'BaseType'],
    'pointer': ['PointerType', 'BaseType'],
    'funcptr': ['FunctionPtrType', 'BaseFunctionType', 'BaseType'],
    'void': ['VoidType', 'BaseType'],
    'array': ['ArrayType', 'BaseType'],
}


def mk(kind, name, integer=False, cname=None, **extra):
    d = {'__mro__': MRO[kind], 'name': name, 'cname': cname or name, 'integer': integer, 'fldnames': ('a',)}
    d.update(extra)
    return d


TYPES = {
    'integer primitive': mk('int', 'long', True),
    'unsigned integer primitive': mk('int', 'unsigned short', True),
    '_Bool': mk('int', '_Bool', True),
    'char': mk('int', 'char'),
    'float': mk('int', 'float'),
    'double': mk('int', 'double'),
    'long double': mk('int', 'long double'),
    'pointer': mk('pointer', 'ptr', cname='T *'),
    'struct': mk('struct', 'foo', cname='struct foo'),
    'enum': mk('enum', 'e', cname='enum e'),
    'function pointer': mk('funcptr', 'fp', cname='int(*)(int)'),
}


def h_isinstance(a, k, e, f):
    if len(a) != 2 or not isinstance(a[0], dict):
        return sp.Opq('isinstance(?)')
    classes = a[1] if isinstance(a[1], tuple) else (a[1],)
    names = []
    for c in classes:
        if not isinstance(c, sp.Opq):
            return sp.Opq('isinstance(?)')
        names.append(c.text.split('.')[-1])
    return any(n in a[0].get('__mro__', ()) for n in names)


def engine_hooks(lines):
    def prnt(a, k, e, f):
        lines.append((a[0] if isinstance(a[0], str) else repr(a[0])) if a else '')
    hooks = {'isinstance': h_isinstance, 'self._prnt': prnt, 'prnt': prnt, 'self._gettypenum': lambda a, k, e, f: 7,
             'self.needs_version': lambda a, k, e, f: None, 'sorted': lambda a, k, e, f: tuple(sorted(a[0])) if a and isinstance(a[0], tuple) else ()}
    mh = {'is_integer_type': lambda r, a, k, e, f: r['integer'], 'is_complex_type': lambda r, a, k, e, f: False,
          'is_float_type': lambda r, a, k, e, f: r['name'] in ('float', 'double', 'long double'),
          'get_c_name': lambda r, a, k, e, f: r['cname'] + (a[0] if a and isinstance(a[0], str) else ''),
          '_get_c_name': lambda r, a, k, e, f: r['cname']}
    return hooks, mh


def convert_to_c(mod, qual, tp):
    lines = []
    hooks, mh = engine_hooks(lines)
    fn = mod.find(qual)
    ev = sp.Evaluator(hooks, mh)
    ps = ev.run(fn, {'tp': tp, 'fromvar': 'arg0', 'tovar': 'x0', 'errcode': 'return NULL'})
    outs = [p for p in ps if not (p.outcome and p.outcome[0] == 'raise')]
    if len(ps) != 1:
        raise AnalysisError('%s: %d paths for a fixed type class (conditions: %s)' % (qual, len(ps), sorted(sp.free_names(ps))))
    if ps[0].outcome and ps[0].outcome[0] == 'raise':
        return ('raise', ps[0].outcome[1])
    sub = [e_ for e_ in ps[0].effects if e_[0] == 'self._convert_funcarg_to_c_ptr_or_array']
    return tuple(lines) + (('ptr-helper',) if sub else ())


def convert_from_c(mod, qual, tp):
    lines = []
    hooks, mh = engine_hooks(lines)
    fn = mod.find(qual)
    ev = sp.Evaluator(hooks, mh)
    ps = ev.run(fn, {'tp': tp, 'var': 'result', 'context': 'result type'})
    if len(ps) != 1:
        raise AnalysisError('%s: %d paths for a fixed type class' % (qual, len(ps)))
    o = ps[0].outcome
    return o if o is None or o[0] == 'raise' else o[1]


def v2(run, rec, ven):
    for cls, tp in sorted(TYPES.items()):
        a = convert_to_c(rec, 'Recompiler._convert_funcarg_to_c', tp)
        b = convert_to_c(ven, 'VCPythonEngine._convert_funcarg_to_c', tp)
        run.ob('V2/argument-conversion-text-identical', 'Recompiler / VCPythonEngine ._convert_funcarg_to_c', cls, a == b, ven.where(ven.find('VCPythonEngine._convert_funcarg_to_c')),
               'set_source emits %r, verify emits %r' % (a, b))
        a = convert_from_c(rec, 'Recompiler._convert_expr_from_c', tp)
        b = convert_from_c(ven, 'VCPythonEngine._convert_expr_from_c', tp)
        run.ob('V2/result-conversion-text-identical', 'Recompiler / VCPythonEngine ._convert_expr_from_c', cls, a == b and isinstance(a, str), ven.where(ven.find('VCPythonEngine._convert_expr_from_c')),
               'set_source emits %r, verify emits %r' % (a, b))
    # the pointer/array argument helper
    for mod, qual in ((rec, 'Recompiler._convert_funcarg_to_c_ptr_or_array'), (ven, 'VCPythonEngine._convert_funcarg_to_c_ptr_or_array')):
        pass
    outs = []
    for mod, qual in ((rec, 'Recompiler._convert_funcarg_to_c_ptr_or_array'), (ven, 'VCPythonEngine._convert_funcarg_to_c_ptr_or_array')):
        lines = []
        hooks, mh = engine_hooks(lines)
        ev = sp.Evaluator(hooks, mh)
        ps = ev.run(mod.find(qual), {'tp': TYPES['pointer'], 'fromvar': 'arg0', 'tovar': 'x0', 'errcode': 'return NULL'})
        # (set_source casts the result of alloca for C++ compilers; in C the cast changes nothing)
        outs.append(tuple(re.sub(r'\([^()]*\*\)\s*(?=alloca\()', '', l) for l in lines))
    run.ob('V2/pointer-argument-helper-text-identical', '._convert_funcarg_to_c_ptr_or_array', 'pointer / array arguments', outs[0] == outs[1] and len(outs[0]) >= 5,
           ven.where(ven.find('VCPythonEngine._convert_funcarg_to_c_ptr_or_array')), 'set_source %r\nverify %r' % (outs[0], outs[1]))
    for mod, qual in ((rec, 'Recompiler._extra_local_variables'), (ven, 'VCPythonEngine._extra_local_variables')):
        fn = mod.find(qual)
        adds = sorted(u(c.args[0]) for c in ast.walk(fn) if isinstance(c, ast.Call) and isinstance(c.func, ast.Attribute) and c.func.attr == 'add' and c.args)
        outs.append(adds)
    run.ob('V2/pointer-argument-helper-text-identical', '._extra_local_variables', 'locals and free lines', outs[2] == outs[3] and len(outs[2]) == 3, ven.where(ven.find('VCPythonEngine._extra_local_variables')), str(outs[2:]))


def wrapper_lines(mod, qual, nargs, void):
    lines = []
    convs = []
    hooks, mh = engine_hooks(lines)
    hooks['self._convert_funcarg_to_c'] = lambda a, k, e, f: convs.append((a[0]['name'],) + tuple(a[1:]))
    hooks['self._convert_expr_from_c'] = lambda a, k, e, f: 'FROM_C(%s)' % (a[1],)
    hooks['self._extra_local_variables'] = lambda a, k, e, f: None
    hooks['need_indirection'] = lambda a, k, e, f: False
    args = tuple(mk('int', 'T%d' % i, True) for i in range(nargs))
    tp = {'__mro__': MRO['funcptr'], 'ellipsis': False, 'args': args, 'result': mk('void', 'void') if void else mk('int', 'R', True), 'abi': None}
    ev = sp.Evaluator(hooks, mh)
    ps = ev.run(mod.find(qual), {'tp': tp, 'name': 'FUNC', 'self.target_is_python': False})
    if len(ps) != 1:
        raise AnalysisError('%s: %d paths for a fixed abstract function' % (qual, len(ps)))
    # keep the CPython wrapper only
    try:
        i0 = next(i for i, l in enumerate(lines) if l.startswith('_cffi_f_FUNC('))
    except StopIteration:
        raise AnalysisError('%s: no _cffi_f_FUNC wrapper emitted' % qual)
    end = len(lines)
    for i in range(i0, len(lines)):
        if lines[i] == '}':
            end = i + 1
            break
    return lines[i0 - 1:end], convs


def v1(run, rec, ven):
    for nargs, void in ((0, False), (1, False), (3, False), (2, True)):
        a, ca = wrapper_lines(rec, 'Recompiler._generate_cpy_function_decl', nargs, void)
        b, cb = wrapper_lines(ven, 'VCPythonEngine._generate_cpy_function_decl', nargs, void)
        label = '%d argument(s), %s result' % (nargs, 'void' if void else 'non-void')
        up = lambda ls: [l for l in ls if 'PyArg_' in l]
        rest = lambda ls: [l for l in ls if 'PyArg_' not in l]
        run.ob('V1/wrapper-bodies-identical', '._generate_cpy_function_decl', label, rest(a) == rest(b) and len(a) > 8, ven.where(ven.find('VCPythonEngine._generate_cpy_function_decl')),
               'first difference: %r' % (next(((x, y) for x, y in zip(rest(a), rest(b)) if x != y), (len(rest(a)), len(rest(b)))),))
        run.ob('V1/argument-conversions-identical', '._generate_cpy_function_decl', label, ca == cb == [('T%d' % i, 'arg%d' % i, 'x%d' % i, 'return NULL') for i in range(nargs)],
               ven.where(ven.find('VCPythonEngine._generate_cpy_function_decl')), 'set_source %r, verify %r' % (ca, cb))
        if nargs > 1:
            ua, ub = up(a), up(b)
            order = ', '.join('&arg%d' % i for i in range(nargs))
            run.ob('V1/python-arguments-unpacked-in-the-same-order', '._generate_cpy_function_decl', label,
                   len(ua) == 1 and len(ub) == 1 and order in ua[0] and order in ub[0], ven.where(ven.find('VCPythonEngine._generate_cpy_function_decl')), '%r / %r' % (ua, ub))
    # calling convention by arity
    fn = ven.find('VCPythonEngine._generate_cpy_function_method')
    got = {}
    for nargs in (0, 1, 2, 5):
        lines = []
        hooks, mh = engine_hooks(lines)
        tp = {'__mro__': MRO['funcptr'], 'ellipsis': False, 'args': tuple(mk('int', 'T', True) for _ in range(nargs))}
        ev = sp.Evaluator(hooks, mh)
        ev.run(fn, {'tp': tp, 'name': 'FUNC'})
        m_ = re.search(r'(METH_\w+)', lines[0]) if lines else None
        got[nargs] = m_.group(1) if m_ else None
    run.ob('V1/calling-convention-matches-arity', 'VCPythonEngine._generate_cpy_function_method', str(got),
           got == {0: 'METH_NOARGS', 1: 'METH_O', 2: 'METH_VARARGS', 5: 'METH_VARARGS'}, ven.where(fn))
    fn2 = rec.find('Recompiler._generate_cpy_function_ctx')
    txt = u(fn2)
    run.ob('V1/calling-convention-matches-arity', 'Recompiler._generate_cpy_function_ctx', 'OP_CPYTHON_BLTN_N / _O / _V by arity',
           all(x in txt for x in ('OP_CPYTHON_BLTN_N', 'OP_CPYTHON_BLTN_O', 'OP_CPYTHON_BLTN_V')), rec.where(fn2))


def v3(run, ven):
    fn = ven.find('VCPythonEngine._generate_struct_or_union_decl')
    lines = []
    hooks, mh = engine_hooks(lines)
    fields = (('a', mk('int', 'int', True), -1, 0), ('b', mk('int', 'int', True), 3, 0), ('c', mk('int', 'double'), -1, 0),
              ('d', dict(mk('array', 'arr', cname='char[]'), length=None), -1, 0))
    mh['enumfields'] = lambda r, a, k, e, f: fields
    tp = dict(mk('struct', 'foo', cname='struct foo'), fldnames=('a', 'b', 'c', 'd'))
    ev = sp.Evaluator(hooks, mh)
    ps = ev.run(fn, {'tp': tp, 'prefix': 'struct', 'name': 'foo'})
    run.need(len(ps) == 1, '_generate_struct_or_union_decl: not a single path for a fixed struct')
    try:
        i0 = lines.index('  static Py_ssize_t nums[] = {')
        i1 = lines.index('  };', i0)
    except ValueError:
        raise AnalysisError('_generate_struct_or_union_decl: the nums[] table was not emitted')
    nums = [l.strip().rstrip(',') for l in lines[i0 + 1:i1]]
    nums = [re.sub(r'\s*/\*.*?\*/', '', x).rstrip(',').strip() for x in nums]
    want = ['sizeof(struct foo)', 'offsetof(struct _cffi_aligncheck, y)', 'offsetof(struct foo, a)', 'sizeof(((struct foo *)0)->a)',
            'offsetof(struct foo, c)', 'sizeof(((struct foo *)0)->c)', 'offsetof(struct foo, d)', '0', '-1']
    run.ob('V3/layout-table-asks-the-compiler-in-order', 'VCPythonEngine._generate_struct_or_union_decl', ' | '.join(nums), nums == want, ven.where(fn), 'expected %s' % ' | '.join(want))
    run.ob('V3/layout-table-asks-the-compiler-in-order', 'VCPythonEngine._generate_struct_or_union_decl', 'alignment idiom struct { char x; T y; }',
           '  struct _cffi_aligncheck { char x; struct foo y; };' in lines and '  return _cffi_get_struct_layout(nums);' in lines, ven.where(fn))
    # the loader reads the same positions
    ld = ven.find('VCPythonEngine._loading_struct_or_union')
    binds = {u(n.targets[0]): u(n.value) for n in ast.walk(ld) if isinstance(n, ast.Assign) and len(n.targets) == 1}
    ok = binds.get('totalsize') == 'layout[0]' and binds.get('totalalignment') == 'layout[1]' and binds.get('fieldofs') == 'layout[2::2]' and \
        binds.get('fieldsize') == 'layout[3::2]' and binds.get('tp.fixedlayout', '').replace(' ', '') in ('(fieldofs,fieldsize,totalsize,totalalignment)', 'fieldofs,fieldsize,totalsize,totalalignment')
    run.ob('V3/loader-reads-the-same-positions', 'VCPythonEngine._loading_struct_or_union', 'partial struct: size, alignment, offsets [2::2], sizes [3::2] imposed as fixedlayout', ok, ven.where(ld), str(binds))
    lc = ven.find('VCPythonEngine._loaded_struct_or_union')
    checks = [[u(a) for a in c.args[:2]] for c in ast.walk(lc) if isinstance(c, ast.Call) and u(c.func) == 'check']
    want_c = [['layout[0]', 'ffi.sizeof(BStruct)'], ['layout[1]', 'ffi.alignof(BStruct)'], ['layout[i]', 'ffi.offsetof(BStruct, fname)'], ['layout[i + 1]', 'ffi.sizeof(BField)']]
    run.ob('V3/complete-struct-compared-with-the-compiler', 'VCPythonEngine._loaded_struct_or_union', 'total size, alignment, every offset and size', checks == want_c, ven.where(lc), str(checks))
    chk = [n for n in ast.walk(lc) if isinstance(n, ast.FunctionDef) and n.name == 'check']
    okr = len(chk) == 1 and any(isinstance(r, ast.Raise) and 'VerificationError' in u(r) for r in ast.walk(chk[0])) and \
        any(isinstance(t, ast.If) and u(t.test).replace(' ', '') == 'realvalue!=expectedvalue' for t in ast.walk(chk[0]))
    run.ob('V3/mismatch-raises-VerificationError', 'VCPythonEngine._loaded_struct_or_union.check', 'if realvalue != expectedvalue: raise VerificationError', okr, ven.where(lc))
    step = [n for n in ast.walk(lc) if isinstance(n, ast.AugAssign) and u(n.target) == 'i']
    run.ob('V3/loader-reads-the-same-positions', 'VCPythonEngine._loaded_struct_or_union', 'i starts at 2, advances by 2, bit-fields skipped like in the table',
           len(step) == 1 and u(step[0].value) == '2' and any(isinstance(n, ast.Assign) and u(n.targets[0]) == 'i' and u(n.value) == '2' for n in ast.walk(lc)) and
           any(isinstance(n, ast.If) and u(n.test).replace(' ', '') == 'fbitsize>=0' and isinstance(n.body[0], ast.Continue) for n in ast.walk(lc)), ven.where(lc))


def v4(run, ven):
    """the C helper functions that both runtime headers carry (the one embedded in vengine_cpy.py for verify(), and
    _cffi_include.h for set_source()) have the same bodies, statement by statement (clang AST of both)"""
    from ..cast.loader import parse_tu, py_include, repo_root, wrapper_tu
    from ..cast import cx
    from ..cast.cfg import CFG, stmt_text
    hdr = None
    for node in ven.tree.body:
        if isinstance(node, ast.Assign) and any(isinstance(t, ast.Name) and t.id == 'cffimod_header' for t in node.targets):
            try:
                hdr = ast.literal_eval(node.value)
            except Exception:
                hdr = None
    run.need(isinstance(hdr, str), 'cffimod_header string not found in vengine_cpy.py')
    tu = parse_tu(hdr, ['-I' + py_include(), '-DNDEBUG'], root=repo_root(), is_text=True, tag='vengine_hdr', virtual_name='vengine_hdr.c')
    w = wrapper_tu()
    differ_by_design = {'_cffi_init': 'the two kinds of module are initialised through different backend entry points'}
    shared = sorted(n for n in tu.functions if tu.has_func(n) and w.has_func(n) and n.startswith('_cffi_') and n not in differ_by_design)
    run.need(len(shared) >= 2, 'no helper function is defined in both headers (found %s)' % shared)
    for name in shared:
        def seq(t):
            """canonical form of the helper's CFG: nodes numbered in depth-first order from the entry (successors by label), a declaration
            with an initialiser reads as the assignment it is, nodes that do nothing (plain declarations, joins) are contracted: so
            `T x = e;` and `T x; x = e;` are the same function, and a statement moved into or out of a branch is not"""
            g = CFG(t.func(name), t)
            nodes = {n.id: n for n in (g.nodes.values() if isinstance(g.nodes, dict) else g.nodes)}

            def text(n):
                if n.ast is None:
                    return ''
                if n.ast.get('kind') == 'DeclStmt':
                    out = []
                    for d in cx.kids(n.ast):
                        if d.get('kind') == 'VarDecl' and d.get('init') and cx.kids(d):
                            out.append('%s = %s' % (d.get('name'), cx.render(cx.kids(d)[-1])))
                    return '; '.join(out)
                t_ = stmt_text(n.ast)
                return '' if t_.replace(' ', '') in ('(void)0', '0', ';') else t_      # statements without effect

            def skip(n):
                return n.kind not in ('cond', 'switch', 'return') and text(n) == '' and len(n.succ) == 1 and n.id != g.exit.id

            def eff(nid, seen=()):
                n = nodes[nid]
                while skip(n) and n.id not in seen:
                    seen = seen + (n.id,)
                    n = nodes[n.succ[0][0]]
                return n.id
            num, order, stack = {}, [], [eff(g.entry.id)]
            while stack:
                nid = stack.pop()
                if nid in num:
                    continue
                num[nid] = len(order)
                order.append(nid)
                for t_, l in sorted(nodes[nid].succ, key=lambda x: str(x[1]), reverse=True):
                    stack.append(eff(t_))
            return [(nodes[nid].kind if nodes[nid].ast is not None and nodes[nid].ast.get('kind') != 'DeclStmt' else 'stmt', text(nodes[nid]),
                     tuple(sorted((num[eff(t_)], str(l)) for t_, l in nodes[nid].succ))) for nid in order]
        a, b = seq(tu), seq(w)
        diff = next(((x, y) for x, y in zip(a, b) if x != y), None) or ((len(a), len(b)) if len(a) != len(b) else None)
        run.ob('V4/shared-runtime-helpers-are-identical', name, 'vengine_cpy.cffimod_header ~ _cffi_include.h', diff is None, 'src/cffi/vengine_cpy.py',
               'first difference (verify header / set_source header): %r' % (diff,))
    run.saw('helpers defined in both headers', shared)


def v5(run):
    """generic engine: a struct passed or returned by value goes through a Python closure that hands the C wrapper a pointer.  Decided by
    walking _make_struct_wrapper and the closure it returns symbolically, twice: the buffer is allocated by the call that uses it (two calls
    never share one), the C function receives the other arguments unchanged and in order, and the result is read from that call's buffer"""
    from ..pyast import sympath as sp
    gen = cffi_mod('vengine_gen')
    F = 'VGenericEngine._make_struct_wrapper'
    fn = gen.find(F)
    for which in ('result', 0, 1, 2):
        counter = [0]

        def alloc(recv, a, k, env, eff, kind=None):
            counter[0] += 1
            return {'__alloc__': counter[0], '__args__': tuple(a), 0: sp.Term('item0', (counter[0],))}
        calls = []
        ev = sp.Evaluator({'oldfunc': lambda a, k, env, eff: calls.append(tuple(a)) or sp.Opq('<result of the C wrapper>')},
                          {'new': alloc, 'newp': alloc})
        paths = [p_ for p_ in ev.run(fn, {'i': which, 'oldfunc': sp.Opq('oldfunc')}) if p_.outcome and p_.outcome[0] == 'return']
        run.need(len(paths) == 1 and isinstance(paths[0].outcome[1], sp.Closure), '%s: i=%r: expected one path returning a nested function' % (F, which))
        clo = paths[0].outcome[1]
        made_outside = counter[0]
        outs = []
        for k in range(2):
            args = tuple(sp.Opq('arg%d_%d' % (k, j)) for j in range(3))
            ps = ev.run(clo.fn, dict(clo.env, args=args))
            rets = [p_.outcome for p_ in ps]
            run.need(len(ps) == 1 and rets[0] and rets[0][0] == 'return', '%s: i=%r: the closure does not return on a single path' % (F, which))
            outs.append((args, calls[-1] if len(calls) == k + 1 else None, rets[0][1]))
        run.need(all(c is not None for _a, c, _r in outs), '%s: i=%r: the closure does not call the C wrapper exactly once per call' % (F, which))
        for _a, c, _r in outs:
            if any(isinstance(x, sp.Opq) and x.text.startswith('*') for x in c):
                raise AnalysisError('%s: i=%r: the argument tuple handed to the C wrapper is not understood (%r)' % (F, which, c))
        bufs = []
        ok, why = True, ''
        for args, c, r in outs:
            if which == 'result':
                b = c[0] if c else None
                shape = isinstance(b, dict) and '__alloc__' in b and c[1:] == args and r == b.get(0)
            else:
                b = c[which] if len(c) == 3 else None
                shape = isinstance(b, dict) and '__alloc__' in b and b['__args__'][-1:] == (args[which],) and \
                    all(c[j] is args[j] for j in range(3) if j != which) and isinstance(r, sp.Opq) and r.text == '<result of the C wrapper>'
            if not shape:
                ok, why = False, 'the C wrapper is called with %r for arguments %r and the closure returns %r' % (c, args, r)
                break
            bufs.append(b['__alloc__'])
        run.ob('V5/generic-engine-struct-closure-passes-a-pointer-and-the-other-arguments-unchanged', F, 'i=%r' % (which,), ok, gen.where(fn), why)
        if ok:
            fresh = len(set(bufs)) == 2 and all(b > made_outside for b in bufs)
            run.ob('V5/generic-engine-struct-buffer-belongs-to-one-call', F, 'i=%r' % (which,), fresh, gen.where(fn),
                   'two calls of the closure use buffer(s) %s, %d allocation(s) were made before the closure existed: an earlier result/argument is overwritten by a later call'
                   % (bufs, made_outside))
    # every indirection of the loaded function goes through it
    L = 'VGenericEngine._loaded_gen_function'
    lf = gen.find(L)
    loops = [n for n in ast.walk(lf) if isinstance(n, ast.For) and u(n.iter) == 'indirections']
    okl = len(loops) == 1 and len(loops[0].body) == 1 and isinstance(loops[0].body[0], ast.Assign) and \
        u(loops[0].body[0].value).replace(' ', '').replace('\n', '').startswith('self._make_struct_wrapper(newfunction,i,typ,')
    run.ob('V5/every-struct-indirection-is-wrapped', L, 'for i, typ in indirections: newfunction = self._make_struct_wrapper(newfunction, i, typ, ...)', okl, gen.where(lf))


def check(run):
    run.technique = ('sibling cross-check of the two C generators (set_source: Recompiler; verify: VCPythonEngine): both are walked symbolically '
                     '(Python ast, abstract types of every class, nothing executed) and the emitted wrapper text, conversions and layout tables are compared; '
                     'ast rules on the loader that reads the layout table back')
    rec = cffi_mod('recompiler')
    ven = cffi_mod('vengine_cpy')
    v1(run, rec, ven)
    v2(run, rec, ven)
    v3(run, ven)
    v4(run, ven)
    v5(run)
    run.assume('decided: that the CPython verify engine and set_source() generate the same wrapper, the same conversions for every type class both support, and that '
               'verify() takes or checks the whole layout from the compiler; the macros both texts use are the same export slots (C03 R5); not decided: the '
               'generic engine (dlopen/libffi, as ABI mode), global variables and constants, call results on concrete arguments')
    for rule, k in (('V1', 12), ('V2', 22), ('V3', 6), ('V4', 2), ('V5', 9)):
        run.min_instances(rule, k)
