"""C11 — out-of-line ABI module equivalent to the in-line FFI (DESIGN §3 C11):
serialisation schema agreement between the Python writer and the C reader, and
provenance of the names list_types() reports.

A  byte order and width of 4-byte integers agree (shift constants, sign from byte 0);
   (arg << 8) | op packing equals _CFFI_OP / _CFFI_GETOP / _CFFI_GETARG;
B  per record kind the writer's component list equals the reader's read sequence;
   the keyword names written equal ffiobj_init's keyword list;
C  the (size, signed) -> primitive map used for enums equals _cffi_prim_int;
D  every typedef/struct entry written comes from a declaration of that kind, or has a
   name that ffi.list_types() filters.
"""
import ast
import re

from .. import AnalysisError
from ..cast import cx, rules
from ..cast.cfg import cfg_of, stmt_text
from ..cast.loader import backend_tu, wrapper_tu
from ..pyast.index import cffi_mod, u

ALIAS = {'prim_index': 'type_prim', 'allenums': 'enumerators', 'size_expr': 'field_size', 'check_value': 'value'}


def writer_schema(m, qual):
    """[(kind, field)] from `return "b'...'" % (...)` of an as_python_expr method"""
    f = m.find(qual)
    rets = [r for r in ast.walk(f) if isinstance(r, ast.Return) and isinstance(r.value, ast.BinOp) and isinstance(r.value.left, ast.Constant)]
    if len(rets) != 1:
        raise AnalysisError('C11: %s does not end in a single format expression' % qual)
    fmt = rets[0].value.left.value
    args = rets[0].value.right.elts if isinstance(rets[0].value.right, ast.Tuple) else [rets[0].value.right]
    out = []
    pieces = re.split(r'(%s|%d)', fmt)
    ai = 0
    for p in pieces:
        if p in ('%s', '%d'):
            a = args[ai]
            ai += 1
            t = u(a)
            if t.startswith('format_four_bytes('):
                name = t[len('format_four_bytes('):-1].split('.')[-1]
                out.append(('4', ALIAS.get(name, name)))
            elif t.endswith('.as_python_bytes()'):
                out.append(('4', t.split('.')[-2]))
            elif p == '%d':
                out.append(('int', ALIAS.get(t.split('.')[-1], t.split('.')[-1])))
            elif t in ('size_expr',):
                out.append(('4?', ALIAS[t]))
            elif t.startswith("','.join("):
                out.append(('fields', 'fields'))
            else:
                name = t.split('.')[-1]
                out.append(('s', ALIAS.get(name, name)))
        else:
            if '\\x00' in p:
                out.append(('nul', ''))
    return out, f


def reader_schema(tu, g, cursor, struct_prefix):
    """[(kind, field)] from the statements that read through `cursor` into struct_prefix[...].field"""
    out = []
    nodes = [n for n in g.nodes if n.ast is not None and n.kind == 'stmt']
    seq = []
    for n in nodes:
        for l, r, op, x in cx.assignments(n.ast):
            lt, rt = cx.lhs_text(l), cx.render(r)
            if lt.startswith(struct_prefix) and cursor in cx.refs(r):
                field = lt.split('.')[-1]
                if rt in ('cdl_4bytes(%s)' % cursor, 'cdl_opcode(%s)' % cursor):
                    cond = [t for t in g.fact_texts(n.id) if 'field_type_op' in t]
                    seq.append((x.get('line'), x.get('col') or 0, ('4?' if cond else '4', field)))
                elif rt == cursor:
                    seq.append((x.get('line'), x.get('col') or 0, ('s', field)))
            elif lt == cursor and op == '+=' and 'strlen' in rt:
                seq.append((x.get('line'), x.get('col') or 0, ('nul', '')))
    seq.sort()
    return [s for _l, _c, s in seq]


def check(run):
    run.explanation = (
        'Writer/reader schema agreement for the out-of-line ABI module format: the component list of each record kind is '
        'recovered from the format expressions of the Python writer (ast) and from the sequence of reads through the '
        'cursor variable in ffiobj_init (clang AST), and compared field by field; byte order, sign and opcode packing '
        'are compared through their shift constants and macro bodies; keyword names and the enum primitive map are '
        'compared as tables; names that list_types() reports must come from a declaration of that kind.')
    tu = backend_tu()
    rc = cffi_mod('recompiler')
    op = cffi_mod('cffi_opcode')
    # A byte order
    f4 = op.find('format_four_bytes')
    shifts = [u(n.right) for n in ast.walk(f4) if isinstance(n, ast.BinOp) and isinstance(n.op, ast.RShift)]
    masks = [u(n.right) for n in ast.walk(f4) if isinstance(n, ast.BinOp) and isinstance(n.op, ast.BitAnd)]
    run.ob('A/writer-emits-big-endian-4-bytes', 'format_four_bytes', '(num >> 24, 16, 8, 0) & 0xFF', shifts == ['24', '16', '8'] and masks == ['255'] * 4, op.where(f4), str(shifts))
    c4 = tu.func('cdl_4bytes')
    ret = [n for n in cfg_of(tu, 'cdl_4bytes').nodes if n.kind == 'return'][0]
    txt = stmt_text(ret.ast).replace(' ', '')
    ok = txt in ('return((ssrc[0]<<24)|(usrc[1]<<16)|(usrc[2]<<8))|usrc[3]', 'return(ssrc[0]<<24)|(usrc[1]<<16)|(usrc[2]<<8)|usrc[3]',
                 'return(((ssrc[0]<<24)|(usrc[1]<<16))|(usrc[2]<<8))|usrc[3]')
    decls = {d['name']: d.get('type') for d in cx.walk(c4) if d.get('kind') == 'VarDecl'}
    ok = ok and decls.get('ssrc') == 'signed char *' and decls.get('usrc') == 'unsigned char *'
    run.ob('A/reader-decodes-big-endian-with-sign-from-byte-0', 'cdl_4bytes', stmt_text(ret.ast), ok, tu.where(c4), str(decls))
    ob = op.find('CffiOp.as_python_bytes')
    packs = [u(r.value) for r in ast.walk(ob) if isinstance(r, ast.Return)]
    ok = 'format_four_bytes(self.arg << 8 | self.op)' in packs
    wt = wrapper_tu()
    m1, m2, m3 = wt.macros.get('_CFFI_OP'), wt.macros.get('_CFFI_GETOP'), wt.macros.get('_CFFI_GETARG')
    okm = m1 is not None and m1[1].replace(' ', '') == '(_cffi_opcode_t)(opcode|(((uintptr_t)(arg))<<8))' and \
        m2 is not None and m2[1].replace(' ', '') == '((unsignedchar)(uintptr_t)cffi_opcode)' and \
        m3 is not None and m3[1].replace(' ', '') == '(((intptr_t)cffi_opcode)>>8)'
    run.ob('A/opcode-packing-agrees', 'CffiOp.as_python_bytes ~ _CFFI_OP', '(arg << 8) | op', ok and okm, op.where(ob), str(packs))
    oc = tu.func('cdl_opcode')
    run.ob('A/opcodes-read-with-the-same-decoder', 'cdl_opcode', 'return (_cffi_opcode_t)cdl_4bytes(src)', 'cdl_4bytes' in cx.called_names(oc), tu.where(oc))
    # B schemas
    g = cfg_of(tu, 'ffiobj_init')
    kinds = [('GlobalExpr.as_python_expr', 'g', 'nglobs[i]'), ('StructUnionExpr.as_python_expr', 's', 'nstructs[i]'),
             ('FieldExpr.as_field_python_expr', 'f', 'nfields[nf]'), ('EnumExpr.as_python_expr', 'e', 'nenums[i]'),
             ('TypenameExpr.as_python_expr', 't', 'ntypenames[i]')]
    for qual, cur, prefix in kinds:
        ws, wf = writer_schema(rc, qual)
        rs = reader_schema(tu, g, cur, prefix)
        wcore = [x for x in ws if x[0] not in ('int', 'fields')]
        ok = wcore == rs
        run.ob('B/record-layout-agrees', '%s ~ ffiobj_init' % qual.split('.')[0], 'writer %s' % ws, ok, rc.where(wf), 'reader %s' % rs)
    # globals: the integer travels as the tuple item after the bytes
    ws, wf = writer_schema(rc, 'GlobalExpr.as_python_expr')
    pairs = sorted(set(re.findall(r'globals\)->ob_item\[([^\]]+)\]', ' '.join(cx.render(r) for l, r, op_, _x in cx.assignments(tu.func('ffiobj_init'))))))
    ok = ws[-1] == ('int', 'value') and sorted(pairs) == ['i * 2', 'i * 2 + 1']
    run.ob('B/global-value-travels-next-to-its-record', 'GlobalExpr ~ ffiobj_init', "b'<op><name>',<int>  /  globals[2i], globals[2i+1]", ok, rc.where(wf), str(pairs))
    ic = tu.func('_cdl_realize_global_int')
    asg = {cx.lhs_text(l): cx.render(r) for l, r, op_, _x in cx.assignments(ic)}
    rets = [rules.return_value(n) for n in cfg_of(tu, '_cdl_realize_global_int').nodes if n.kind == 'return']
    run.ob('B/constant-value-and-sign-delivered', '_cdl_realize_global_int', 'gc->value = ic->value; return ic->neg', asg.get('gc->value') == 'ic->value' and rets == ['ic->neg'], tu.where(ic))
    neg = [cx.render(r) for l, r, op_, _x in cx.assignments(tu.func('ffiobj_init')) if cx.lhs_text(l) == 'nintconsts[i].neg']
    run.ob('B/constant-sign-is-value<=0', 'ffiobj_init', 'neg = (o <= 0)', len(neg) == 1 and 'PyObject_RichCompareBool(o, &_Py_FalseStruct, 1)' in neg[0], tu.where(tu.func('ffiobj_init')), str(neg))
    # field size only for non-NOOP ops on both sides
    fe = rc.find('FieldExpr.as_field_python_expr')
    tests = [(u(s.test), [u(x) for x in s.body]) for s in ast.walk(fe) if isinstance(s, ast.If)]
    ok = ("self.field_type_op.op == OP_NOOP", ["size_expr = ''"]) in tests and any(t == 'self.field_type_op.op == OP_BITFIELD' and b == ['size_expr = format_four_bytes(self.fbitsize)'] for t, b in tests)
    rd = [n for n in g.nodes if n.kind == 'cond' and 'field_type_op' in cx.render(n.ast)]
    OPS = {k: v for k, v in rules.macro_flags(tu, '_CFFI_OP_').items()}
    okr = len(rd) == 1 and cx.render(rd[0].ast).endswith('!= %d' % OPS['_CFFI_OP_NOOP'])
    run.ob('B/field-size-present-iff-not-a-plain-field', 'FieldExpr ~ ffiobj_init', 'NOOP: no size; BITFIELD: 4-byte width', ok and okr, rc.where(fe), str(tests))
    # keywords
    kw = None
    for d in cx.walk(tu.func('ffiobj_init')):
        if d.get('kind') == 'VarDecl' and d.get('name') == 'keywords':
            init = [c for c in cx.kids(d) if c.get('kind') == 'InitListExpr']
            kw = [ast.literal_eval(cx.strip(e, casts=True)['value']) for e in cx.kids(init[0]) if cx.strip(e, casts=True).get('kind') == 'StringLiteral']
    wp = rc.find('Recompiler.write_py_source_to_f')
    written = set()
    for c in ast.walk(wp):
        if isinstance(c, ast.Call) and u(c.func) == 'prnt' and c.args:
            a = c.args[0]
            s = a.left.value if isinstance(a, ast.BinOp) and isinstance(a.left, ast.Constant) else (a.value if isinstance(a, ast.Constant) else '')
            mm = re.match(r'\s+(_\w+|_%ss) = ', s or '')
            if mm:
                written.add(mm.group(1))
    steps = ['_%ss' % s for s in ('global', 'struct_union', 'enum', 'typename')]
    names = (written - {'_%ss'}) | (set(steps) if '_%ss' in written else set())
    run.ob('B/keyword-names-agree', 'write_py_source_to_f ~ ffiobj_init', 'keywords %s' % sorted(names), kw is not None and names <= set(kw) and
           {'_version', '_types', '_globals', '_struct_unions', '_enums', '_typenames', '_includes'} <= names, rc.where(wp), 'reader accepts %s' % kw)
    # C enum primitive map
    ee = rc.find('EnumExpr.as_python_expr')
    from . import c10
    dmap = {k: v for k, v in c10.enum_prim_table()[2].items()}
    mac = wt.macros.get('_cffi_prim_int')
    cmap = {}
    if mac:
        for size, a, b in re.findall(r'\(size\)\s*==\s*(\d+)\s*\?\s*\(\(sign\)\s*\?\s*_CFFI_(\w+)\s*:\s*_CFFI_(\w+)\)', mac[1]):
            cmap[(int(size), 1)] = a
            cmap[(int(size), 0)] = b
    ok = len(dmap) == 8 and dmap == cmap
    run.ob('C/enum-primitive-map-agrees', 'EnumExpr.as_python_expr ~ _cffi_prim_int', '(size, signed) -> PRIM_*', ok, rc.where(ee), 'python %s / C %s' % (sorted(dmap.items()), sorted(cmap.items())))
    # D provenance of names
    n = 0
    for qn, f in rc.defs.items():
        if not isinstance(f, ast.FunctionDef) or not qn.startswith('Recompiler.'):
            continue
        for c in ast.walk(f):
            if isinstance(c, ast.Call) and u(c.func) == 'self._typedef_ctx':
                n += 1
                ok = qn == 'Recompiler._generate_cpy_typedef_ctx'
                run.ob('D/typedef-entries-come-from-typedef-declarations', qn, u(c), ok, rc.where(c),
                       None if ok else 'a typedef name is emitted that the cdef did not declare: list_types() of the out-of-line module differs from the in-line FFI')
            if isinstance(c, ast.Call) and u(c.func) == 'self._struct_ctx' and qn == 'Recompiler._add_missing_struct_unions':
                n += 1
                # names emitted here must be filtered by list_types ('$'-names), except what the guards let through
                guards = [u(s.test) for s in ast.walk(f) if isinstance(s, ast.If)]
                nonfiltered = [gd for gd in guards if "tp.name ==" in gd]
                ok = not nonfiltered
                run.ob('D/anonymous-struct-entries-are-filtered-names', qn, u(c), ok, rc.where(c),
                       None if ok else 'a struct name not starting with $ is emitted without a struct declaration (%s)' % nonfiltered)
    run.need(n >= 2, 'provenance sites found: %d' % n)
    lt = tu.func('ffi_list_types')
    cond = [nn for nn in cfg_of(tu, 'ffi_list_types').nodes if nn.kind == 'cond' and "s->name[0] == 36" in cx.render(nn.ast)]
    # E: the layout-relevant flags of a struct do not depend on whether its fields get checked
    from ..pyast import sympath as sp
    sc = rc.find('Recompiler._struct_ctx')
    stop = None
    for k, st in enumerate(sc.body):
        if isinstance(st, ast.Assign) and u(st.targets[0]) == 'flags' and 'join' in u(st.value):
            stop = k
    run.need(stop is not None, "Recompiler._struct_ctx: `flags = '|'.join(flags)` not found")
    for label, partial, anon in (('fully declared', False, ()), ('partial (...)', True, ()), ('with an anonymous nested struct/union', False, (True,)), ('with only named members', False, (False, False))):
        for packed in (0, 1):
            ev = sp.Evaluator({'isinstance': lambda a, k, e, f: False, 'any': lambda a, k, e, f: any(a[0]) if a and isinstance(a[0], tuple) else sp.Opq('any(?)')},
                              {'anonymous_struct_fields': lambda r, a, k, e, f, anon=anon: anon})
            env = {'tp': {'fldtypes': ('t',), 'partial': partial, 'packed': packed}, 'named_ptr': None, 'self.ffi._parser._included_declarations': (),
                   'self._typesdict': sp.Opq('typesdict')}
            ps = ev.block(sc.body[:stop + 1], env, [], [])
            if len(ps) != 1 or ps[0].outcome is not None:
                raise AnalysisError('Recompiler._struct_ctx: flags not decided for a %s struct, packed=%d (%d paths)' % (label, packed, len(ps)))
            fl = ps[0].env.get('flags')
            ok = isinstance(fl, str) and (('_CFFI_F_PACKED' in fl.split('|')) == bool(packed))
            run.ob('E/packed-flag-emitted-whenever-the-struct-is-packed', 'Recompiler._struct_ctx', '%s struct, packed=%d -> flags %s' % (label, packed, fl), ok, rc.where(sc),
                   'the out-of-line module rebuilds the layout from these flags: without _CFFI_F_PACKED a packed struct gets the unpacked layout')
    run.ob('D/list-types-hides-dollar-names', 'ffi_list_types', "if (s->name[0] == '$') continue", len(cond) == 1, tu.where(lt))
    run.min_instances('A', 4)
    run.min_instances('B', 10)
    run.assume('equality of the realised ctypes and of dlopen()ed symbol addresses is behavioural and not decided')
