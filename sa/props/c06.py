"""C06 — primitive type facts agree with the compiler and across all tables (DESIGN §3 C06).

T1 _CFFI_PRIM_*/_CFFI_OP_*/_CFFI_F_* (parse_c_type.h)  T2 PRIM_*/OP_*/F_* (cffi_opcode.py)
T3 PRIMITIVE_TO_INDEX                                   T4 primitive_name[] (build_primitive_type)
T5 types[] rows of new_primitive_type (name, measured C type, flags)
T6 return sites of search_standard_typename            T7 PrimitiveType.ALL_PRIMITIVE_TYPES
T8 keyword/modifier switches of parse_complete         T9 common type names ('bool')
plus a compile-only _Static_assert witness per T5 row under gcc and clang.
"""
import ast
import os
import re
import shutil
import subprocess
import tempfile

from .. import AnalysisError
from ..cast import cx, absint, rules
from ..cast.absint import Con
from ..cast.cfg import cfg_of, stmt_text
from ..cast.loader import backend_tu
from ..pyast.index import cffi_mod


def py_int_consts(mod, prefix):
    out = {}
    for st in mod.tree.body:
        if isinstance(st, ast.Assign) and len(st.targets) == 1 and isinstance(st.targets[0], ast.Name):
            n = st.targets[0].id
            if n.startswith(prefix) and isinstance(st.value, ast.Constant) and isinstance(st.value.value, int):
                out[n] = st.value.value
    return out


def c_int_macros(tu, prefix):
    out = {}
    for k, v in tu.macros.items():
        if k.startswith(prefix) and v[0] is None:
            body = v[1].split('/*')[0].strip()
            try:
                out[k] = int(body.strip('()').rstrip('UuLl'), 0)
            except ValueError:
                pass
    return out


def t1_t2(run, tu, om):
    """(a) the C header and the Python module define the same opcode/primitive/flag numbers"""
    for cpre, ppre, what in (('_CFFI_PRIM_', 'PRIM_', 'primitive index'), ('_CFFI_OP_', 'OP_', 'opcode'),
                             ('_CFFI_F_', 'F_', 'struct flag')):
        c = {k[len(cpre):]: v for k, v in c_int_macros(tu, cpre).items()}
        p = {k[len(ppre):]: v for k, v in py_int_consts(om, ppre).items()}
        run.need(len(c) >= 5 and len(p) >= 5, '%s tables not found (C %d, Python %d)' % (what, len(c), len(p)))
        for name in sorted(set(c) | set(p)):
            ok = c.get(name) == p.get(name)
            run.ob('a/header-and-python-agree', 'parse_c_type.h ~ cffi_opcode.py', '%s%s' % (cpre, name), ok,
                   'src/cffi/parse_c_type.h', 'C: %s, Python %s%s: %s' % (c.get(name), ppre, name, p.get(name)))
    prims = {k[len('_CFFI_PRIM_'):]: v for k, v in c_int_macros(tu, '_CFFI_PRIM_').items()}
    num = c_int_macros(tu, '_CFFI__NUM_PRIM').get('_CFFI__NUM_PRIM')
    pnum = py_int_consts(om, '_NUM_PRIM').get('_NUM_PRIM')
    vals = sorted(prims.values())
    run.ob('a/primitive-indices-dense', 'parse_c_type.h', '_CFFI_PRIM_* = 0.._CFFI__NUM_PRIM-1',
           vals == list(range(len(vals))) and num == len(vals) == pnum, 'src/cffi/parse_c_type.h',
           'values %s..%s (%d), _CFFI__NUM_PRIM=%s, _NUM_PRIM=%s' % (vals[0], vals[-1], len(vals), num, pnum))
    # unknown markers are negative and distinct in both
    return prims


def t3(run, om):
    d = om.toplevel_assign('PRIMITIVE_TO_INDEX')
    run.need(isinstance(d, ast.Dict), 'PRIMITIVE_TO_INDEX is not a dict literal')
    consts = py_int_consts(om, 'PRIM_')
    out = {}
    for k, v in zip(d.keys, d.values):
        run.need(isinstance(k, ast.Constant) and isinstance(v, ast.Name) and v.id in consts,
                 'PRIMITIVE_TO_INDEX entry not of the form name: PRIM_X')
        if k.value in out:
            run.ob('c/each-name-once', 'cffi_opcode.PRIMITIVE_TO_INDEX', repr(k.value), False, om.where(k), 'duplicate key')
        out[k.value] = consts[v.id]
    return out


def t4(run, tu):
    fn = tu.func('build_primitive_type')
    for x in cx.walk(fn):
        if x.get('kind') == 'VarDecl' and x.get('name') == 'primitive_name':
            init = [c for c in cx.kids(x) if c.get('kind') == 'InitListExpr']
            run.need(init, 'primitive_name[] has no initialiser')
            out = []
            for e in cx.kids(init[0]):
                s = cx.strip(e, casts=True)
                if s.get('kind') == 'StringLiteral':
                    out.append(ast.literal_eval(s['value']))
                else:
                    out.append(None)
            return out, x
    raise AnalysisError('anchor vanished: primitive_name[] in build_primitive_type')


def t5(run, tu):
    fn = tu.func('new_primitive_type')
    g = cfg_of(tu, 'new_primitive_type')
    it = absint.Interp(g, {})
    for x in cx.walk(fn):
        if x.get('kind') == 'VarDecl' and x.get('name') == 'types':
            init = [c for c in cx.kids(x) if c.get('kind') == 'InitListExpr']
            run.need(init, 'types[] has no initialiser')
            rows = []
            for row in cx.kids(init[0]):
                cells = cx.kids(row)
                if len(cells) < 4:
                    continue
                nm = cx.strip(cells[0], casts=True)
                if nm.get('kind') != 'StringLiteral':
                    continue
                measured = desugared = None
                for y in cx.walk(cells[1]):
                    if y.get('kind') == 'UnaryExprOrTypeTraitExpr' and y.get('name') == 'sizeof':
                        at = y.get('argType')
                        measured = at.get('qualType') if isinstance(at, dict) else at
                        desugared = (at.get('desugaredQualType') if isinstance(at, dict) else None) or measured
                fl = it.ev(cells[3], {})
                run.need(measured is not None and isinstance(fl, Con),
                         'types[] row %s: measured type / flags not recognised' % nm.get('value'))
                rows.append({'name': ast.literal_eval(nm['value']), 'measured': measured, 'desugared': desugared, 'flags': fl.v,
                             'site': tu.where(row)})
            return rows
    raise AnalysisError('anchor vanished: types[] in new_primitive_type')


def t6(run, tu, pname, prims):
    """(d) every return site of search_standard_typename is consistent with exactly the name of its index"""
    fname = 'search_standard_typename'
    g = cfg_of(tu, fname)
    it = absint.Interp(g, {})
    found = {}
    for n in g.nodes:
        if n.kind != 'return' or n.id not in g.live():
            continue
        v = it.ev(cx.kids(n.ast)[0], {})
        run.need(isinstance(v, Con), 'return value not constant at %s' % tu.where(n.ast))
        if v.v < 0:
            continue
        idx = v.v
        name = pname[idx] if 0 <= idx < len(pname) else None
        facts = g.dominating_facts(n.id)
        size = lit = litn = None
        chars = {}
        for cn, lab in facts:
            e = cx.strip(cn.ast)
            t = cx.render(e)
            if cn.kind == 'cond' and lab == 'T' and t.startswith('size == '):
                size = cx.int_value(cx.kids(e)[1])
            if cn.kind == 'cond' and lab == 'F' and cx.calls_in(e, 'memcmp') and e.get('kind') == 'CallExpr':
                a = cx.call_args(e)
                s = cx.strip(a[1], casts=True)
                lit = ast.literal_eval(s['value']) if s.get('kind') == 'StringLiteral' else None
                litn = cx.int_value(a[2])
            if cn.kind == 'switch' and lab[0] == 'case':
                m = re.match(r'p\[(\d+)\]$', cx.render(cn.ast))
                if m:
                    chars[int(m.group(1))] = chr(int(lab[1]))
        ok = name is not None and size == len(name) and lit is not None and litn == len(lit) and \
            name == lit + '_t' and all(pos < len(name) and name[pos] == ch for pos, ch in chars.items()) and bool(chars)
        run.ob('d/lookup-site-matches-its-name', fname, 'return %d  /* %s */' % (idx, name), ok, tu.where(n.ast),
               'size==%s, memcmp(p, %r, %s), dispatch chars %s' % (size, lit, litn, chars))
        found.setdefault(idx, []).append(tu.where(n.ast))
    for idx, name in enumerate(pname):
        if name is None or not name.endswith('_t'):
            continue
        ok = len(found.get(idx, [])) == 1
        run.ob('d/every-_t-name-has-one-lookup-site', fname, name, ok, None,
               'sites: %s' % found.get(idx, []))
    # the common prefix test of the function: size >= 6 and suffix "_t"
    entry_ret = [n for n in g.nodes if n.kind == 'return' and n.id in g.live() and stmt_text(n.ast) == 'return -1']
    shortest = min(len(n) for n in pname if n and n.endswith('_t'))
    conds = [cx.render(n.ast) for n in g.nodes if n.kind == 'cond' and cx.render(n.ast).startswith('size <')]
    ok = bool(conds) and all(int(c.split('<')[1]) <= shortest for c in conds)
    run.ob('d/length-prefilter-admits-shortest-name', fname, ' / '.join(conds), ok, tu.where(tu.func(fname)),
           'shortest _t name has %d characters' % shortest)
    return found


def t7(run):
    mm = cffi_mod('model')
    cls = mm.find('PrimitiveType')
    for st in cls.body:
        if isinstance(st, ast.Assign) and any(isinstance(t, ast.Name) and t.id == 'ALL_PRIMITIVE_TYPES' for t in st.targets):
            run.need(isinstance(st.value, ast.Dict), 'ALL_PRIMITIVE_TYPES is not a dict literal')
            out = {}
            for k, v in zip(st.value.keys, st.value.values):
                if k.value in out:
                    run.ob('c/each-name-once', 'model.PrimitiveType.ALL_PRIMITIVE_TYPES', repr(k.value), False, mm.where(k), 'duplicate key')
                out[k.value] = v.value
            return out
    raise AnalysisError('anchor vanished: PrimitiveType.ALL_PRIMITIVE_TYPES')


def t8(run, tu, pname, prims):
    """(g) keyword/modifier combinations of parse_complete name the primitive their spelling denotes"""
    fname = 'parse_complete'
    g = cfg_of(tu, fname)
    it = absint.Interp(g, {})
    fn = tu.func(fname)
    BASE = {-2: 'char', -1: 'short', 0: 'int', 1: 'long', 2: 'long long'}
    n8 = 0
    for node in g.nodes:
        if node.ast is None or node.kind != 'stmt':
            continue
        for l, r, op, x in cx.assignments(node.ast):
            if cx.lhs_text(l) != 't0' or op != '=':
                continue
            v = it.ev(r, {})
            run.need(isinstance(v, Con), 't0 assignment not constant at %s' % tu.where(x))
            facts = g.dominating_facts(node.id)
            length = None
            sign = None
            dflt = False
            tokd = None
            for cn, lab in facts:
                t = cx.render(cn.ast)
                if cn.kind == 'switch' and t == 'modifiers_length':
                    if lab[0] == 'case':
                        length = int(lab[1])
                    else:
                        dflt = True
                if cn.kind == 'cond' and t == 'modifiers_sign >= 0':
                    sign = 1 if lab == 'T' else -1
                if cn.kind == 'switch' and t == 'tok->kind' and lab[0] == 'case':
                    tokd = lab[1]
            got = pname[v.v] if 0 <= v.v < len(pname) else None
            if length is None and not dflt:
                # 'long double'
                want = 'long double' if tokd == 'TOK_DOUBLE' else None
            else:
                ln = 0 if dflt else length
                want = ('unsigned ' if sign == -1 else ('signed ' if ln == -2 else '')) + BASE.get(ln, '?')
            n8 += 1
            run.ob('g/modifier-combination-names-its-type', fname, 't0 = %d /* %s */' % (v.v, got), got == want,
                   tu.where(x), 'modifiers: sign=%s length=%s default=%s token=%s -> expected %s' % (sign, length, dflt, tokd, want))
        # un-modified keywords: t1 = _CFFI_OP(_CFFI_OP_PRIMITIVE, X)
        for l, r, op, x in cx.assignments(node.ast):
            if cx.lhs_text(l) != 't1' or op != '=':
                continue
            v = it.ev(r, {})
            if not isinstance(v, Con):
                continue
            facts = g.dominating_facts(node.id)
            tok = None
            for cn, lab in facts:
                if cn.kind == 'switch' and cx.render(cn.ast) == 'tok->kind' and lab[0] == 'case':
                    tok = lab[1]
            KW = {'TOK_INT': 'int', 'TOK_CHAR': 'char', 'TOK__BOOL': '_Bool', 'TOK_FLOAT': 'float', 'TOK_DOUBLE': 'double'}
            if tok not in KW and tok != 'TOK_VOID':
                continue
            opc, arg = v.v & 0xff, v.v >> 8
            OPS = c_int_macros(tu, '_CFFI_OP_')
            if tok == 'TOK_VOID':
                ok = opc == OPS.get('_CFFI_OP_PRIMITIVE') and arg == prims.get('VOID')
                got = 'primitive index %d (void is %s)' % (arg, prims.get('VOID'))
            else:
                got = pname[arg] if 0 <= arg < len(pname) else None
                ok = opc == OPS.get('_CFFI_OP_PRIMITIVE') and got == KW[tok]
            n8 += 1
            run.ob('g/keyword-names-its-type', fname, 'case %s: t1 = %#x' % (tok, v.v), ok, tu.where(x),
                   'decoded: %s' % got)
    run.need(n8 >= 14, 'expected >= 14 keyword/modifier sites in parse_complete, found %d' % n8)


FLOAT_NAMES = {'float', 'double', 'long double'}


def ir_table(run):
    """the table of new_primitive_type as the compiler folded it: {name: (size, align, flags)} read from the
    LLVM IR of the backend translation unit (clang -S -emit-llvm -O0; nothing is linked or run)"""
    from ..cast.loader import repo_root, py_include, BACKEND_FLAGS
    root = repo_root()
    tmp = tempfile.mkdtemp(prefix='verif-c06-ir-', dir='/var/tmp')
    try:
        out = os.path.join(tmp, 'be.ll')
        r = subprocess.run(['clang', '-S', '-emit-llvm', '-O0', '-w'] + BACKEND_FLAGS + ['-I' + py_include(),
                            os.path.join(root, 'src/c/_cffi_backend.c'), '-o', out], capture_output=True, text=True)
        if r.returncode != 0:
            raise AnalysisError('C06: clang could not emit IR for the backend: %s' % r.stderr[-400:])
        with open(out) as f:
            ir = f.read()
    finally:
        shutil.rmtree(tmp, ignore_errors=True)
    m = re.search(r'^@new_primitive_type\.types = internal constant \[(\d+) x %struct\.descr_s\] \[(.*)\], align', ir, re.M)
    if not m:
        raise AnalysisError('anchor vanished: the static table `types` of new_primitive_type in the IR')
    strs = dict(re.findall(r'^(@\.str(?:\.\d+)?) = private unnamed_addr constant \[\d+ x i8\] c"([^"]*)\\00"', ir, re.M))
    rows = re.findall(r'%struct\.descr_s \{ i8\* getelementptr inbounds \(\[\d+ x i8\], \[\d+ x i8\]\* (@\.str(?:\.\d+)?), i32 0, i32 0\), i32 (-?\d+), i32 (-?\d+), i32 (-?\d+) \}', m.group(2))
    table = {}
    for sref, size, align, flags in rows:
        if sref not in strs:
            raise AnalysisError('C06: string %s of the IR table not found' % sref)
        table[strs[sref]] = (int(size), int(align), int(flags))
    run.need(len(table) + 1 >= int(m.group(1)), 'IR table: parsed %d of %s rows' % (len(table), m.group(1)))
    return table


def witness(run, tu, rows, F, thorough, irt=None):
    """(f) compile-only: the exported name, as the platform compiler understands it with the
    standard headers, has the size/alignment/signedness of the type the row measures and of its flag"""
    typedefs = {}
    for name, d in tu.typedefs.items():
        typedefs[name] = d.get('dtype') or d.get('type')
    STD = {'_cffi_float_complex_t': 'float _Complex', '_cffi_double_complex_t': 'double _Complex'}
    lines = ['#include <stddef.h>', '#include <stdint.h>', '#include <wchar.h>', '#include <uchar.h>',
             '#include <sys/types.h>', '']
    asserts = []
    for i, r in enumerate(rows):
        std = STD.get(r['name'], r['name'])
        meas = r['measured']
        # the measured type as clang desugared it (no private typedef names of cffi / CPython)
        mt = r['desugared']
        m = re.match(r'^(.*?)\s*\[(\d+)\]$', mt)
        if m:
            lines.append('typedef %s std_%d; typedef %s meas_%d[%s];' % (std, i, m.group(1), i, m.group(2)))
        else:
            lines.append('typedef %s std_%d; typedef %s meas_%d;' % (std, i, mt, i))
        lines.append('struct al_s_%d { char x; std_%d y; }; struct al_m_%d { char x; meas_%d y; };' % (i, i, i, i))
        asserts.append(('size', r, '_Static_assert(sizeof(std_%d) == sizeof(meas_%d), "size of %s");' % (i, i, r['name'])))
        asserts.append(('align', r, '_Static_assert(offsetof(struct al_s_%d, y) == offsetof(struct al_m_%d, y), "alignment of %s");' % (i, i, r['name'])))
        if irt is not None:
            if r['name'] not in irt:
                run.ob('f/compiler-witness-ir-row', 'new_primitive_type', 'row %s present in the folded table' % r['name'], False, r['site'])
            else:
                sz, al, ifl = irt[r['name']]
                run.ob('f/compiler-witness-ir-row', 'new_primitive_type', 'flags of row %s in the folded table equal the flags read from the AST' % r['name'],
                       ifl == r['flags'], r['site'], 'IR %#x, AST %#x' % (ifl, r['flags']))
                asserts.append(('size', r, '_Static_assert(sizeof(std_%d) == %d, "folded size of %s");' % (i, sz, r['name'])))
                asserts.append(('align', r, '_Static_assert(_Alignof(std_%d) == %d, "folded alignment of %s");' % (i, al, r['name'])))
        fl = r['flags']
        if fl & (F['CT_PRIMITIVE_SIGNED'] | F['CT_PRIMITIVE_UNSIGNED']):
            want_signed = 1 if fl & F['CT_PRIMITIVE_SIGNED'] else 0
            asserts.append(('sign', r, '_Static_assert((((std_%d)-1) < 0) == %d, "signedness flag of %s");' % (i, want_signed, r['name'])))
            asserts.append(('sign', r, '_Static_assert((((meas_%d)-1) < 0) == %d, "signedness of measured type of %s");' % (i, want_signed, r['name'])))
            if r['name'] != '_Bool':
                asserts.append(('kind', r, '_Static_assert((std_%d)0.5 == 0, "%s is an integer type");' % (i, r['name'])))
        elif fl & F['CT_PRIMITIVE_FLOAT']:
            asserts.append(('kind', r, '_Static_assert(_Generic((std_%d)0, float: 1, double: 1, long double: 1, default: 0), "%s is a floating type");' % (i, r['name'])))
        elif fl & F['CT_PRIMITIVE_CHAR']:
            asserts.append(('kind', r, '_Static_assert((std_%d)0.5 == 0, "%s is an integer type");' % (i, r['name'])))
            if r['name'] == 'wchar_t':
                want_signed = 1 if fl & F['CT_IS_SIGNED_WCHAR'] else 0
                asserts.append(('sign', r, '_Static_assert((((std_%d)-1) < 0) == %d, "CT_IS_SIGNED_WCHAR of wchar_t");' % (i, want_signed)))
            if r['name'] in ('char16_t', 'char32_t'):
                asserts.append(('sign', r, '_Static_assert((((std_%d)-1) < 0) == (((meas_%d)-1) < 0), "signedness of %s");' % (i, i, r['name'])))
        if r['name'] == '_Bool':
            asserts.append(('kind', r, '_Static_assert((std_%d)2 == 1, "_Bool saturates");' % i))
            asserts.append(('flag', r, '_Static_assert(%d, "_Bool carries CT_IS_BOOL");' % (1 if fl & F['CT_IS_BOOL'] else 0)))
        if r['name'] == 'long double':
            asserts.append(('flag', r, '_Static_assert(%d, "long double carries CT_IS_LONGDOUBLE");' % (1 if fl & F['CT_IS_LONGDOUBLE'] else 0)))
    body = '\n'.join(lines)
    compilers = ['gcc', 'clang'] if thorough else ['gcc']
    tmp = tempfile.mkdtemp(prefix='verif-c06-', dir='/var/tmp')
    try:
        for cc in compilers:
            # failing twin first: one false assertion must make the compile fail
            src = body + '\n_Static_assert(sizeof(std_0) == 9999, "twin");\n'
            p = os.path.join(tmp, 'twin.c')
            open(p, 'w').write(src)
            r = subprocess.run([cc, '-fsyntax-only', '-std=gnu11', p], capture_output=True, text=True)
            if r.returncode == 0 or 'static' not in r.stderr.lower():
                raise AnalysisError('C06: failing twin did not fail under %s (witness would be vacuous): %s' % (cc, r.stderr[-300:]))
            # all assertions together; on failure bisect per assertion to name the row
            src = body + '\n' + '\n'.join(a for _k, _r, a in asserts) + '\n'
            p = os.path.join(tmp, 'w.c')
            open(p, 'w').write(src)
            r = subprocess.run([cc, '-fsyntax-only', '-std=gnu11', p], capture_output=True, text=True)
            failed = set()
            if r.returncode != 0:
                for line in r.stderr.splitlines():
                    m = re.search(r'static.assert\w*\s+failed.*?"([^"]+)"', line) or re.search(r'static assertion failed: "?([^"]+)"?', line)
                    if m:
                        failed.add(m.group(1).strip())
                if not failed:
                    raise AnalysisError('C06: witness TU does not compile under %s: %s' % (cc, r.stderr[-500:]))
            for kind, row, a in asserts:
                msg = re.search(r'"([^"]+)"\);$', a).group(1)
                run.ob('f/compiler-witness-%s' % kind, 'new_primitive_type', '%s [%s]' % (msg, cc), msg not in failed,
                       row['site'], 'row %s measures %s with flags %#x' % (row['name'], row['measured'], row['flags']))
    finally:
        shutil.rmtree(tmp, ignore_errors=True)
    run.saw('compilers used for the witness', compilers)


def t9(run, tu, names):
    v = tu.var('common_simple_types')
    init = [c for c in cx.kids(v) if c.get('kind') == 'InitListExpr']
    run.need(init, 'common_simple_types[] has no initialiser')
    entries = []
    for e in cx.kids(init[0]):
        s = cx.strip(e, casts=True)
        if s.get('kind') == 'StringLiteral':
            raw = s['value']
            val = ast.literal_eval('b' + raw) if not raw.startswith('b') else ast.literal_eval(raw)
            k, _sep, vv = val.partition(b'\0')
            entries.append((k.decode(), vv.decode()))
    run.need(entries, 'common_simple_types[] entries not recognised')
    keys = [k for k, _ in entries]
    run.ob('h/common-types-table-sorted-for-bsearch', 'common_simple_types', 'keys in strcmp order', keys == sorted(keys, key=lambda s: s.encode()),
           tu.where(v), str(keys))
    d = dict(entries)
    run.ob('h/bool-is-_Bool', 'common_simple_types', '"bool" -> "_Bool"', d.get('bool') == '_Bool' and '_Bool' in names, tu.where(v))
    cm = cffi_mod('commontypes')
    val = None
    for st in cm.tree.body:
        if isinstance(st, ast.Assign) and isinstance(st.targets[0], ast.Subscript):
            t = st.targets[0]
            if isinstance(t.value, ast.Name) and t.value.id == 'COMMON_TYPES' and isinstance(t.slice, ast.Constant):
                if t.slice.value == 'bool' and isinstance(st.value, ast.Constant):
                    val = st.value.value
    run.ob('h/bool-is-_Bool', 'commontypes.COMMON_TYPES', "COMMON_TYPES['bool'] = '_Bool'", val == '_Bool', 'src/cffi/commontypes.py')
    for k in ('float _Complex', 'double _Complex'):
        vv = None
        for st in cm.tree.body:
            if isinstance(st, ast.Assign) and isinstance(st.targets[0], ast.Subscript):
                t = st.targets[0]
                if isinstance(t.slice, ast.Constant) and t.slice.value == k and isinstance(st.value, ast.Constant):
                    vv = st.value.value
        run.ob('h/complex-spelling-maps-to-primitive', 'commontypes.COMMON_TYPES', 'COMMON_TYPES[%r]' % k,
               vv in names and vv == '_cffi_%s_complex_t' % k.split()[0], 'src/cffi/commontypes.py', 'maps to %r' % vv)


def check(run):
    run.explanation = (
        'Nine-way table agreement, all tables extracted from the current sources (C initialisers and macro values '
        'through clang, Python dict/constant literals through ast): opcode/primitive/flag numbers of the header and '
        'the Python module, PRIMITIVE_TO_INDEX vs primitive_name[] (inverse), key sets of PRIMITIVE_TO_INDEX / '
        'ALL_PRIMITIVE_TYPES / the 52 rows of new_primitive_type, every return site of search_standard_typename '
        'against the one name it may denote (length, literal, dispatch characters) with completeness, model kind vs '
        'backend flag class, the keyword/modifier switches of parse_complete, and a compile-only _Static_assert '
        'witness per row (size, alignment, signedness/kind as the platform compiler sees the exported name with the '
        'standard headers) with a failing twin. The finite set of primitive names is enumerated completely.')
    thorough = run.tier == 'thorough'
    tu = backend_tu()
    om = cffi_mod('cffi_opcode')
    F = rules.macro_flags(tu, 'CT_')
    prims = t1_t2(run, tu, om)
    p2i = t3(run, om)
    pname, pnode = t4(run, tu)
    rows = t5(run, tu)
    kinds = t7(run)
    # the type object takes size and alignment from the matching columns of the table row (the alignment of a primitive lives in ct_length)
    npt = tu.func('new_primitive_type')
    asg = {}
    for l_, r_, o_, _x in cx.assignments(npt):
        asg.setdefault(cx.lhs_text(l_), []).append(cx.render(r_))
    run.ob('f/type-object-takes-size-and-alignment-from-their-columns', 'new_primitive_type', 'td->ct_size = ptypes->size; td->ct_length = ptypes->align',
           asg.get('td->ct_size') == ['ptypes->size'] and asg.get('td->ct_length') == ['ptypes->align'], tu.where(npt),
           'ct_size = %s, ct_length (alignment) = %s' % (asg.get('td->ct_size'), asg.get('td->ct_length')))
    run.saw('T3 PRIMITIVE_TO_INDEX entries', ['%d' % len(p2i)])
    run.saw('T4 primitive_name[] entries', ['%d' % len(pname)])
    run.saw('T5 types[] rows', [r['name'] for r in rows])
    run.saw('T7 ALL_PRIMITIVE_TYPES entries', ['%d' % len(kinds)])
    run.need(len(rows) >= 50 and len(pname) >= 50 and len(p2i) >= 50 and len(kinds) >= 50, 'primitive tables suspiciously small')
    # (b) T4 inverse of T3, index 0 = void
    run.ob('b/index-0-is-void', 'build_primitive_type', 'primitive_name[0] == NULL', pname[0] is None and prims.get('VOID') == 0,
           tu.where(pnode))
    num = c_int_macros(tu, '_CFFI__NUM_PRIM').get('_CFFI__NUM_PRIM')
    run.ob('b/name-table-has-NUM_PRIM-entries', 'build_primitive_type', 'len(primitive_name) == _CFFI__NUM_PRIM',
           len(pname) == num, tu.where(pnode), 'len=%d, _CFFI__NUM_PRIM=%s' % (len(pname), num))
    for name in sorted(set(p2i) | {n for n in pname if n}):
        idx = p2i.get(name)
        back = pname[idx] if idx is not None and 0 <= idx < len(pname) else None
        run.ob('b/index-to-name-inverts-name-to-index', 'PRIMITIVE_TO_INDEX ~ primitive_name[]', name,
               back == name, None, 'PRIMITIVE_TO_INDEX[%r]=%s, primitive_name[%s]=%r' % (name, idx, idx, back))
    # (c) key sets
    rownames = [r['name'] for r in rows]
    for name in sorted(set(p2i) | set(kinds) | set(rownames)):
        ok = name in p2i and name in kinds and rownames.count(name) == 1
        run.ob('c/name-known-to-all-tables', 'PRIMITIVE_TO_INDEX ~ ALL_PRIMITIVE_TYPES ~ types[]', name, ok, None,
               'in PRIMITIVE_TO_INDEX: %s, in ALL_PRIMITIVE_TYPES: %s, rows in types[]: %d' % (
                   name in p2i, name in kinds, rownames.count(name)))
    # (e) kind vs flag class
    CLS = {'c': F['CT_PRIMITIVE_CHAR'], 'f': F['CT_PRIMITIVE_FLOAT'], 'j': F['CT_PRIMITIVE_COMPLEX'],
           'i': F['CT_PRIMITIVE_SIGNED'] | F['CT_PRIMITIVE_UNSIGNED']}
    ANY = F['CT_PRIMITIVE_SIGNED'] | F['CT_PRIMITIVE_UNSIGNED'] | F['CT_PRIMITIVE_CHAR'] | F['CT_PRIMITIVE_FLOAT'] | F['CT_PRIMITIVE_COMPLEX']
    for r in rows:
        k = kinds.get(r['name'])
        cls = r['flags'] & ANY
        ok = k in CLS and cls != 0 and (cls & CLS[k]) == cls and bin(cls).count('1') == 1
        run.ob('e/model-kind-matches-backend-flag-class', 'ALL_PRIMITIVE_TYPES ~ types[]', r['name'], ok, r['site'],
               'model kind %r, backend flags %#x' % (k, r['flags']))
    t6(run, tu, pname, prims)
    t8(run, tu, pname, prims)
    witness(run, tu, rows, F, thorough, ir_table(run))
    t9(run, tu, set(rownames))
    run.min_instances('a/header-and-python-agree', 75)
    run.min_instances('b/index-to-name-inverts-name-to-index', 50)
    run.min_instances('d/lookup-site-matches-its-name', 35)
    run.min_instances('f', 150)
    run.min_instances('g', 14)
    run.exhaustive = True
    run.assume('the platform compiler (gcc 12 / clang 14, x86-64 Linux, glibc headers) is the oracle for the witness; nothing is linked or run')
    run.assume('identity of ctype objects across FFIs at run time is C27, not decided here')
