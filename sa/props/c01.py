"""C01 — ABI-mode struct and union layout equals the C compiler's layout (structural decision).

The layout is computed at run time, one field at a time, by the loop of
b_complete_struct_or_union_lock_held.  One iteration is a pure function of a small state
(byteoffset, bitoffset, alignment, byteoffsetmax) and of the field's class (size, alignment,
bit width, named or not) under (is_union, pack, sflags).  That function is decided, not sampled:

T1 transformer equivalence: for every point of a finite grid that covers every residue of the
   running offset modulo the largest alignment, every bit offset, every field class of the
   property (regular fields of every size/alignment incl. odd-sized aggregates, arrays, flexible
   arrays, nested anonymous aggregates; bit-fields of every storage size x width incl. zero-width
   and unnamed; struct and union; pack = default, 1, 2, 4, 8), constant propagation through the
   CFG of the loop body (sa/cast/absint.py, nothing executed) must give the same next state and the
   same _add_field(offset, bitshift, bitsize) as the reference model in this file, and must not
   take an error exit where the model does not.  Prologue (pack/sflags normalisation) and
   epilogue (total size = round-up, empty -> 1, alignment) are decided the same way.
W1 the reference model is the compiler's: for a corpus of generated declarations (every field
   class above, packed / pack(N) without bit-fields, unions, nesting, deterministic
   pseudo-random mixes) the model's offsets, bit positions, sizeof and alignof equal clang's own
   record layout table (-fdump-record-layouts, front end only: nothing is compiled or run), and
   the sizes/alignments of the primitive types assumed by the model are _Static_assert'ed (gcc).
F1 the Python side hands the declaration over unchanged: finish_backend_type zips names, types and
   bit sizes in order and passes packed as SF_PACKED / pack=N in the argument positions the
   backend parses.
"""
import ast
import os
import random
import re
import shutil
import subprocess
import tempfile
from concurrent.futures import ProcessPoolExecutor

from .. import AnalysisError
from ..cast import cx, absint, rules
from ..cast.absint import Con
from ..cast.cfg import cfg_of, stmt_text
from ..cast.loader import backend_tu
from ..pyast.index import cffi_mod, u

FN = 'b_complete_struct_or_union_lock_held'
DEFAULT_PACK = 0x40000000

PRIMS = {'char': (1, 1), 'signed char': (1, 1), 'unsigned char': (1, 1), 'short': (2, 2), 'unsigned short': (2, 2),
         'int': (4, 4), 'unsigned int': (4, 4), 'long': (8, 8), 'unsigned long': (8, 8), 'long long': (8, 8),
         'unsigned long long': (8, 8), '_Bool': (1, 1), 'float': (4, 4), 'double': (8, 8), 'long double': (16, 16),
         'void *': (8, 8)}
BITFIELD_TYPES = ['signed char', 'unsigned char', 'short', 'unsigned short', 'int', 'unsigned int', 'long', 'unsigned long',
                  'long long', 'unsigned long long', '_Bool']


def roundup(x, a):
    return (x + a - 1) & ~(a - 1)


# ------------------------------------------------------------------------- the reference model
def model_step(b, t, A, bmax, f, union, pack, packed):
    """one field.  f = dict(size, align, bits(-1 for none), named, flex).  Returns
    (b, t, A, bmax, emit) with emit = (offset, shift, bits) / (offset, None, -1) / None, or ('error', why)"""
    if union:
        b = t = 0
    a0 = f['align']
    a = min(pack, a0)
    do_align = True
    if f['bits'] >= 0:
        do_align = f['named']            # GCC: unnamed bit-fields (of any width) do not align the struct
    if do_align and A < a:
        A = a
    emit = None
    if f['bits'] < 0:
        b = b + (1 if t > 0 else 0)
        t = 0
        b = roundup(b, a)
        # an anonymous nested aggregate is flattened: its own fields are added at this offset, no field for the member itself
        emit = ('flatten', b) if f.get('anon_aggregate') else (b, None, -1)
        if f['size'] >= 0:
            b += f['size']
    else:
        if f['bits'] > 8 * f['size']:
            return ('error', 'width exceeds the type')
        fob = b & ~(a - 1)
        if f['bits'] == 0:
            if f['named']:
                return ('error', 'named :0')
            if b + (1 if t > 0 else 0) > fob:
                fob += a
            b, t = fob, 0
        else:
            bao = (b - fob) * 8 + t
            if bao + f['bits'] > 8 * f['size']:
                if packed and (bao & 7):
                    return ('error', 'packed bit-field straddle')
                fob += a
                b, t, shift = fob, 0, 0
            else:
                shift = bao
            t += f['bits']
            b += t >> 3
            t &= 7
            if f['named']:
                emit = (fob, shift, f['bits'])
    end = b + (1 if t > 0 else 0)
    if end > bmax:
        bmax = end
    return (b, t, A, bmax, emit)


def model_finish(bmax, A):
    size = roundup(bmax, A)
    return (size or 1), A


# ------------------------------------------------------------------------- the code, abstractly
class Code:
    def __init__(self, tu):
        self.tu = tu
        self.g = g = cfg_of(tu, FN)
        pa = [n for n in g.nodes if n.kind == 'cond' and 'PyArg_ParseTuple' in cx.render(n.ast)]
        latch = [n for n in g.nodes if n.ast is not None and n.kind == 'stmt' and stmt_text(n.ast).replace(' ', '') in ('i++', '++i', 'i+=1')]
        fin = [n for n in g.nodes if n.kind == 'label']
        loop = [n for n in g.nodes if n.kind == 'cond' and cx.render(n.ast).replace(' ', '') == 'i<nb_fields']
        if not (len(pa) == 1 and len(latch) == 1 and len(fin) == 1 and len(loop) == 1):
            raise AnalysisError('%s: loop skeleton not recognised (parse %d, latch %d, labels %d, loop tests %d)' % (FN, len(pa), len(latch), len(fin), len(loop)))
        self.start = [t for t, l in pa[0].succ if l == 'T'][0]
        self.latch, self.fin, self.loop = latch[0].id, fin[0].id, loop[0]
        self.flags = rules.macro_flags(tu, 'CT_')
        self.sf = rules.macro_flags(tu, 'SF_')

    def step(self, b, t, A, bmax, f, union, pack, sflags):
        rec = []
        F = self.flags
        if f.get('flex'):
            fl, size = F['CT_ARRAY'], -1
        elif f.get('anon_aggregate'):
            fl, size = F['CT_STRUCT'], f['size']
        elif f['bits'] >= 0:
            fl, size = F['CT_PRIMITIVE_SIGNED'], f['size']
        else:
            fl, size = F['CT_PRIMITIVE_SIGNED'], f['size']
        namelen = 1 if f['named'] else 0
        hooks = {'get_alignment': lambda a, e: Con(f['align'], 32, True),
                 'PyUnicode_GetLength': lambda a, e: Con(namelen, 64, True),
                 '_add_field': lambda a, e: (rec.append(a), Con(1, 64, False))[1],
                 'force_lazy_struct': lambda a, e: Con(0, 32, True)}
        env = {'byteoffset': Con(b, 64, True), 'bitoffset': Con(t, 32, True), 'alignment': Con(A, 32, True),
               'byteoffsetmax': Con(bmax, 64, True), 'is_union': Con(union, 32, True), 'pack': Con(pack, 32, True),
               'sflags': Con(sflags, 32, True), 'fbitsize': Con(f['bits'], 32, True), 'foffset': Con(-1, 64, True),
               'ftype->ct_size': Con(size, 64, True), 'ftype->ct_flags': Con(fl, 32, True), 'ftype->ct_length': Con(0, 64, True),
               'ftype->ct_flags_mut': Con(0, 32, True), 'i': Con(2, 64, True), 'nb_fields': Con(3, 64, True),
               'prev_bitfield_size': Con(0, 32, True), 'prev_bitfield_free': Con(0, 32, True),
               'ct->ct_unrealized_struct_or_union': Con(1, 32, True), 'ftype->ct_extra': Con(0, 64, False)}
        it = absint.Interp(self.g, env, hooks, const_vars={'is_union', 'pack', 'sflags', 'fbitsize', 'foffset', 'ftype->ct_size',
                                                           'ftype->ct_flags', 'ftype->ct_length', 'i', 'nb_fields'})
        it.run_from(self.start, env, {self.latch, self.fin})
        st = it.in_state.get(self.latch)
        err = it.in_state.get(self.fin)
        if st is None and err is None:
            raise AnalysisError('%s: neither the loop latch nor the error label is reached from the loop body' % FN)
        if err is not None and st is not None:
            return ('undecided', 'both the latch and the error exit are reachable')
        if st is None:
            return ('error', 'goto finally')
        vals = []
        for k in ('byteoffset', 'bitoffset', 'alignment', 'byteoffsetmax'):
            v = st.get(k)
            if not isinstance(v, Con):
                return ('undecided', '%s is not a constant after the iteration' % k)
            vals.append(v.v)
        emit = None
        if rec:
            if len(rec) != 1:
                return ('undecided', '%d fields added in one iteration' % len(rec))
            a = rec[0]
            off, sh, bits = a[3], a[4], a[5]
            if not all(isinstance(x, Con) for x in (off, sh, bits)):
                return ('undecided', '_add_field arguments are not constants')
            emit = (off.v, None, -1) if bits.v < 0 else (off.v, sh.v, bits.v)
        return tuple(vals) + (emit,)


_CODE = None


def _code():
    global _CODE
    if _CODE is None:
        _CODE = Code(backend_tu())
    return _CODE


def _eval_chunk(args):
    """worker: evaluate a chunk of grid points; returns mismatches as text tuples"""
    points = args
    code = _code()
    bad = []
    n = 0
    for (cls, f, union, pack, packed, sflags, b, t, A, bmax) in points:
        want = model_step(b, t, A, bmax, f, union, pack, packed)
        got = code.step(b, t, A, bmax, f, union, pack, sflags)
        n += 1
        if want[0] != 'error' and isinstance(want[4], tuple) and want[4] and want[4][0] == 'flatten':
            want = want[:4] + (None,)       # (the member offset is implied by the next byteoffset)
        if got != want and not (want[0] == 'error' and got[0] == 'error'):
            bad.append((cls, union, pack, (b, t, A, bmax), repr(want), repr(got)))
    return n, bad


def field_classes(thorough):
    out = []
    for size, align in ((1, 1), (2, 2), (4, 4), (8, 8), (16, 16), (3, 1), (6, 2), (12, 4), (24, 8), (5, 1)):
        out.append(('regular size=%d align=%d' % (size, align), dict(size=size, align=align, bits=-1, named=True)))
    out.append(('flexible array of int', dict(size=-1, align=4, bits=-1, named=True, flex=True)))
    out.append(('flexible array of char', dict(size=-1, align=1, bits=-1, named=True, flex=True)))
    out.append(('anonymous nested aggregate size=12 align=4', dict(size=12, align=4, bits=-1, named=False, anon_aggregate=True)))
    for ts in (1, 2, 4, 8):
        widths = sorted({w for w in (0, 1, 2, 3, 5, 7, 8, 9, 15, 16, 17, 24, 31, 32, 33, 40, 63, 64) if w <= 8 * ts}) if not thorough else range(0, 8 * ts + 1)
        for w in widths:
            for named in (True, False):
                if w == 0 and named:
                    continue
                out.append(('bit-field %s:%d of a %d-byte type' % ('named' if named else 'unnamed', w, ts), dict(size=ts, align=ts, bits=w, named=named)))
    return out


def t1(run, code, thorough):
    sf = code.sf
    base = sf['SF_GCC_X86_BITFIELDS'] | sf['SF_GCC_LITTLE_ENDIAN']
    bs = range(0, 34) if thorough else list(range(0, 18)) + [23, 31, 32, 33]
    ts_ = range(0, 8) if thorough else (0, 1, 3, 7)
    points = []
    classes = field_classes(thorough)
    for cls, f in classes:
        for union in (0, 1):
            for pack, packed in ((DEFAULT_PACK, False), (1, True), (2, True), (4, True), (8, True)):
                if packed and f['bits'] >= 0:
                    continue        # the property excludes packing together with bit-fields
                sflags = base | (sf['SF_PACKED'] if packed else 0)
                for b in bs:
                    for t in ts_:
                        if t and f['bits'] < 0 and not thorough and t != 3:
                            continue
                        points.append((cls, f, union, pack, packed, sflags, b, t, 1, b + (1 if t else 0)))
                # the alignment / maximum components, on a few states
                for A in (1, 2, 4, 8, 16):
                    for bmax in (0, 40):
                        points.append((cls, f, union, pack, packed, sflags, 5, 0, A, bmax))
    chunks = [points[i::64] for i in range(64)]
    total = 0
    bad = []
    with ProcessPoolExecutor(max_workers=min(16, os.cpu_count() or 1)) as ex:
        for n, b_ in ex.map(_eval_chunk, chunks):
            total += n
            bad += b_
    by = {}
    for cls, f in classes:
        for union in (0, 1):
            by[(cls, union)] = []
    for m in bad:
        by.setdefault((m[0], m[1]), []).append(m)
    fn = code.tu.func(FN)
    for (cls, union), ms in sorted(by.items()):
        und = [m for m in ms if "'undecided'" in m[5]]
        if und:
            raise AnalysisError('%s: %s in a %s at state %s: %s' % (FN, cls, 'union' if union else 'struct', und[0][3], und[0][5]))
        run.ob('T1/field-placement-equals-the-reference-model', FN, '%s in a %s' % (cls, 'union' if union else 'struct'), not ms, code.tu.where(fn),
               ('pack=%s state (byteoffset, bitoffset, alignment, max)=%s: model %s, code %s' % (
                   'default' if ms[0][2] == DEFAULT_PACK else ms[0][2], ms[0][3], ms[0][4], ms[0][5])) if ms else 'equal on every grid point')
    run.saw('T1 grid points evaluated', ['%d' % total])
    return total


def t2(run, code):
    g, tu = code.g, code.tu
    sf = code.sf
    fn = tu.func(FN)
    # prologue: entry -> first visit of the loop test
    for sflags_in, pack_in, want_pack, want_packed in ((0, 0, DEFAULT_PACK, False), (0, -1, DEFAULT_PACK, False), (sf['SF_PACKED'], 0, 1, True),
                                                     (0, 1, 1, True), (0, 2, 2, True), (0, 4, 4, True), (0, 8, 8, True)):
        hooks = {'complete_sflags': lambda a, e, s=sflags_in: Con(s | sf['SF_GCC_X86_BITFIELDS'] | sf['SF_GCC_LITTLE_ENDIAN'], 32, True),
                 'PyDict_New': lambda a, e: Con(1, 64, False)}
        env = {'sflags': Con(sflags_in, 32, True), 'pack': Con(pack_in, 32, True), 'ct->ct_flags': Con(code.flags['CT_STRUCT'], 32, True),
               'ct->ct_unrealized_struct_or_union': Con(1, 32, True), 'ct->ct_under_construction': Con(0, 32, True)}
        it = absint.Interp(g, env, hooks)
        it.run_from(g.entry.id, env, {code.loop.id})
        st = it.in_state.get(code.loop.id) or {}
        got = {k: (st.get(k).v if isinstance(st.get(k), Con) else None) for k in ('pack', 'sflags', 'alignment', 'byteoffset', 'bitoffset', 'byteoffsetmax')}
        ok = got['pack'] == want_pack and got['sflags'] is not None and bool(got['sflags'] & sf['SF_PACKED']) == want_packed and \
            (got['alignment'], got['byteoffset'], got['bitoffset'], got['byteoffsetmax']) == (1, 0, 0, 0)
        run.ob('T2/prologue-normalises-packing-and-starts-at-zero', FN, 'sflags=%#x pack=%d -> pack=%s, SF_PACKED=%s, state (1, 0, 0, 0)' % (
            sflags_in, pack_in, 'default' if want_pack == DEFAULT_PACK else want_pack, want_packed), ok, tu.where(fn), 'constant propagation gives %s' % got)
    # the struct/union distinction comes from the type's own flag
    iu = [cx.render(a[1]) for a in cx.assignments(fn) if cx.lhs_text(a[0]) == 'is_union']
    run.ob('T2/union-ness-read-from-the-type', FN, 'is_union = ct->ct_flags & CT_UNION', iu == ['ct->ct_flags & %d' % code.flags['CT_UNION']], tu.where(fn), str(iu))
    # epilogue: loop exit -> cffi_set_size / ct_length
    exit_ = [t for t, l in code.loop.succ if l == 'F'][0]
    sets = [c for c in cx.calls_in(fn) if cx.callee_name(c) == 'cffi_set_size']
    stores = [n for n in g.nodes if n.ast is not None and any(cx.lhs_text(a[0]) in ('ct->ct_size',) for a in cx.assignments(n.ast))]
    lens = [n for n in g.nodes if n.ast is not None and any(cx.lhs_text(a[0]) == 'ct->ct_length' and cx.render(a[1]) == 'totalalignment' for a in cx.assignments(n.ast))]
    run.need(len(lens) == 1, '%s: `ct->ct_length = totalalignment` not found' % FN)
    for bmax, A in ((0, 1), (0, 4), (1, 1), (5, 4), (8, 8), (9, 8), (13, 2), (17, 16), (32, 16), (33, 1)):
        recd = []
        hooks = {'cffi_set_size': lambda a, e: (recd.append(a), absint.TOP)[1]}
        env = {'byteoffsetmax': Con(bmax, 64, True), 'alignment': Con(A, 32, True), 'totalsize': Con(-1, 64, True), 'totalalignment': Con(-1, 32, True)}
        it = absint.Interp(g, env, hooks)
        it.run_from(exit_, env, {lens[0].id, code.fin})
        st = it.in_state.get(lens[0].id) or {}
        ts = st.get('totalsize')
        ta = st.get('totalalignment')
        if recd and isinstance(recd[-1][1], Con):
            ts = recd[-1][1]
        want = model_finish(bmax, A)
        got = (ts.v if isinstance(ts, Con) else None, ta.v if isinstance(ta, Con) else None)
        run.ob('T2/epilogue-total-size-and-alignment', FN, 'max end %d, alignment %d -> size %d, alignment %d' % (bmax, A, want[0], want[1]), got == want, tu.where(fn),
               'constant propagation gives %s' % (got,))
    if sets:
        a = [cx.render(x) for x in cx.call_args(sets[0])]
        run.ob('T2/computed-size-stored-in-the-type', FN, 'cffi_set_size(%s)' % ', '.join(a), a == ['ct', 'totalsize'], tu.where(sets[0]))
    else:
        ss = [cx.render(a[1]) for a in cx.assignments(fn) if cx.lhs_text(a[0]) == 'ct->ct_size']
        run.ob('T2/computed-size-stored-in-the-type', FN, 'ct->ct_size = totalsize', ss == ['totalsize'], tu.where(fn), str(ss))
    # nested anonymous aggregates are flattened at the member's offset
    adds = [c for c in cx.calls_in(fn) if cx.callee_name(c) == '_add_field']
    flat = [c for c in adds if 'cfsrc' in cx.render(c)]
    run.need(len(flat) == 1, '%s: the flattening _add_field call for anonymous members not found' % FN)
    a = [cx.render(x) for x in cx.call_args(flat[0])]
    run.ob('T2/anonymous-members-flattened-at-their-offset', FN, '_add_field(%s)' % ', '.join(a[3:6]),
           a[3].replace(' ', '') in ('byteoffset+cfsrc->cf_offset', 'cfsrc->cf_offset+byteoffset') and a[4] == 'cfsrc->cf_bitshift' and a[5] == 'cfsrc->cf_bitsize', tu.where(flat[0]))
    # _add_field records what it is given
    af = tu.func('_add_field')
    st_ = {cx.lhs_text(l): cx.render(r) for l, r, op, _x in cx.assignments(af) if op == '='}
    params = [p.get('name') for p in cx.kids(af) if p.get('kind') == 'ParmVarDecl']
    run.ob('T2/add-field-records-its-arguments', '_add_field', 'cf_offset / cf_bitshift / cf_bitsize = the 4th/5th/6th argument',
           len(params) >= 6 and st_.get('cf->cf_offset') == params[3] and st_.get('cf->cf_bitshift') == params[4] and st_.get('cf->cf_bitsize') == params[5],
           tu.where(af), str({k: v for k, v in st_.items() if k.startswith('cf->cf_')}))


# ------------------------------------------------------------------------- the corpus (model vs. the compiler)
def gen_corpus(n_random, seed=20260922):
    rnd = random.Random(seed)
    decls = []

    def regular(rnd_):
        t = rnd_.choice(['char', 'short', 'int', 'long', 'long long', 'float', 'double', 'long double', 'void *', 'unsigned char', 'unsigned short', '_Bool'])
        if rnd_.random() < 0.25:
            return (t, rnd_.choice([1, 2, 3, 5]), None)
        return (t, None, None)

    def bitf(rnd_):
        t = rnd_.choice(BITFIELD_TYPES)
        maxw = 8 * PRIMS[t][0] if t != '_Bool' else 1
        w = rnd_.choice([0, 1, 1, 2, 3, 5, 7, 8, 9, 13, 16, 17, 24, 31, 32, 33, 47, 63, 64, maxw])
        w = min(w, maxw)
        named = w != 0 and rnd_.random() < 0.8
        return (t, None, (w, named))

    hand = [
        ('struct', None, [('int', None, (3, True)), ('unsigned int', None, (5, True)), ('int', None, None), ('char', None, None), ('long long', None, (40, True)), ('short', None, (0, False)), ('char', None, (1, True))]),
        ('struct', None, [('char', None, None), ('int', None, (31, True)), ('int', None, (2, True)), ('char', None, None)]),
        ('struct', None, [('char', None, None), ('short', None, (9, True)), ('long', None, (57, True)), ('long', None, (8, True))]),
        ('struct', None, [('unsigned char', None, (7, True)), ('unsigned char', None, (2, True)), ('int', None, (0, False)), ('unsigned char', None, (1, True))]),
        ('struct', None, [('int', None, (5, False)), ('char', None, None)]),
        ('struct', None, [('long long', None, (3, False)), ('char', None, (1, True))]),
        ('struct', None, [('_Bool', None, (1, True)), ('_Bool', None, (1, True)), ('int', None, (30, True)), ('int', None, (3, True))]),
        ('struct', None, [('char', None, None), ('long double', None, None), ('char', None, None)]),
        ('struct', None, [('char', None, None), ('int', 0, None)]),                 # flexible array written as [] below
        ('union', None, [('unsigned int', None, (3, True)), ('unsigned int', None, (5, True)), ('double', None, None)]),
        ('union', None, [('char', 5, None), ('short', None, None), ('int', None, (17, True))]),
        ('union', None, [('long long', None, (33, True)), ('char', None, (3, True)), ('char', 9, None)]),
        ('struct', 'packed', [('char', None, None), ('int', None, None), ('short', None, None), ('double', None, None)]),
        ('struct', 2, [('char', None, None), ('int', None, None), ('double', None, None), ('char', None, None)]),
        ('struct', 4, [('char', None, None), ('long double', None, None), ('short', None, None), ('long', None, None)]),
        ('struct', 8, [('char', None, None), ('long double', None, None), ('char', None, None)]),
        ('union', 'packed', [('char', 3, None), ('int', None, None)]),
        ('union', 2, [('char', 3, None), ('double', None, None)]),
    ]
    for kind, pack, flds in hand:
        decls.append({'kind': kind, 'pack': pack, 'fields': flds})
    for i in range(n_random):
        kind = 'union' if rnd.random() < 0.2 else 'struct'
        pack = None
        style = rnd.random()
        flds = []
        nf = rnd.randint(1, 7)
        if style < 0.25:
            pack = rnd.choice(['packed', 2, 4, 8])
            flds = [regular(rnd) for _ in range(nf)]
        elif style < 0.5:
            flds = [regular(rnd) for _ in range(nf)]
        else:
            flds = [bitf(rnd) if rnd.random() < 0.65 else regular(rnd) for _ in range(nf)]
            if all(f[2] is not None and not f[2][1] for f in flds):
                flds.append(('char', None, None))
        # nesting: sometimes refer to an earlier non-flexible declaration, named or as an anonymous member
        if decls and rnd.random() < 0.3:
            k = rnd.randrange(len(decls))
            if not any(f[1] == 0 for f in decls[k]['fields']) and pack is None:
                # (an anonymous member repeats the body in place, so only unpacked declarations can be used that way)
                anon = rnd.random() < 0.4 and kind == 'struct' and decls[k]['pack'] is None
                flds.insert(rnd.randint(0, len(flds)), ('@%d' % k, None, 'anon' if anon else None))
        if kind == 'struct' and pack is None and rnd.random() < 0.15:
            flds.append((rnd.choice(['char', 'int', 'double']), 0, None))
        decls.append({'kind': kind, 'pack': pack, 'fields': flds})
    return decls


def c_text(decls):
    out = []
    for i, d in enumerate(decls):
        tag = '%s s%d' % (d['kind'], i)
        if isinstance(d['pack'], int):
            out.append('#pragma pack(push, %d)' % d['pack'])
        out.append('%s%s {' % (tag.split()[0] + (' __attribute__((packed))' if d['pack'] == 'packed' else ''), ' s%d' % i))
        for j, (t, arr, bits) in enumerate(d['fields']):
            name = 'f%d_%d' % (i, j)
            if t.startswith('@'):
                k = int(t[1:])
                inner = '%s s%d' % (decls[k]['kind'], k)
                if bits == 'anon':
                    # an anonymous member must be declared in place: repeat the body
                    out.append('  %s { %s };' % (decls[k]['kind'], _body(decls, k, 'a%d_%d_' % (i, j))))
                else:
                    out.append('  %s %s;' % (inner, name))
            elif bits is not None:
                w, named = bits
                out.append('  %s %s:%d;' % (t, name if named else '', w))
            elif arr is not None:
                out.append('  %s %s[%s];' % (t, name, arr if arr else ''))
            else:
                out.append('  %s %s;' % (t, name) if not t.endswith('*') else '  %s%s;' % (t, name))
        out.append('};')
        if isinstance(d['pack'], int):
            out.append('#pragma pack(pop)')
    out.append('int verif_use[%s];' % ' + '.join('sizeof(%s s%d)' % (d['kind'], i) for i, d in enumerate(decls)))
    return '\n'.join(out) + '\n'


def _body(decls, k, prefix):
    parts = []
    for j, (t, arr, bits) in enumerate(decls[k]['fields']):
        name = '%s%d' % (prefix, j)
        if t.startswith('@'):
            kk = int(t[1:])
            if bits == 'anon':
                parts.append('%s { %s };' % (decls[kk]['kind'], _body(decls, kk, prefix + '%d_' % j)))
            else:
                parts.append('%s s%d %s;' % (decls[kk]['kind'], kk, name))
        elif bits is not None:
            w, named = bits
            parts.append('%s %s:%d;' % (t, name if named else '', w))
        elif arr is not None:
            parts.append('%s %s[%s];' % (t, name, arr if arr else ''))
        else:
            parts.append('%s %s;' % (t, name) if not t.endswith('*') else '%s%s;' % (t, name))
    return ' '.join(parts)


def model_layout(decls, k, memo, prefix=None):
    """-> (fields {name: (abs bit start, bits or None)}, size, align) of declaration k by the reference model"""
    d = decls[k]
    key = (k, prefix)
    if key in memo:
        return memo[key]
    union = 1 if d['kind'] == 'union' else 0
    pack = DEFAULT_PACK
    packed = False
    if d['pack'] == 'packed':
        pack, packed = 1, True
    elif isinstance(d['pack'], int):
        pack, packed = d['pack'], True
    b = t = bmax = 0
    A = 1
    fields = {}
    for j, (ty, arr, bits) in enumerate(d['fields']):
        name = ('f%d_%d' % (k, j)) if prefix is None else '%s%d' % (prefix, j)
        sub = None
        if ty.startswith('@'):
            kk = int(ty[1:])
            sub = model_layout(decls, kk, memo, (name + '_').replace('f', 'a', 1) if bits == 'anon' and prefix is None else (prefix + '%d_' % j if bits == 'anon' else None))
            f = dict(size=sub[1], align=sub[2], bits=-1, named=bits != 'anon', anon_aggregate=bits == 'anon')
        elif bits is not None:
            s, a = PRIMS[ty]
            f = dict(size=s, align=a, bits=bits[0], named=bits[1])
        elif arr is not None:
            s, a = PRIMS[ty]
            f = dict(size=(s * arr if arr else -1), align=a, bits=-1, named=True, flex=not arr)
        else:
            s, a = PRIMS[ty]
            f = dict(size=s, align=a, bits=-1, named=True)
        r = model_step(b, t, A, bmax, f, union, pack, packed)
        if r[0] == 'error':
            raise AnalysisError('corpus declaration s%d is outside the modelled class: %s' % (k, r[1]))
        b, t, A, bmax, emit = r
        if emit is not None and emit[0] == 'flatten':
            for sn, (sbit, sbits) in sub[0].items():
                fields[sn] = (emit[1] * 8 + sbit, sbits)
        elif emit is not None:
            off, shift, nb = emit
            if nb >= 0:
                fields[name] = (off * 8 + shift, nb)
            else:
                fields[name] = (off * 8, None)
    size, align = model_finish(bmax, A)
    memo[key] = (fields, size, align)
    return memo[key]


def clang_layouts(text):
    tmp = tempfile.mkdtemp(prefix='verif-c01-', dir='/var/tmp')
    try:
        p = os.path.join(tmp, 'corpus.c')
        with open(p, 'w') as f:
            f.write(text)
        r = subprocess.run(['clang', '-fsyntax-only', '-w', '-Xclang', '-fdump-record-layouts', p], capture_output=True, text=True)
        if r.returncode != 0:
            raise AnalysisError('C01: the layout corpus does not compile: %s' % r.stderr[-500:])
        out = r.stdout
    finally:
        shutil.rmtree(tmp, ignore_errors=True)
    recs = {}
    for block in out.split('*** Dumping AST Record Layout')[1:]:
        lines = [l for l in block.splitlines() if '|' in l]
        if not lines:
            continue
        m = re.match(r'^\s*0 \| (struct|union) (s\d+)\s*$', lines[0])
        if not m:
            continue
        fields = {}
        size = align = None
        for l in lines[1:]:
            mm = re.match(r'^\s*\|\s*\[sizeof=(\d+), align=(\d+)', l)
            if mm:
                size, align = int(mm.group(1)), int(mm.group(2))
                continue
            mm = re.match(r'^\s*(\d+)(?::(\d+)-(\d+)|:-)?\s*\|\s+(.*?)$', l)
            if not mm:
                continue
            nm = re.search(r'\b([fa]\d+_[\d_]*\d)$', mm.group(4).rstrip())
            if not nm:
                continue
            byte = int(mm.group(1))
            if mm.group(2) is not None:
                fields.setdefault(nm.group(1), (byte * 8 + int(mm.group(2)), int(mm.group(3)) - int(mm.group(2)) + 1))
            else:
                fields.setdefault(nm.group(1), (byte * 8, None))
        recs[m.group(2)] = (fields, size, align)
    return recs


def w1(run, thorough):
    decls = gen_corpus(400 if thorough else 120)
    text = c_text(decls)
    recs = clang_layouts(text)
    memo = {}
    n = 0
    kinds = {}
    for k, d in enumerate(decls):
        name = 's%d' % k
        if name not in recs:
            raise AnalysisError('C01: clang printed no layout for %s %s' % (d['kind'], name))
        mf, ms, ma = model_layout(decls, k, memo)
        cf, cs, ca = recs[name]
        # nested named members: clang lists their inner fields too; compare only the names the model knows
        diffs = []
        for fname, pos in sorted(mf.items()):
            if fname not in cf:
                diffs.append('%s missing in the compiler table' % fname)
            elif cf[fname] != pos:
                diffs.append('%s: model bit %d%s, compiler bit %d%s' % (fname, pos[0], '' if pos[1] is None else ':%d' % pos[1], cf[fname][0], '' if cf[fname][1] is None else ':%d' % cf[fname][1]))
        if (ms, ma) != (cs, ca):
            diffs.append('sizeof/alignof: model %d/%d, compiler %d/%d' % (ms, ma, cs, ca))
        cat = '%s%s%s' % (d['kind'], ', bit-fields' if any(f[2] not in (None, 'anon') for f in d['fields']) else '',
                          ', pack=%s' % d['pack'] if d['pack'] else '')
        kinds.setdefault(cat, []).append((name, diffs))
        n += 1
    for cat, items in sorted(kinds.items()):
        bad = [(nm, df) for nm, df in items if df]
        run.ob('W1/reference-model-equals-the-compiler-layout', 'corpus (%d declarations)' % len(decls), '%s: %d declarations' % (cat, len(items)), not bad,
               'clang -fdump-record-layouts', ('%s: %s' % (bad[0][0], '; '.join(bad[0][1][:3]))) if bad else 'every offset, bit position, sizeof and alignof agrees')
    # the primitive sizes the model assumes
    lines = ['#include <stddef.h>']
    for t, (s, a) in sorted(PRIMS.items()):
        lines.append('_Static_assert(sizeof(%s) == %d && _Alignof(%s) == %d, "%s");' % (t, s, t, a, t))
    tmp = tempfile.mkdtemp(prefix='verif-c01-', dir='/var/tmp')
    try:
        p = os.path.join(tmp, 'prims.c')
        with open(p, 'w') as f:
            f.write('\n'.join(lines) + '\n')
        r = subprocess.run(['gcc', '-fsyntax-only', '-std=gnu11', p], capture_output=True, text=True)
        run.ob('W1/primitive-sizes-assumed-by-the-model', 'PRIMS', '%d (size, alignment) pairs' % len(PRIMS), r.returncode == 0, 'gcc -fsyntax-only', r.stderr[-300:])
        with open(p, 'w') as f:
            f.write('_Static_assert(sizeof(int) == 3, "twin");\n')
        r = subprocess.run(['gcc', '-fsyntax-only', '-std=gnu11', p], capture_output=True, text=True)
        if r.returncode == 0:
            raise AnalysisError('C01: failing twin did not fail')
    finally:
        shutil.rmtree(tmp, ignore_errors=True)
    run.saw('W1 corpus declarations', ['%d' % n])
    return n


# ------------------------------------------------------------------------- the Python side
def f1(run, tu):
    m = cffi_mod('model')
    fn = m.find('StructOrUnion.finish_backend_type')
    calls = [c for c in ast.walk(fn) if isinstance(c, ast.Call) and u(c.func) == 'ffi._backend.complete_struct_or_union']
    run.need(len(calls) == 2, 'finish_backend_type: expected two complete_struct_or_union calls, found %d' % len(calls))
    plain = [c for c in calls if any(isinstance(a, ast.Starred) for a in c.args)]
    run.need(len(plain) == 1, 'finish_backend_type: the call of the ABI-mode branch not found')
    c = plain[0]
    args = [u(a) for a in c.args]
    run.ob('F1/backend-call-argument-order', 'StructOrUnion.finish_backend_type', 'complete_struct_or_union(%s)' % ', '.join(args),
           args == ['BType', 'lst', 'self', '-1', '-1', '*extra_flags'], m.where(c))
    zips = [n for n in ast.walk(fn) if isinstance(n, ast.Assign) and u(n.targets[0]) == 'lst']
    z = [u(n.value) for n in zips]
    run.ob('F1/fields-zipped-in-declaration-order', 'StructOrUnion.finish_backend_type', z[0] if z else '?',
           bool(z) and z[0].replace(' ', '') == 'list(zip(self.fldnames,fldtypes,self.fldbitsize))', m.where(zips[0]) if zips else m.where(fn))
    ft = [n for n in ast.walk(fn) if isinstance(n, ast.Assign) and u(n.targets[0]) == 'fldtypes' and isinstance(n.value, ast.ListComp)]
    okc = bool(ft) and u(ft[0].value.generators[0].iter) == 'self.fldtypes' and not ft[0].value.generators[0].ifs
    run.ob('F1/field-types-in-declaration-order', 'StructOrUnion.finish_backend_type', u(ft[0].value) if ft else '?', okc, m.where(ft[0]) if ft else m.where(fn))
    # packed -> (SF_PACKED,) / (0, N)
    from ..pyast import sympath as sp
    sfp = rules.macro_flags(tu, 'SF_')['SF_PACKED']
    for packed, want in ((1, (sfp,)), (2, (0, 2)), (4, (0, 4)), (0, ())):
        rec = []
        ev = sp.Evaluator({'ffi._backend.complete_struct_or_union': lambda a, k, e, f: rec.append(a), 'zip': lambda a, k, e, f: sp.Opq('zip'),
                           'list': lambda a, k, e, f: sp.Opq('lst')})
        ps = ev.run(fn, {'self.completed': 0, 'self.fldtypes': (), 'self.fixedlayout': None, 'self.packed': packed})
        got = tuple(rec[0][5:]) if len(rec) == 1 else None
        run.ob('F1/packing-option-passed-as-flags', 'StructOrUnion.finish_backend_type', 'self.packed == %r -> extra arguments %r' % (packed, want), got == want, m.where(fn), 'got %r' % (got,))
    # the backend parses them in this order
    bf = tu.func('b_complete_struct_or_union')
    pat = [c2 for c2 in cx.calls_in(bf) if (cx.callee_name(c2) or '').startswith('_PyArg_ParseTuple') or cx.callee_name(c2) == 'PyArg_ParseTuple']
    run.need(len(pat) == 1, 'b_complete_struct_or_union: expected one PyArg_ParseTuple')
    pa = [cx.render(a) for a in cx.call_args(pat[0])]
    outs = [a for a in pa[2:] if a.startswith('&') and not a.endswith('_Type')]
    run.ob('F1/backend-parses-the-same-order', 'b_complete_struct_or_union', 'PyArg_ParseTuple(args, %s, ...)' % pa[1],
           outs == ['&ct', '&fields', '&ignored', '&totalsize', '&totalalignment', '&sflags', '&pack'] and pa[1].startswith('"O!O!|Oniii'), tu.where(pat[0]), str(outs))
    lk = [c2 for c2 in cx.calls_in(bf) if cx.callee_name(c2) == FN]
    a = [cx.render(x) for x in cx.call_args(lk[0])] if lk else []
    run.ob('F1/backend-parses-the-same-order', 'b_complete_struct_or_union', '%s(%s)' % (FN, ', '.join(a)), a == ['ct', 'fields', 'totalsize', 'totalalignment', 'sflags', 'pack'], tu.where(bf))
    # per-field tuple: (name, type, bitsize[, offset])
    g = cfg_of(tu, FN)
    pa2 = [c2 for c2 in cx.calls_in(tu.func(FN)) if (cx.callee_name(c2) or '').startswith('_PyArg_ParseTuple')]
    run.need(len(pa2) == 1, '%s: per-field PyArg_ParseTuple not found' % FN)
    pf = [cx.render(a) for a in cx.call_args(pa2[0])]
    outs = [a for a in pf[2:] if a.startswith('&') and not a.endswith('_Type')]
    run.ob('F1/per-field-tuple-order', FN, 'PyArg_ParseTuple(item, %s, ...)' % pf[1], outs == ['&fname', '&ftype', '&fbitsize', '&foffset'] and pf[1].startswith('"O!O!|in'), tu.where(pa2[0]), str(outs))
    # the parser keeps the declared order and -1 for "no bit-field"
    mp = cffi_mod('cparser')
    pfn = mp.find('Parser._get_struct_union_enum_type')
    apps = [u(c) for c in ast.walk(pfn) if isinstance(c, ast.Call) and isinstance(c.func, ast.Attribute) and c.func.attr == 'append' and u(c.func.value) in ('fldnames', 'fldtypes', 'fldbitsize', 'fldquals')]
    run.ob('F1/parser-appends-fields-in-order', 'Parser._get_struct_union_enum_type', '; '.join(apps)[:100], {a.split('.')[0] for a in apps} >= {'fldnames', 'fldtypes', 'fldbitsize'}, mp.where(pfn))
    # the packing option in force where the *fields* are given is the one recorded (a struct may have been mentioned,
    # and so created, by an earlier cdef() with other options)
    top = [st for st in pfn.body if isinstance(st, ast.Assign)]
    flds = [i for i, st in enumerate(pfn.body) if isinstance(st, ast.Assign) and u(st.targets[0]) == 'tp.fldtypes']
    pk = [i for i, st in enumerate(pfn.body) if isinstance(st, ast.Assign) and u(st.targets[0]) == 'tp.packed']
    allpk = [n for n in ast.walk(pfn) if isinstance(n, ast.Assign) and u(n.targets[0]) == 'tp.packed']
    okp = len(flds) == 1 and len(pk) == 1 and len(allpk) == 1 and u(pfn.body[pk[0]].value).replace(' ', '') == "self._options.get('packed')"
    run.ob('F1/packing-option-recorded-where-the-fields-are-declared', 'Parser._get_struct_union_enum_type', "tp.packed = self._options.get('packed') next to tp.fldtypes = ...", okp, mp.where(pfn),
           'tp.packed assigned at %s, fields at statement %s of the function body' % ([mp.where(n) for n in allpk], flds))
    nb = [n for n in ast.walk(pfn) if isinstance(n, ast.Assign) and u(n.targets[0]) == 'bitsize']
    vals = sorted(u(n.value) for n in nb)
    run.ob('F1/no-bit-field-encoded-as-minus-one', 'Parser._get_struct_union_enum_type', 'bitsize = %s' % ' | '.join(vals), vals == ['-1', 'self._parse_constant(decl.bitsize)'], mp.where(pfn))


def check(run):
    thorough = run.tier == 'thorough'
    run.technique = ('the per-field layout step of b_complete_struct_or_union_lock_held decided as a state transformer: constant propagation '
                     '(SCCP over the clang-AST CFG of the loop body, nothing executed) on a grid covering every offset residue, bit offset '
                     'and field class, compared with a reference model; the model compared with clang\'s own record-layout table '
                     '(-fdump-record-layouts, front end only) on a generated corpus; Python-ast rules on the hand-over')
    tu = backend_tu()
    code = _code()
    n = t1(run, code, thorough)
    run.need(n >= 20000, 'grid suspiciously small: %d points' % n)
    t2(run, code)
    w1(run, thorough)
    f1(run, tu)
    run.assume('GCC/clang x86-64 System V layout (SF_GCC_X86_BITFIELDS, little endian, LP64): the MSVC and ARM bit-field variants of the '
               'same loop are not the build configuration and are not decided')
    run.assume('the grid is exhaustive modulo the period of the transformer (offsets 0..33 cover every residue modulo 16 twice; the step '
               'only uses +, &~(a-1), >>3, &7 on the offsets); the corpus comparison with the compiler is a finite sample of declarations')
    run.assume('decided: placement, padding, total size and alignment as computed by the backend for the declarations of the property; '
               'not decided: that every ctype reports the alignment the compiler uses for it (get_alignment of primitives is C06) nor '
               'the accessor arithmetic on the placed bit-fields (C02)')
    for rule, k in (('T1', 150), ('T2', 20), ('W1', 6), ('F1', 13)):
        run.min_instances(rule, k)
