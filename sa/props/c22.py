"""C22 — errno is passed to and from C calls and is thread-local (DESIGN §3 C22).

E1 the saved errno lives in thread-local storage;
E2 every foreign call made on behalf of the user (ffi_call, the global-variable
   address fetcher) has restore_errno as the nearest call before it and
   save_errno as the nearest call after it, inside the allow-threads region;
E3 callbacks entered from C save errno before anything else and restore it last;
E4 ffi.errno getter/setter ordering;
E5 every generated _cffi_f_* wrapper brackets the C call with the exported
   restore/save pair, and export slots 13/14 are restore_errno/save_errno;
E6 the embedding trampoline puts the caller's errno back before calling Python.
"""
from ..cast import cx
from ..cast.cfg import cfg_of, stmt_text
from ..cast.loader import backend_tu, wrapper_tu
from .. import gen

HARMLESS = {'__sync_synchronize', '__builtin_expect', '__errno_location'}
ERRNO = '*__errno_location()'


def effectful_calls(node):
    if node.ast is None:
        return []
    return [c for c in cx.calls_in(node.ast) if cx.callee_name(c) not in HARMLESS]


def nearest_calls(g, start, forward):
    """nodes with an effectful call nearest to `start` in one direction; 'EDGE' if entry/exit reached"""
    seen = set()
    out = set()
    stack = [t for t, _l in (g.nodes[start].succ if forward else g.nodes[start].pred)]
    while stack:
        x = stack.pop()
        if x in seen:
            continue
        seen.add(x)
        n = g.nodes[x]
        if n.kind in ('exit', 'entry'):
            out.add('EDGE')
            continue
        if effectful_calls(n):
            out.add(x)
            continue
        stack.extend(t for t, _l in (n.succ if forward else n.pred))
    return out


def is_only_call(g, nid, callee_texts):
    n = g.nodes[nid]
    cs = effectful_calls(n)
    return len(cs) == 1 and cx.callee_text(cs[0]) in callee_texts and \
        cx.strip(n.ast, casts=True).get('kind') == 'CallExpr'


def bracket(run, tu, g, fname, call, rule, before, after, what):
    node = g.node_of(call)
    site = tu.where(call)
    # the call statement must not contain another effectful call evaluated around the target
    others = [c for c in effectful_calls(node) if c is not call and c.get('id') != call.get('id')]
    pre = nearest_calls(g, node.id, False)
    post = nearest_calls(g, node.id, True)
    okb = bool(pre) and all(p != 'EDGE' and is_only_call(g, p, before) for p in pre)
    oka = bool(post) and all(p != 'EDGE' and is_only_call(g, p, after) for p in post)
    run.ob(rule + '/restore-before', fname, what, okb and not others, site,
           None if okb and not others else 'nearest calls before: %s; other calls in the statement: %s' % (
               [stmt_text(g.nodes[p].ast)[:60] if p != 'EDGE' else 'function entry' for p in pre],
               [cx.callee_text(c) for c in others]))
    run.ob(rule + '/save-after', fname, what, oka, site,
           None if oka else 'nearest calls after: %s' % [
               stmt_text(g.nodes[p].ast)[:60] if p != 'EDGE' else 'function exit' for p in post])
    return node, pre, post


def e1(run, tu):
    for fname, direction in (('save_errno_only', 'save'), ('restore_errno_only', 'restore')):
        fn = tu.func(fname)
        asg = [(l, r) for l, r, op, _x in cx.assignments(fn) if op == '=']
        ok = False
        detail = None
        for l, r in asg:
            lt, rt = cx.render(l), cx.render(r)
            slot = None
            if direction == 'save' and rt == ERRNO:
                slot = cx.strip(l, casts=True)
            if direction == 'restore' and lt == ERRNO:
                slot = cx.strip(r, casts=True)
            if slot is None:
                continue
            if slot.get('kind') == 'DeclRefExpr':
                v = tu.vars.get(slot['ref']['name'])
                local = v is None
                if v is not None:
                    ok = bool(v.get('tls'))
                    detail = 'slot %s: storage=%s tls=%s' % (v['name'], v.get('storageClass'), v.get('tls'))
                elif local:
                    # 'int saved = errno' then stored into the per-thread struct
                    continue
            elif slot.get('kind') == 'MemberExpr':
                base = cx.render(cx.kids(slot)[0])
                d = None
                for l2, r2, op2, _ in cx.assignments(fn):
                    if cx.lhs_text(l2) == base:
                        d = r2
                ok = d is not None and 'get_cffi_tls' in cx.called_names(d)
                detail = 'slot %s obtained from %s' % (cx.render(slot), cx.render(d) if d else '?')
        run.ob('E1/errno-slot-is-thread-local', fname, '%s errno' % direction, ok, tu.where(fn), detail)


def e2(run, tu, thorough):
    n = 0
    targets = []
    for fname in sorted(tu.functions):
        if not tu.has_func(fname):
            continue
        fn = tu.func(fname)
        for c in cx.calls_in(fn):
            ct = cx.callee_text(c)
            if ct == 'ffi_call' or ct.endswith('->gs_fetch_addr'):
                targets.append((fname, c, ct))
    for fname, c, ct in targets:
        g = cfg_of(tu, fname)
        node, pre, post = bracket(run, tu, g, fname, c, 'E2', {'restore_errno_only'}, {'save_errno_only'},
                                  '%s(...)' % ct)
        n += 1
        # the bracket must be inside the region where the GIL is released: SaveThread ... RestoreThread
        sv = [x.id for x in g.nodes_calling('PyEval_SaveThread')]
        rs = [x.id for x in g.nodes_calling('PyEval_RestoreThread')]
        ok = bool(sv) and bool(rs) and g.must_precede(node.id, sv) and g.must_follow(node.id, rs) and \
            all(p != 'EDGE' and not (g.reach([p]) & set(rs) - g.reach([node.id])) for p in pre)
        # restore must come after SaveThread: no SaveThread reachable from the restore node before the call
        for p in pre:
            if p == 'EDGE':
                continue
            between = g.reach([p], avoid=[node.id])
            if set(sv) & (between & g.coreach([node.id])):
                ok = False
        run.ob('E2/inside-allow-threads', fname, '%s(...)' % ct, ok, tu.where(c),
               None if ok else 'the restore/call/save triple is not enclosed by PyEval_SaveThread..RestoreThread')
    run.saw('foreign call sites (ffi_call, gs_fetch_addr)', ['%s: %s' % (f, t) for f, _c, t in targets])
    return n


def e3(run, tu):
    for fname in ('invoke_callback', 'cffi_call_python'):
        g = cfg_of(tu, fname)
        live = g.live()
        callers = [n for n in g.nodes if n.id in live and effectful_calls(n)]
        saves = {n.id for n in callers if is_only_call(g, n.id, {'save_errno_only'})}
        rests = {n.id for n in callers if is_only_call(g, n.id, {'restore_errno_only'})}
        first_ok = bool(saves)
        last_ok = bool(rests)
        bad_first = bad_last = None
        for n in callers:
            if n.id in saves or n.id in rests:
                continue
            if not g.must_precede(n.id, saves):
                first_ok = False
                bad_first = n
            if not g.must_follow(n.id, rests):
                last_ok = False
                bad_last = n
        # and the restore is followed by nothing that can clobber errno
        for r in rests:
            if nearest_calls(g, r, True) != {'EDGE'}:
                last_ok = False
        # every path entry -> exit passes a save and a restore
        if g.exit.id in g.reach([g.entry.id], avoid=saves):
            first_ok = False
        if g.exit.id in g.reach([g.entry.id], avoid=rests):
            last_ok = False
        run.ob('E3/save-errno-first', fname, 'save_errno() before acquiring the GIL', first_ok, tu.where(tu.func(fname)),
               None if first_ok else 'call not preceded by save_errno on all paths: %s' % (
                   stmt_text(bad_first.ast)[:80] if bad_first else 'a path skips save_errno'))
        run.ob('E3/restore-errno-last', fname, 'restore_errno() last on every path', last_ok, tu.where(tu.func(fname)),
               None if last_ok else 'call not followed by restore_errno on all paths: %s' % (
                   stmt_text(bad_last.ast)[:80] if bad_last else 'a path skips restore_errno or calls after it'))
        # the save must come before the GIL is taken
        ens = [n.id for n in g.nodes_calling('gil_ensure')]
        ok = bool(ens) and all(g.must_precede(e, saves) for e in ens)
        run.ob('E3/save-before-gil', fname, 'save_errno() precedes gil_ensure()', ok, tu.where(tu.func(fname)))


def e4(run, tu):
    g = cfg_of(tu, 'b_get_errno')
    reads = [n for n in g.nodes if n.ast is not None and any(
        cx.render(r) == ERRNO for _l, r, op, _x in cx.assignments(n.ast) if op in ('=', 'init'))]
    rest = [n.id for n in g.nodes if n.ast is not None and is_only_call(g, n.id, {'restore_errno_only'})] if True else []
    ok = bool(reads) and bool(rest) and all(
        nearest_calls(g, r.id, False) and nearest_calls(g, r.id, False) <= set(rest) for r in reads)
    ret = [n for n in g.nodes if n.kind == 'return']
    var = cx.lhs_text(cx.assignments(reads[0].ast)[0][0]) if reads else None
    ok = ok and all(var in cx.refs(n.ast) for n in ret)
    run.ob('E4/get-reads-after-restore', 'b_get_errno', 'err = errno after restore_errno_only()', ok,
           tu.where(tu.func('b_get_errno')))
    g = cfg_of(tu, 'b_set_errno')
    saves = [n for n in g.nodes if n.ast is not None and is_only_call(g, n.id, {'save_errno_only'})]
    ok = bool(saves)
    detail = None
    for s in saves:
        # walk back over non-call nodes: the nearest write to errno must be the user's value
        preds = [p for p, _l in s.pred]
        okk = False
        for p in preds:
            pn = g.nodes[p]
            if pn.ast is not None:
                for l, r, op, _x in cx.assignments(pn.ast):
                    if cx.render(l) == ERRNO and op == '=' and 'ival' in cx.refs(r):
                        okk = True
        ok = ok and okk
        detail = [stmt_text(g.nodes[p].ast) for p in preds if g.nodes[p].ast is not None]
    succ_ret = [n for n in g.nodes if n.kind == 'return' and 'Py_NoneStruct' in stmt_text(n.ast)]
    ok = ok and bool(succ_ret) and all(g.must_precede(n.id, [s.id for s in saves]) for n in succ_ret)
    run.ob('E4/set-writes-then-saves', 'b_set_errno', 'errno = value; save_errno_only()', ok,
           tu.where(tu.func('b_set_errno')), 'statement before save: %s' % detail)
    # ffi.errno property routes to the same two functions
    for getter, target in (('ffi_get_errno', 'b_get_errno'), ('ffi_set_errno', 'b_set_errno')):
        ok = target in cx.called_names(tu.func(getter))
        run.ob('E4/ffi-errno-property-routes', getter, 'calls %s' % target, ok, tu.where(tu.func(getter)))


def export_slots(tu):
    v = tu.var('cffi_exports')
    init = [c for c in cx.kids(v) if c.get('kind') == 'InitListExpr']
    if not init:
        return None
    return [cx.render(e) for e in cx.kids(init[0])]


def e5(run, tu, thorough):
    slots = export_slots(tu)
    run.need(slots is not None and len(slots) > 14, 'cffi_exports[] initialiser not found')
    run.ob('E5/export-slot-13-is-restore', 'cffi_exports', 'cffi_exports[13]', slots[13] == 'restore_errno_only',
           tu.where(tu.var('cffi_exports')), 'slot 13 = %s' % slots[13])
    run.ob('E5/export-slot-14-is-save', 'cffi_exports', 'cffi_exports[14]', slots[14] == 'save_errno_only',
           tu.where(tu.var('cffi_exports')), 'slot 14 = %s' % slots[14])
    # the macros the generated code uses name these slots
    wt = wrapper_tu()
    for mac, idx in (('_cffi_restore_errno', 13), ('_cffi_save_errno', 14)):
        body = wt.macros.get(mac)
        ok = body is not None and body[0] is None and ('_cffi_exports[%d]' % idx) in body[1].replace(' ', '')
        run.ob('E5/macro-names-slot', '_cffi_include.h', '#define %s' % mac, ok, 'src/cffi/_cffi_include.h',
               'body: %s' % (body[1] if body else None))
    probes = ['p_funcs', 'p_inc_user', 'p_consts'] if not thorough else gen.api_probes()
    nw = 0
    for probe in probes:
        gt = gen.gen_tu(probe)
        for fname in sorted(gt.functions):
            if not fname.startswith('_cffi_f_') or not gt.has_func(fname):
                continue
            cname = fname[len('_cffi_f_'):]
            fn = gt.func(fname)
            target = [c for c in cx.calls_in(fn, cname)]
            run.need(len(target) == 1, 'generated wrapper %s does not call %s exactly once' % (fname, cname))
            g = cfg_of(gt, fname)
            bracket(run, gt, g, '%s:%s' % (probe, fname), target[0], 'E5',
                    {'_cffi_exports[13]'}, {'_cffi_exports[14]'}, '%s(...)' % cname)
            nw += 1
            node = g.node_of(target[0])
            sv = [x.id for x in g.nodes_calling('PyEval_SaveThread')]
            rs = [x.id for x in g.nodes_calling('PyEval_RestoreThread')]
            ok = bool(sv) and bool(rs) and g.must_precede(node.id, sv) and g.must_follow(node.id, rs)
            run.ob('E5/inside-allow-threads', '%s:%s' % (probe, fname), '%s(...)' % cname, ok, gt.where(target[0]))
    run.saw('generated wrappers', ['%d in probes %s' % (nw, probes)])
    return nw


def e6(run):
    wt = wrapper_tu()
    fname = '_cffi_start_and_call_python'
    g = cfg_of(wt, fname)
    fn = wt.func(fname)
    # current_err initialised from errno before any call
    init = None
    for l, r, op, x in cx.assignments(fn):
        if cx.render(r) == ERRNO and op in ('init', '='):
            init = (cx.lhs_text(l), x)
    ok = init is not None
    if ok:
        node = g.node_of(init[1])
        ok = nearest_calls(g, node.id, False) == {'EDGE'}
    run.ob('E6/errno-captured-at-entry', fname, 'int current_err = errno', ok, wt.where(fn))
    # every indirect call through fnptr is preceded (nearest write to errno, no call between) by errno = current_err
    calls = [c for c in cx.calls_in(fn) if cx.callee_text(c) == 'fnptr']
    run.need(calls, 'no call through fnptr in %s' % fname)
    for c in calls:
        node = g.node_of(c)
        pre = nearest_calls(g, node.id, False)
        # walk back: nodes between the nearest calls and this one must contain errno = current_err
        stores = [n.id for n in g.nodes if n.ast is not None and any(
            cx.render(l) == ERRNO and init and cx.render(r) == init[0] for l, r, op, _x in cx.assignments(n.ast))]
        ok = bool(stores) and g.must_precede(node.id, stores)
        # no effectful call between the store and the call
        for s in stores:
            mid = g.reach([s], include_start=False) & g.coreach([node.id])
            mid.discard(node.id)
            if any(effectful_calls(g.nodes[m]) for m in mid):
                ok = False
        run.ob('E6/errno-restored-before-python', fname, 'errno = current_err; fnptr(externpy, args)', ok,
               wt.where(c))


def e7(run, tu):
    """"the assigned value is what C sees" includes 0: the two primitives copy errno to and from the per-thread slot unconditionally"""
    for fn, want in (('restore_errno_only', ('errno', 'cffi_saved_errno')), ('save_errno_only', ('cffi_saved_errno', 'errno'))):
        if not tu.has_func(fn):
            continue
        g = cfg_of(tu, fn)
        asg = []
        for n in g.nodes:
            if n.ast is None:
                continue
            for l_, r_, o_, _x in cx.assignments(n.ast):
                lt, rt = cx.render(l_) if l_.get('kind') != 'VarDecl' else l_.get('name'), cx.render(r_)
                is_errno = lambda t: 'errno_location' in t or t.strip('()*') == 'errno'
                if (want[0] == 'errno' and is_errno(lt) and 'saved_errno' in rt) or (want[0] != 'errno' and 'saved_errno' in lt and is_errno(rt)):
                    asg.append(n)
        ok = len(asg) == 1 and not [f for f in g.fact_texts(asg[0].id)] and g.must_precede(g.exit.id, [asg[0].id])
        run.ob('E7/errno-copied-unconditionally', fn, '%s = %s' % want, ok, tu.where(tu.func(fn)),
               'the copy is conditional (%s): a value of 0 set through ffi.errno, or left by C, does not replace a stale errno' % (sorted(g.fact_texts(asg[0].id)) if asg else 'not found'))


def check(run):
    run.explanation = (
        'Adjacency/ordering rules on the CFG: for each foreign call made for the user the nearest effectful call '
        'before it is restore_errno and the nearest after it is save_errno, inside the GIL-released region; '
        'callback entry points save first and restore last on every path; the saved errno slot is a __thread '
        'variable (or a field of the per-thread struct); generated _cffi_f_* wrappers (probe corpus, parsed by '
        'clang) bracket the C call with export slots 13/14, and those slots are restore_errno/save_errno.')
    thorough = run.tier == 'thorough'
    tu = backend_tu()
    e1(run, tu)
    n = e2(run, tu, thorough)
    run.need(n >= 2, 'expected >= 2 foreign call sites, found %d' % n)
    e3(run, tu)
    e7(run, tu)
    e4(run, tu)
    nw = e5(run, tu, thorough)
    run.need(nw >= 30, 'expected >= 30 generated wrappers in the probe corpus, found %d' % nw)
    e6(run)
    run.min_instances('E1', 2)
    run.min_instances('E2/restore-before', 2)
    run.min_instances('E3', 6)
    run.min_instances('E5/restore-before', 30)
    run.assume('errno is reached as *__errno_location() (glibc); only calls can change it between two statements')
    run.assume('interleavings: thread-locality follows from E1 by construction; schedules are not explored')
