"""C21 — ownership, destructors and handles over any history (DESIGN §3 C21): typestate clauses.

D1 finalise once: every gcp_finalize call takes (destructor, origobj) loaded from the gcp
   object; unless the object is being deallocated, both fields are NULLed before the
   call on all paths; gcp_finalize calls nothing for a NULL destructor; gc(p, None)
   clears the destructor.
D2 cdata_exit maps each explicit_release_case value to its action; -1 -> NULL with ValueError.
D3 from_buffer views: released by dealloc and clear, freed by dealloc, source kept alive
   through tp_traverse on view->obj.
D4 handles: c_data is the object's own address, x is INCREF'ed and stored; from_handle
   returns that field after the type tests.
D5 ffi.new("struct *") stores the struct object in the pointer object and p[0] returns it
   with a new reference; the pointer's dealloc drops it.
D6 allocator memory is wrapped by allocate_gcp_object(..., ca_free): goes through D1.
"""
import re
from ..cast import cx, rules
from ..cast.cfg import cfg_of, stmt_text
from ..cast.loader import backend_tu


def slot_functions(tu, slotname_prefix='tp_'):
    """functions installed in PyTypeObject initialisers (name appears in a file-scope initialiser)"""
    out = {}
    for vname, v in tu.vars.items():
        if (v.get('type') or '').startswith('PyTypeObject'):
            for r in cx.refs(v):
                if r in tu.functions:
                    out.setdefault(r, []).append(vname)
    return out


def d1(run, tu):
    callers = rules.callers_of(tu, 'gcp_finalize')
    run.need(len(callers) >= 2, 'callers of gcp_finalize: %d' % len(callers))
    for fn, call in callers:
        g = cfg_of(tu, fn)
        f = tu.func(fn)
        node = g.node_of(call)
        args = [cx.render(a) for a in cx.call_args(call)]
        srcs = [rules.single_def(f, a) for a in args]
        ok = all(s is not None for s in srcs) and [cx.render(s) for s in srcs] == ['cd->destructor', 'cd->origobj']
        run.ob('D1/finalizer-arguments-come-from-the-object', fn, 'gcp_finalize(%s)' % ', '.join(args), ok, tu.where(call),
               str([cx.render(s) if s is not None else None for s in srcs]))
        dealloc = [n.id for n in g.nodes if n.ast is not None and cx.calls_in(n.ast, 'cdata_dealloc')]
        if dealloc and g.must_precede(node.id, dealloc):
            run.ob('D1/fields-dead-or-cleared-before-finalizing', fn, 'object deallocated before gcp_finalize', True, tu.where(call),
                   'the wrapper is freed (cdata_dealloc) before the call: it cannot be finalised again')
            continue
        for field in ('cd->destructor', 'cd->origobj'):
            st = [n.id for n in g.nodes if n.ast is not None and any(cx.lhs_text(l) == field and cx.is_null(r) for l, r, op, _x in cx.assignments(n.ast))]
            ok = bool(st) and g.must_precede(node.id, st)
            run.ob('D1/fields-dead-or-cleared-before-finalizing', fn, '%s = NULL before gcp_finalize' % field, ok, tu.where(call),
                   None if ok else 'the destructor could run again on the next release()/collection')
        # the loads happen before the clears
        for a, field in zip(args, ('cd->destructor', 'cd->origobj')):
            ld = [n.id for n in g.nodes if n.ast is not None and any(cx.lhs_text(l) == a and cx.render(r) == field for l, r, op, _x in cx.assignments(n.ast))]
            st = [n.id for n in g.nodes if n.ast is not None and any(cx.lhs_text(l) == field and cx.is_null(r) for l, r, op, _x in cx.assignments(n.ast))]
            ok = bool(ld) and bool(st) and all(g.must_precede(s, ld) for s in st)
            run.ob('D1/value-read-before-clearing', fn, '%s = %s; %s = NULL' % (a, field, field), ok, tu.where(call))
    g = cfg_of(tu, 'gcp_finalize')
    cc = [n for n in g.nodes if n.ast is not None and cx.calls_in(n.ast, ('PyObject_CallFunctionObjArgs', 'PyObject_CallOneArg', 'PyObject_CallFunction'))]
    ok = len(cc) == 1 and 'T:destructor != 0' in g.fact_texts(cc[0].id)
    a = [cx.render(x) for x in cx.call_args(cx.calls_in(cc[0].ast)[0])][:2] if cc else []
    run.ob('D1/no-call-without-destructor', 'gcp_finalize', 'if (destructor != NULL) destructor(origobj)', ok and a == ['destructor', 'origobj'], tu.where(tu.func('gcp_finalize')))
    # "this decrements the reference count of the two arguments": on every path, for origobj;
    # whenever it is non-NULL, for the destructor
    def decrefs(var):
        return [n.id for n in g.nodes if n.ast is not None and any(cx.callee_name(c) in ('Py_DECREF', 'Py_XDECREF', '_Py_DECREF', '_Py_XDECREF', 'Py_DecRef') and
                                                                   cx.render(cx.call_args(c)[0]) == var for c in cx.calls_in(n.ast))]
    do = decrefs('origobj')
    ok = bool(do) and g.exit.id not in g.reach([g.entry.id], avoid=do)
    run.ob('D1/finalizer-drops-the-object-on-every-path', 'gcp_finalize', 'Py_XDECREF(origobj) on all paths (also without a destructor)', ok,
           tu.where(tu.func('gcp_finalize')), None if ok else 'a path reaches the end of gcp_finalize keeping the reference to origobj: whatever it owns (an inner ffi.gc wrapper, an exported buffer, allocator memory) is never released')
    dd = decrefs('destructor')
    nn = g.edges_of(lambda cn, l: (cx.render(cn.ast).replace(' ', ''), l) in (('destructor!=0', 'F'), ('destructor==0', 'T'), ('destructor', 'F'), ('!destructor', 'T')))
    ok = bool(dd) and g.exit.id not in g.reach([g.entry.id], avoid=dd, avoid_edges=nn)
    run.ob('D1/finalizer-drops-the-destructor-when-there-is-one', 'gcp_finalize', 'Py_DECREF(destructor) on all paths with destructor != NULL', ok, tu.where(tu.func('gcp_finalize')))
    # who calls cdatagcp_finalize: tp_finalize slot and cdata_exit only
    users = sorted({fn for fn, _c in rules.callers_of(tu, 'cdatagcp_finalize')})
    slots = slot_functions(tu)
    run.ob('D1/finalize-entry-points', 'cdatagcp_finalize', 'called from cdata_exit and installed as tp_finalize of CDataGCP_Type',
           users == ['cdata_exit'] and 'CDataGCP_Type' in slots.get('cdatagcp_finalize', []), None, 'callers %s, slots %s' % (users, slots.get('cdatagcp_finalize')))
    run.ob('D1/dealloc-installed', 'cdatagcp_dealloc', 'tp_dealloc of CDataGCP_Type', 'CDataGCP_Type' in slots.get('cdatagcp_dealloc', []), None)
    # gc(p, None)
    g = cfg_of(tu, 'b_gcp')
    clr = rules.null_store_nodes(g, 'origobj->destructor')
    ok = bool(clr) and all('T:destructor == &_Py_NoneStruct' in g.fact_texts(n.id) for n in clr)
    run.ob('D1/gc-None-clears-the-destructor', 'b_gcp', 'if (destructor == Py_None) Py_CLEAR(origobj->destructor)', ok, tu.where(tu.func('b_gcp')))


def d2(run, tu):
    fn = 'explicit_release_case'
    g = cfg_of(tu, fn)
    got = {}
    for n in g.nodes:
        if n.kind != 'return' or n.id not in g.live():
            continue
        v = rules.return_value(n)
        facts = g.fact_texts(n.id)
        ty = [t.split('== &')[1] for t in facts if t.startswith('T:Py_TYPE(cd) == &')]
        got[v] = ty[0] if ty else None
        if v == '-1':
            setters = [m.id for m in g.nodes if m.ast is not None and cx.calls_in(m.ast, 'PyErr_SetString')]
            cls = {rules.exc_class_of(c) for m in g.nodes if m.ast is not None for c in cx.calls_in(m.ast, 'PyErr_SetString')}
            run.ob('D2/unsupported-object-raises-ValueError', fn, 'return -1', g.must_precede(n.id, setters) and cls == {'PyExc_ValueError'}, tu.where(n.ast))
    want = {'0': 'CDataOwning_Type', '1': 'CDataFromBuf_Type', '2': 'CDataGCP_Type', '-1': None}
    run.ob('D2/release-case-per-cdata-kind', fn, 'new()->0, from_buffer()->1, gc()->2', got == want, tu.where(tu.func(fn)), str(got))
    fn = 'cdata_exit'
    g = cfg_of(tu, fn)
    sw = [n for n in g.nodes if n.kind == 'switch']
    run.need(len(sw) == 1 and cx.render(sw[0].ast) == 'explicit_release_case(cd)', '%s: switch on explicit_release_case(cd) not found' % fn)
    for t, lab in sw[0].succ:
        reach = g.reach([t], avoid=[m.id for m in g.nodes if m.info == 'break'])
        calls = set()
        for m in reach:
            if g.nodes[m].ast is not None:
                calls |= cx.called_names(g.nodes[m].ast)
        key = lab[1] if lab[0] == 'case' else 'default'
        if key in ('0', '1', '2'):
            rets = {rules.return_value(g.nodes[m]) for m in g.reach([t]) if g.nodes[m].kind == 'return'}
            run.ob('D2/successful-release-returns-None', fn, 'case %s ends in `return Py_None`' % key, rets == {'&_Py_NoneStruct'}, None,
                   'returns reachable from the case: %s' % sorted(rets))
        if key == '1':
            view = rules.single_def(tu.func(fn), 'view')
            ok = 'PyBuffer_Release' in calls and view is not None and cx.render(view).endswith('->bufferview')
            run.ob('D2/from-buffer-release-drops-the-export', fn, 'case 1: PyBuffer_Release(cd->bufferview)', ok, tu.where(g.nodes[t].ast) if g.nodes[t].ast else None)
        elif key == '2':
            c = [x for m in reach if g.nodes[m].ast is not None for x in cx.calls_in(g.nodes[m].ast, 'cdatagcp_finalize')]
            ok = len(c) == 1 and cx.render(cx.call_args(c[0])[0]) == 'cd'
            run.ob('D2/gc-release-runs-the-finalizer-now', fn, 'case 2: cdatagcp_finalize(cd)', ok, None)
        elif key == '0':
            c = [x for m in reach if g.nodes[m].ast is not None for x in cx.calls_in(g.nodes[m].ast, 'cdatagcp_finalize')]
            ok = all(cx.render(cx.call_args(x)[0]) == 'x' for x in c) and len(c) <= 1
            okf = True
            for m in reach:
                if g.nodes[m].ast is not None and cx.calls_in(g.nodes[m].ast, 'cdatagcp_finalize'):
                    f = g.fact_texts(m)
                    okf = 'T:Py_TYPE(x) == &CDataGCP_Type' in f
            run.ob('D2/new-release-only-finalizes-allocator-structs', fn, 'case 0: cdatagcp_finalize(x) only if x is a gc object', ok and okf, None)
        elif key == 'default':
            rets = {rules.return_value(g.nodes[m]) for m in g.reach([t]) if g.nodes[m].kind == 'return'}
            first = [rules.return_value(g.nodes[m]) for m in [t] + [s for s, _l in g.nodes[t].succ] if g.nodes[m].kind == 'return']
            run.ob('D2/error-case-returns-NULL', fn, 'default: return NULL', '0' in rets and bool(first) and first[0] == '0', None)
    labels = sorted(l[1] if l[0] == 'case' else 'default' for _t, l in sw[0].succ)
    run.ob('D2/all-cases-handled', fn, 'cases 0, 1, 2, default', labels == ['0', '1', '2', 'default'], tu.where(sw[0].ast), str(labels))


def d3(run, tu):
    slots = slot_functions(tu)
    for fn, must_free in (('cdatafrombuf_dealloc', True), ('cdatafrombuf_clear', False)):
        f = tu.func(fn)
        view = rules.single_def(f, 'view')
        rel = [c for c in cx.calls_in(f, 'PyBuffer_Release') if cx.render(cx.call_args(c)[0]) == 'view']
        ok = view is not None and cx.render(view).endswith('->bufferview') and len(rel) == 1
        if must_free:
            fr = [c for c in cx.calls_in(f, 'PyObject_Free') if cx.render(cx.call_args(c)[0]) == 'view']
            ok = ok and len(fr) == 1
            # the view pointer is read before the object is freed
            g = cfg_of(tu, fn)
            dn = [n.id for n in g.nodes if n.ast is not None and cx.calls_in(n.ast, 'cdata_dealloc')]
            ld = [n.id for n in g.nodes if n.ast is not None and any(cx.lhs_text(l_) == 'view' and 'bufferview' in cx.render(r_) for l_, r_, _o, _x in cx.assignments(n.ast))]
            ok = ok and bool(dn) and bool(ld) and g.must_precede(dn[0], ld)
        run.ob('D3/view-released-by-%s' % fn.split('_')[1], fn, 'PyBuffer_Release(cd->bufferview)', ok and 'CDataFromBuf_Type' in slots.get(fn, []), tu.where(f))
    f = tu.func('cdatafrombuf_traverse')
    txt = ' '.join(stmt_text(n.ast) for n in cfg_of(tu, 'cdatafrombuf_traverse').nodes if n.ast is not None)
    run.ob('D3/source-object-visible-to-the-collector', 'cdatafrombuf_traverse', 'Py_VISIT(view->obj)', 'view->obj' in txt and 'CDataFromBuf_Type' in slots.get('cdatafrombuf_traverse', []), tu.where(f))


def d4(run, tu):
    fn = 'newp_handle'
    f = tu.func(fn)
    asg = {cx.lhs_text(l): cx.render(r) for l, r, op, _x in cx.assignments(f) if op == '='}
    run.ob('D4/handle-address-is-the-object-itself', fn, 'cd->head.c_data = (char *)cd', asg.get('cd->head.c_data') == 'cd', tu.where(f), str(asg.get('cd->head.c_data')))
    g = cfg_of(tu, fn)
    inc = [n.id for n in g.nodes if n.ast is not None and stmt_text(n.ast) == 'Py_INCREF(x)']
    st = [n.id for n in g.nodes if n.ast is not None and any(cx.lhs_text(l) == 'cd->structobj' and cx.render(r) == 'x' for l, r, op, _x in cx.assignments(n.ast))]
    run.ob('D4/handle-keeps-its-object-alive', fn, 'Py_INCREF(x); cd->structobj = x', len(inc) == 1 and len(st) == 1, tu.where(f))
    fresh = cx.calls_in(f, ('_PyObject_GC_New', 'PyObject_GC_New'))
    run.ob('D4/each-handle-is-a-fresh-object', fn, 'PyObject_GC_New(CDataObject_own_structptr, &CDataOwningGC_Type)', len(fresh) == 1 and 'CDataOwningGC_Type' in cx.render(fresh[0]), tu.where(f))
    fn = 'b_from_handle'
    g = cfg_of(tu, fn)
    f = tu.func(fn)
    rets = [n for n in g.nodes if n.kind == 'return' and not cx.is_null(cx.kids(n.ast)[0])]
    ok = len(rets) == 1 and rules.return_value(rets[0]) == 'x'
    xdef = rules.single_def(f, 'x')
    odef = rules.single_def(f, 'orgcd')
    ok = ok and xdef is not None and cx.render(xdef) == 'orgcd->structobj' and odef is not None and cx.render(odef) == 'arg->c_data'
    run.ob('D4/from-handle-returns-the-stored-object', fn, 'orgcd = arg->c_data; x = orgcd->structobj; return x', ok, tu.where(f))
    if rets:
        facts = g.fact_texts(rets[0].id)
        F = rules.macro_flags(tu, 'CT_')
        ff = rules.flag_facts(g, g.dominating_facts(rets[0].id), 'ct->ct_flags')
        okt = ff.get(F['CT_IS_VOIDCHAR_PTR']) == 'T' and ('F:!orgcd' in facts or 'T:orgcd' in facts or 'F:orgcd == 0' in facts)
        run.ob('D4/from-handle-type-and-null-tests-dominate', fn, 'void*/char* type test; NULL test', okt, tu.where(rets[0].ast), str(sorted(facts)))
        inc = [n.id for n in g.nodes if n.ast is not None and stmt_text(n.ast) == 'Py_INCREF(x)']
        run.ob('D4/from-handle-returns-a-new-reference', fn, 'Py_INCREF(x)', bool(inc) and g.must_precede(rets[0].id, inc), tu.where(rets[0].ast))
        chk = [n for n in g.nodes if n.kind == 'cond' and 'CDataOwningGC_Type' in cx.render(n.ast)]
        okc = bool(chk) and any(m.ast is not None and cx.calls_in(m.ast, ('Py_FatalError', '_Py_FatalErrorFunc')) for c in chk for t, l in c.succ if l == 'T' for m in [g.nodes[t]])
        run.ob('D4/garbage-address-detected', fn, 'if (Py_TYPE(orgcd) != &CDataOwningGC_Type) Py_FatalError', okc, tu.where(f))
    # dealloc / clear of a handle drop the reference exactly there
    for fn2 in ('cdataowninggc_dealloc', 'cdataowninggc_clear'):
        g2 = cfg_of(tu, fn2)
        F = rules.macro_flags(tu, 'CT_')
        dec = [n for n in g2.nodes if n.ast is not None and stmt_text(n.ast) == 'Py_DECREF(x)']
        ok = len(dec) == 1 and rules.flag_facts(g2, g2.dominating_facts(dec[0].id), 'cd->c_type->ct_flags').get(F['CT_IS_VOID_PTR']) == 'T'
        run.ob('D4/handle-reference-dropped-with-the-handle', fn2, 'Py_DECREF(structobj) for handles', ok, tu.where(tu.func(fn2)))


def d5_d6(run, tu):
    f = tu.func('direct_newp')
    st = [(cx.lhs_text(l), cx.render(r)) for l, r, op, _x in cx.assignments(f) if cx.lhs_text(l).endswith('->structobj')]
    run.ob('D5/pointer-object-owns-the-struct-object', 'direct_newp', '->structobj = cds', [b for _a, b in st] == ['cds'], tu.where(f), str(st))
    g = cfg_of(tu, 'cdataowning_subscript')
    F = rules.macro_flags(tu, 'CT_')
    rets = [n for n in g.nodes if n.kind == 'return' and rules.return_value(n) == 'res']
    ok = len(rets) == 1 and rules.flag_facts(g, g.dominating_facts(rets[0].id), 'cd->c_type->ct_flags').get(F['CT_IS_PTR_TO_OWNED']) == 'T'
    d = rules.single_def(tu.func('cdataowning_subscript'), 'res')
    inc = [n.id for n in g.nodes if n.ast is not None and stmt_text(n.ast) == 'Py_INCREF(res)']
    ok = ok and d is not None and cx.render(d).endswith('->structobj') and bool(inc) and g.must_precede(rets[0].id, inc)
    run.ob('D5/p[0]-returns-the-owned-struct-with-a-new-reference', 'cdataowning_subscript', 'res = cd->structobj; Py_INCREF(res); return res', ok, tu.where(tu.func('cdataowning_subscript')))
    g = cfg_of(tu, 'cdataowning_dealloc')
    dec = [n for n in g.nodes if n.ast is not None and stmt_text(n.ast).startswith('Py_DECREF(') and 'structobj' in stmt_text(n.ast)]
    ok = len(dec) == 1 and rules.flag_facts(g, g.dominating_facts(dec[0].id), 'cd->c_type->ct_flags').get(F['CT_IS_PTR_TO_OWNED']) == 'T'
    run.ob('D5/struct-object-dropped-with-its-pointer', 'cdataowning_dealloc', 'Py_DECREF(cd->structobj)', ok, tu.where(tu.func('cdataowning_dealloc')))
    f = tu.func('allocate_with_allocator')
    c = cx.calls_in(f, 'allocate_gcp_object')
    ok = len(c) == 1 and [cx.render(a) for a in cx.call_args(c[0])] == ['cd', 'ct', 'allocator->ca_free']
    run.ob('D6/allocator-memory-wrapped-with-its-free-function', 'allocate_with_allocator', 'allocate_gcp_object(cd, ct, allocator->ca_free)', ok, tu.where(f))
    f = tu.func('allocate_gcp_object')
    asg = {cx.lhs_text(l): cx.render(r) for l, r, op, _x in cx.assignments(f) if op == '='}
    ok = asg.get('cd->origobj') == 'origobj' and asg.get('cd->destructor') == 'destructor' and asg.get('cd->head.c_data') == 'origobj->c_data'
    g = cfg_of(tu, 'allocate_gcp_object')
    incs = sorted(stmt_text(n.ast) for n in g.nodes if n.ast is not None and stmt_text(n.ast).startswith(('Py_INCREF', 'Py_XINCREF')))
    run.ob('D6/gc-wrapper-holds-destructor-and-original', 'allocate_gcp_object', 'cd->origobj = origobj; cd->destructor = destructor (both INCREF\'ed)',
           ok and 'Py_INCREF(origobj)' in incs and 'Py_XINCREF(destructor)' in incs, tu.where(f), str(incs))


def d7(run, tu):
    """"at collection": an object that owns Python references is only collected with a cycle if its tp_traverse shows every one of them to
    the collector -- under no other condition than the reference being there (and, for the shared owning type, the kind of cdata)"""
    F = rules.macro_flags(tu, 'CT_')
    table = [('cdatagcp_traverse', 'cd->destructor', None), ('cdatagcp_traverse', 'cd->origobj', None),
             ('cdatafrombuf_traverse', 'view->obj', None),
             ('cdataowninggc_traverse', 'cd->structobj', F['CT_IS_VOID_PTR']),
             ('cdataowninggc_traverse', 'closure->user_data', F['CT_FUNCTIONPTR'])]
    for fn, field, mask in table:
        f = tu.func(fn)
        g = cfg_of(tu, fn)
        # locals that are single-assigned from the field stand for it
        alias = {field.replace(' ', '')}
        asg = {}
        for l_, r_, o_, _x in cx.assignments(f):
            asg.setdefault(cx.lhs_text(l_), []).append((r_, o_))
        for _round in range(3):
            for name_, defs_ in asg.items():
                if len(defs_) == 1 and defs_[0][1] in ('init', '=') and re.match(r'^\w+$', name_ or ''):
                    r_ = defs_[0][0]
                    if cx.render(cx.strip(r_, casts=True)).replace(' ', '') in alias or cx.render(r_).replace(' ', '') in alias:
                        alias.add(name_)
        visits = []
        for n in g.nodes:
            if n.ast is None:
                continue
            for c in cx.calls_in(n.ast):
                if cx.callee_text(c) == 'visit' and cx.call_args(c):
                    a0 = cx.call_args(c)[0]
                    if cx.render(cx.strip(a0, casts=True)).replace(' ', '') in alias or cx.render(a0).replace(' ', '') in alias:
                        visits.append(n)
        ok, why = bool(visits), 'the reference is never passed to visit(): a cycle through it is never collected and the destructor never runs'
        for n in visits:
            extra = []
            for t in g.fact_texts(n.id):
                lab, cond = t.split(':', 1)
                c0 = cond.replace(' ', '')
                about_self = any(c0 in (a, a + '!=NULL', a + '!=0', a + '!=((void*)0)', '(PyObject*)(' + a + ')') for a in alias) and lab == 'T'
                about_kind = mask is not None and lab == 'T' and c0 == 'cd->c_type->ct_flags&%d' % mask
                other_kind = lab == 'F' and c0.startswith('cd->c_type->ct_flags&')
                prior_visit = lab == 'F' and c0 in ('vret', 'vret!=0', '0')     # `0` is the do { } while (0) of an earlier Py_VISIT
                if not (about_self or about_kind or other_kind or prior_visit):
                    extra.append(t)
            if extra:
                ok, why = False, 'visit(%s) is only reached when also %s: references held through other kinds of objects stay invisible to the collector' % (field, sorted(extra))
        run.ob('D7/collector-sees-every-owned-reference', fn, 'Py_VISIT(%s)' % field, ok, tu.where(f), why)


def check(run):
    run.explanation = (
        'Typestate rules on the CFGs of the ownership code: finalise-once (every gcp_finalize call has its arguments loaded '
        'from the object and, unless the object is being freed, both fields NULLed before the call on all paths; no call '
        'for a NULL destructor; gc(p, None) clears it; the only entry points are tp_finalize, tp_dealloc and cdata_exit), '
        'the release-case table of cdata_exit, release/free/traverse of from_buffer views, handle creation/lookup and '
        'reference pairing, keep-alive of ffi.new("struct *"), and routing of allocator memory through the gc wrapper.')
    tu = backend_tu()
    d1(run, tu)
    d2(run, tu)
    d3(run, tu)
    d4(run, tu)
    d5_d6(run, tu)
    d7(run, tu)
    run.min_instances('D1', 9)
    run.min_instances('D2', 7)
    run.min_instances('D3', 3)
    run.min_instances('D4', 9)
    run.min_instances('D7', 5)
    run.assume('PyBuffer_Release is idempotent (CPython clears view->obj); GC timing is not modelled')
