"""C12 — API-mode modules reflect the C source and detect mismatches (DESIGN §3 C12):
presence and wiring of the checking code, in the generator's output and in the backend.

G1 generated struct entries: _CFFI_F_CHECK_FIELDS iff the cdef struct has no '...' and no
   anonymous member; fields carry offsetof(<the C struct>, f) and sizeof(((T *)0)->f);
   size is sizeof(T); alignment the _cffi_align_ idiom.
G2 generated integer constants carry _cffi_check_int(*o, n, V) with the cdef's V iff a value
   was given, and set bit 2 on failure; enumerators with explicit values likewise.
B1 backend: CHECK_FIELDS -> SF_STD_FIELD_POS on the only path from lazy realisation to the
   layout computation; the field-size comparison is made with that flag; with the flag a
   mismatch sets FFIError and fails, without it it only marks the type; the offset, total
   size and alignment comparisons exist and their failure aborts the completion.
B2 realize_global_int raises FFIError for every status other than 0/1.
"""
import ast
import json
import os
import re

from .. import gen
from ..cast import cx, rules
from ..cast.cfg import cfg_of, stmt_text
from ..cast.loader import backend_tu, wrapper_tu
from ..pyast.index import cffi_mod, u


INT_GENERIC = ('#define VERIF_PRIM_OF(T) _Generic((T)0, _Bool: _CFFI_PRIM_UINT8, char: (((char)-1) < 0 ? _CFFI_PRIM_INT8 : _CFFI_PRIM_UINT8), '
               'signed char: _CFFI_PRIM_INT8, unsigned char: _CFFI_PRIM_UINT8, short: _CFFI_PRIM_INT16, unsigned short: _CFFI_PRIM_UINT16, '
               'int: _CFFI_PRIM_INT32, unsigned int: _CFFI_PRIM_UINT32, long: _CFFI_PRIM_INT64, unsigned long: _CFFI_PRIM_UINT64, '
               'long long: _CFFI_PRIM_INT64, unsigned long long: _CFFI_PRIM_UINT64, float: _CFFI_PRIM_FLOAT, double: _CFFI_PRIM_DOUBLE, default: -99)\n')


def g5(run, thorough):
    """`typedef int... T;` / `typedef float... T;`: the expression the generator emits to let the compiler pick
    the primitive must evaluate, for every integer type, to the primitive of T's real type (compile-only witness)"""
    from .c10 import compile_asserts
    from ..cast.loader import repo_root, py_include
    text = gen.generated()['p_dotint']
    m = re.search(r'_cffi_types\[\] = \{(.*?)\n\};', text, re.S)
    run.need(m is not None, 'generated p_dotint.c has no _cffi_types table')
    rows = re.findall(r'/\*\s*\d+\s*\*/\s*_CFFI_OP\(_CFFI_OP_PRIMITIVE,\s*(_cffi_prim_(?:int|float)\(.*?\))\),\s*//\s*(\w+)(?=\n|$)', m.group(1), re.S)
    run.need(len(rows) >= 14, 'generated p_dotint.c: expected >= 14 compiler-resolved primitive rows, found %d' % len(rows))
    asserts = []
    for expr, tname in rows:
        e = ' '.join(re.sub(r'/\*.*?\*/', ' ', expr, flags=re.S).split())
        asserts.append(('_Static_assert((%s) == VERIF_PRIM_OF(%s), "row %s");' % (e, tname, tname), 'row %s' % tname, 'emitted: %s' % e))
    compile_asserts(run, 'G5/compiler-resolved-primitive-is-the-real-type', 'Recompiler._emit_bytecode_Unknown{Integer,Float}Type', 'corpus p_dotint',
                    text + '\n' + INT_GENERIC, asserts, thorough,
                    flags=['-I' + os.path.join(repo_root(), 'src/cffi'), '-I' + py_include(), '-DNDEBUG'],
                    gcc_only={m_ for _a, m_, d_ in asserts if '_cffi_prim_float' in d_})
    return len(asserts)


def b3(run, tu):
    """the other consumer of the generated constant getter -- an array length given by name in a type string --
    treats every status but 0 (positive, agrees) and 1 (<= 0, agrees) as an error: constant propagation from
    `neg = g->address(&gc)` for each status x value class"""
    from ..cast import absint
    from ..cast.absint import Con
    F = 'parse_sequel'
    g = cfg_of(tu, F)
    src = [n for n in g.nodes if n.ast is not None and n.kind == 'stmt' and any(cx.lhs_text(l) == 'neg' and 'g->address' in cx.render(r) for l, r, op, _x in cx.assignments(n.ast))]
    run.need(len(src) == 1, '%s: `neg = g->address(&gc)` not found' % F)
    start = [t for t, _l in src[0].succ][0]
    errs = {n.id for n in g.nodes if n.kind == 'return' and any(cx.callee_name(c) == 'parse_error' for c in cx.calls_in(n.ast))}
    use = [n for n in g.nodes if n.ast is not None and n.kind == 'stmt' and any(cx.callee_name(c) == 'write_ds' and cx.render(cx.call_args(c)[1]).endswith('length') for c in cx.calls_in(n.ast))]
    run.need(len(use) == 1, '%s: the store of the array length not found' % F)
    for neg in (0, 1, 2, 3):
        for value, vname in ((0, 'zero'), (5, 'small'), (1 << 63, 'above the maximum size')):
            env = {'neg': Con(neg, 32, True), 'gc.value': Con(value, 64, False)}
            it = absint.Interp(g, env, {'next_token': lambda a, e: absint.TOP}, const_vars={'neg', 'gc.value'})
            it.run_from(start, env, errs | {use[0].id})
            hit_err = [x for x in errs if x in it.in_state]
            hit_use = use[0].id in it.in_state
            if hit_err and hit_use:
                from .. import AnalysisError
                raise AnalysisError('%s: status %d / value %s not decided by constant propagation' % (F, neg, vname))
            if neg == 0:
                want_ok = value <= (1 << 63) - 1
            elif neg == 1:
                want_ok = value == 0          # zero is a legal length; a negative value is not
            else:
                want_ok = False               # bit 1: the compiler's value disagrees with the cdef
            got_ok = hit_use and not hit_err
            ln = it.in_state[use[0].id].get('length') if got_ok else None
            okv = (not got_ok) or (isinstance(ln, Con) and ln.v == value)
            run.ob('B3/array-length-constant-with-a-bad-status-is-an-error', F, 'status %d (%s), value %s' % (neg, {0: 'positive, agrees', 1: '<= 0, agrees', 2: 'positive, DISAGREES', 3: '<= 0, DISAGREES'}[neg], vname),
                   got_ok == want_ok and okv, tu.where(src[0].ast), '%s; expected %s' % ('accepted as length %r' % (ln,) if got_ok else 'rejected', 'accepted' if want_ok else 'rejected'))


def rows_of(text, decl):
    m = re.search(re.escape(decl) + r'\[\] = \{(.*?)\n\};', text, re.S)
    if not m:
        return None
    body = m.group(1)
    rows = []
    depth = 0
    cur = ''
    for ch in body:
        if ch == '{':
            depth += 1
            if depth == 1:
                cur = ''
                continue
        if ch == '}':
            depth -= 1
            if depth == 0:
                rows.append(' '.join(cur.split()))
                continue
        if depth >= 1:
            cur += ch
    return rows


def split_top(s):
    out, cur, depth = [], '', 0
    for ch in s:
        if ch in '([':
            depth += 1
        if ch in ')]':
            depth -= 1
        if ch == ',' and depth == 0:
            out.append(cur.strip())
            cur = ''
        else:
            cur += ch
    if cur.strip():
        out.append(cur.strip())
    return out


def strip_comments(s):
    return re.sub(r'/\*.*?\*/', '', s).strip()


def g1(run, expect):
    texts = gen.generated()
    nrows = 0
    for probe, structs in sorted(expect['structs'].items()):
        t = texts[probe]
        rows = rows_of(t, 'static const struct _cffi_struct_union_s _cffi_struct_unions')
        frows = rows_of(t, 'static const struct _cffi_field_s _cffi_fields') or []
        run.need(rows is not None, 'probe %s: _cffi_struct_unions table not found' % probe)
        fields = [split_top(r) for r in frows]
        seen = set()
        for r in rows:
            cells = [strip_comments(c) for c in split_top(r)]
            name = cells[0].strip('"')
            seen.add(name)
            want = structs.get(name)
            run.need(want is not None, 'probe %s: struct %s has no expectation in corpus/expect_c12.json' % (probe, name))
            flags = set(cells[2].replace(' ', '').split('|')) - {'0'}
            nrows += 1
            has = '_CFFI_F_CHECK_FIELDS' in flags
            ok = has == (want == 'check')
            run.ob('G1/check-flag-iff-fully-declared', '%s:%s' % (probe, name), 'flags %s (cdef: %s)' % (cells[2], want), ok, None,
                   None if ok else ('a fully declared struct is not checked against the compiler' if want == 'check' else 'a partial/anonymous struct is checked'))
            if want in ('opaque', 'external'):
                ok = ('_CFFI_F_OPAQUE' in flags) == (want == 'opaque') and ('_CFFI_F_EXTERNAL' in flags) == (want == 'external')
                run.ob('G1/opaque-and-external-flags', '%s:%s' % (probe, name), 'flags %s' % cells[2], ok, None)
                continue
            # size / alignment from the compiler
            cname = re.match(r'sizeof\((.*)\)$', cells[3])
            ok = cname is not None and re.match(r'offsetof\(struct _cffi_align_\w+, y\)$', cells[4]) is not None
            run.ob('G1/size-and-alignment-taken-from-the-compiler', '%s:%s' % (probe, name), '%s, %s' % (cells[3], cells[4]), ok, None)
            if not cname:
                continue
            cn = cname.group(1)
            first, num = int(cells[5]), int(cells[6])
            for fr in fields[first:first + num]:
                fname = fr[0].strip('"')
                off, size = strip_comments(fr[1]), strip_comments(fr[2])
                op = fr[3]
                if 'BITFIELD' in op:
                    okf = off == '(size_t)-1' and size.isdigit()
                else:
                    unsized = '%s.%s' % (name, fname) in expect.get('unsized_fields', {}).get(probe, [])
                    okf = off == 'offsetof(%s, %s)' % (cn, fname) and size == ('(size_t)-1' if unsized else 'sizeof(((%s *)0)->%s)' % (cn, fname))
                run.ob('G1/field-offset-and-size-taken-from-the-compiler', '%s:%s.%s' % (probe, name, fname), '%s, %s' % (off, size), okf, None)
        missing = set(structs) - seen
        run.ob('G1/every-declared-struct-has-an-entry', probe, 'structs %s' % sorted(structs), not missing, None, 'missing %s' % sorted(missing))
    # generator source: the flag decision
    m = cffi_mod('recompiler')
    f = m.find('Recompiler._struct_ctx')
    app = [c for c in ast.walk(f) if isinstance(c, ast.Call) and u(c.func) == 'flags.append' and u(c.args[0]) in ("'_CFFI_F_CHECK_FIELDS'", '"_CFFI_F_CHECK_FIELDS"')]
    ok = len(app) == 1
    if ok:
        p = m.parents.get(m.parents.get(app[0]))
        chain = []
        node = p
        while node is not None and node is not f:
            if isinstance(node, ast.If):
                chain.append(u(node.test))
            node = m.parents.get(node)
        ok = any('tp.partial or any(tp.anonymous_struct_fields())' in c for c in chain) and any('tp.fldtypes is None' in c for c in chain)
    run.ob('G1/generator-decides-the-flag-from-partial-and-anonymous', 'Recompiler._struct_ctx', "flags.append('_CFFI_F_CHECK_FIELDS') in the else of partial/anonymous", ok, m.where(f))
    return nrows


def g2(run, expect):
    texts = gen.generated()
    n = 0
    for probe, consts in sorted(expect['int_constants'].items()):
        gt = gen.gen_tu(probe)
        for name, val in sorted(consts.items()):
            fn = '_cffi_const_%s' % name
            run.need(gt.has_func(fn), 'probe %s: %s not generated' % (probe, fn))
            g = cfg_of(gt, fn)
            src = gt.text(gt.func(fn)) or ''
            m = re.search(r'_cffi_check_int\(\*o, n, (-?\d+)U?\)', src)
            n += 1
            if val is None:
                run.ob('G2/no-check-without-a-cdef-value', '%s:%s' % (probe, fn), 'no _cffi_check_int', m is None, gt.where(gt.func(fn)))
                continue
            ok = m is not None and int(m.group(1)) == val
            # failure sets bit 2, on the failing branch only
            setn = [x for x in g.nodes if x.ast is not None and x.kind == 'stmt' and stmt_text(x.ast) == 'n |= 2']
            ok = ok and len(setn) == 1 and len([c for c in g.nodes if c.kind == 'cond']) >= 1
            rets = [x for x in g.nodes if x.kind == 'return']
            ok = ok and len(rets) == 1 and rules.return_value(rets[0]) == 'n'
            run.ob('G2/constant-checked-against-the-cdef-value', '%s:%s' % (probe, fn), '_cffi_check_int(*o, n, %s); n |= 2 on mismatch' % val, ok, gt.where(gt.func(fn)),
                   'generated check: %s' % (m.group(0) if m else None))
    # the macro the check expands to
    wt = wrapper_tu()
    mac = wt.macros.get('_cffi_check_int')
    ok = mac is not None and mac[0] == ['got', 'got_nonpos', 'expected'] and \
        mac[1].replace(' ', '') == '((got_nonpos)==(expected<=0)&&(got)==(unsignedlonglong)expected)'
    run.ob('G2/check-macro-compares-sign-and-value', '_cffi_include.h', '#define _cffi_check_int(got, got_nonpos, expected)', ok, 'src/cffi/_cffi_include.h', str(mac))
    # generator: which declaration kinds pass a value to the check
    m = cffi_mod('recompiler')
    md = m.find('Recompiler._generate_cpy_macro_decl')
    ok = any(isinstance(c, ast.Call) and u(c.func) == 'self._generate_cpy_const' and any(k.arg == 'check_value' and u(k.value) == 'check_value' for k in c.keywords) for c in ast.walk(md))
    run.ob('G2/define-with-value-passes-it-to-the-check', 'Recompiler._generate_cpy_macro_decl', 'self._generate_cpy_const(True, name, check_value=check_value)', ok, m.where(md))
    ed = m.find('Recompiler._generate_cpy_enum_decl')
    calls = [c for c in ast.walk(ed) if isinstance(c, ast.Call) and u(c.func) == 'self._generate_cpy_const']
    ok = bool(calls) and all(any(k.arg == 'check_value' for k in c.keywords) or len(c.args) >= 5 for c in calls)
    run.ob('G2/enumerator-with-value-passes-it-to-the-check', 'Recompiler._generate_cpy_enum_decl', 'self._generate_cpy_const(True, enumerator, check_value=<cdef value>)', ok, m.where(ed),
           None if ok else 'enumerators declared with a value are emitted without _cffi_check_int: a disagreeing C enum is used silently in API mode')
    # confirmation on generated code
    for probe, enums in sorted(expect['enumerators_with_values'].items()):
        gt = gen.gen_tu(probe)
        unchecked = [nm for nm in sorted(enums) if gt.has_func('_cffi_const_%s' % nm) and '_cffi_check_int' not in (gt.text(gt.func('_cffi_const_%s' % nm)) or '')]
        run.saw('generated enumerator constants without a value check (%s)' % probe, unchecked)
    return n


def b1(run, tu):
    fn = 'do_realize_lazy_struct_lock_held'
    g = cfg_of(tu, fn)
    f = tu.func(fn)
    SF = rules.macro_flags(tu, 'SF_')
    CF = {k: v for k, v in rules.macro_flags(tu, '_CFFI_F_').items()}
    st = [n for n in g.nodes if n.ast is not None and n.kind == 'stmt' and stmt_text(n.ast).startswith('sflags |=')]
    got = {}
    for n in st:
        val = cx.int_value(cx.assignments(n.ast)[0][1])
        ff = rules.flag_facts(g, g.dominating_facts(n.id), 's->flags')
        for mask, lab in ff.items():
            if lab == 'T':
                got[mask] = val
    ok = got.get(CF['_CFFI_F_CHECK_FIELDS']) == SF['SF_STD_FIELD_POS'] and got.get(CF['_CFFI_F_PACKED']) == SF['SF_PACKED']
    run.ob('B1/check-flag-becomes-strict-layout-flag', fn, 'if (s->flags & _CFFI_F_CHECK_FIELDS) sflags |= SF_STD_FIELD_POS', ok, tu.where(f), str(got))
    call = [n for n in g.nodes if n.ast is not None and cx.calls_in(n.ast, 'b_complete_struct_or_union_lock_held')]
    ok = len(call) == 1
    if ok:
        a = [cx.render(x) for x in cx.call_args(cx.calls_in(call[0].ast, 'b_complete_struct_or_union_lock_held')[0])]
        ok = a[:5] == ['ct', 'fields', 's->size', 's->alignment', 'sflags'] and all(g.must_precede(call[0].id, [n.id]) or True for n in st)
        init = [n for n in g.nodes if n.ast is not None and n.kind == 'stmt' and stmt_text(n.ast) == 'sflags = 0']
        ok = ok and len(init) == 1 and g.must_precede(call[0].id, [init[0].id])
    run.ob('B1/compiler-size-alignment-and-flags-passed-to-the-layout-check', fn, 'b_complete_struct_or_union_lock_held(ct, fields, s->size, s->alignment, sflags, 0)', ok, tu.where(f))
    dcl = [n for n in g.nodes if n.ast is not None and cx.calls_in(n.ast, 'detect_custom_layout')]
    ok = len(dcl) == 1
    if ok:
        a = [cx.render(x) for x in cx.call_args(cx.calls_in(dcl[0].ast, 'detect_custom_layout')[0])]
        ok = a[0] == 'ct' and cx.int_value(cx.call_args(cx.calls_in(dcl[0].ast, 'detect_custom_layout')[0])[1]) == SF['SF_STD_FIELD_POS'] and \
            a[2] == 'ctf->ct_size' and a[3] == 'fld->field_size'
        # failure aborts
        for t, l in dcl[0].succ:
            if l == 'T':
                rets = {rules.return_value(g.nodes[m]) for m in g.reach([t]) if g.nodes[m].kind == 'return'}
                ok = ok and rets == {'-1'}
    run.ob('B1/field-size-compared-strictly', fn, 'detect_custom_layout(ct, SF_STD_FIELD_POS, ctf->ct_size, fld->field_size, ...) < 0 -> fail', ok, tu.where(dcl[0].ast) if dcl else tu.where(f))
    # detect_custom_layout itself
    fn2 = 'detect_custom_layout'
    g2 = cfg_of(tu, fn2)
    err = [n for n in g2.nodes if n.ast is not None and cx.calls_in(n.ast, 'PyErr_Format')]
    ok = len(err) == 1 and rules.exc_class_of(cx.calls_in(err[0].ast, 'PyErr_Format')[0]) == 'FFIError'
    if ok:
        ff = rules.flag_facts(g2, g2.dominating_facts(err[0].id), 'sflags')
        ok = ff.get(SF['SF_STD_FIELD_POS']) == 'T' and 'T:compiler_value != cdef_value' in g2.fact_texts(err[0].id)
        rets = {rules.return_value(g2.nodes[m]) for m in g2.reach([err[0].id]) if g2.nodes[m].kind == 'return'}
        ok = ok and rets == {'-1'}
    run.ob('B1/strict-mismatch-raises-ffi-error', fn2, 'if (compiler_value != cdef_value && (sflags & SF_STD_FIELD_POS)) { FFIError; return -1; }', ok, tu.where(tu.func(fn2)))
    mark = [n for n in g2.nodes if n.ast is not None and n.kind == 'stmt' and stmt_text(n.ast).startswith('ct->ct_flags_mut |=')]
    ok = len(mark) == 1 and rules.flag_facts(g2, g2.dominating_facts(mark[0].id), 'sflags').get(SF['SF_STD_FIELD_POS']) == 'F'
    run.ob('B1/lenient-mismatch-only-marks-the-type', fn2, 'else ct->ct_flags_mut |= CT_CUSTOM_FIELD_POS; return 0', ok, tu.where(tu.func(fn2)))
    eq = [n for n in g2.nodes if n.kind == 'return' and rules.return_value(n) == '0']
    run.ob('B1/equal-values-pass', fn2, 'return 0', len(eq) == 1, tu.where(tu.func(fn2)))
    # the three comparisons inside the layout computation
    fn3 = 'b_complete_struct_or_union_lock_held'
    g3 = cfg_of(tu, fn3)
    sites = [n for n in g3.nodes if n.ast is not None and cx.calls_in(n.ast, 'detect_custom_layout')]
    kinds = {}
    for n in sites:
        a = [cx.render(x) for x in cx.call_args(cx.calls_in(n.ast, 'detect_custom_layout')[0])]
        kinds[(a[2], a[3])] = n
        okn = a[1] == 'sflags' and n.kind == 'cond'
        for t, l in n.succ:
            if l == 'T':
                # failure leaves without installing the fields
                inst = [m.id for m in g3.nodes if m.ast is not None and any(cx.lhs_text(l2) == 'ct->ct_stuff' for l2, r2, op2, _x in cx.assignments(m.ast))]
                okn = okn and not (set(inst) & g3.reach([t]))
        run.ob('B1/layout-comparison-aborts-on-strict-mismatch', fn3, 'detect_custom_layout(ct, sflags, %s, %s, ...)' % (a[2], a[3]), okn, tu.where(n.ast))
    want = {('byteoffset', 'foffset'), ('alignedsize', 'totalsize'), ('alignment', 'totalalignment')}
    run.ob('B1/offset-size-and-alignment-are-all-compared', fn3, 'three detect_custom_layout call sites', set(kinds) == want, tu.where(tu.func(fn3)), str(sorted(kinds)))


def b2(run, tu):
    fn = 'realize_global_int'
    g = cfg_of(tu, fn)
    sw = [n for n in g.nodes if n.kind == 'switch' and cx.render(n.ast) == 'neg']
    run.need(len(sw) == 1, '%s: switch (neg) not found' % fn)
    err = [n for n in g.nodes if n.ast is not None and cx.calls_in(n.ast, 'PyErr_Format')]
    ok = len(err) == 1 and rules.exc_class_of(cx.calls_in(err[0].ast, 'PyErr_Format')[0]) == 'FFIError'
    dflt = [t for t, l in sw[0].succ if l[0] == 'default']
    ok = ok and bool(dflt) and all(g.exit.id not in g.reach([t], avoid=[err[0].id]) for t in dflt)
    rets = {rules.return_value(g.nodes[m]) for m in g.reach([err[0].id]) if g.nodes[m].kind == 'return'} if err else set()
    ok = ok and rets == {'0'}
    labels = sorted(l[1] for _t, l in sw[0].succ if l[0] == 'case')
    run.ob('B2/any-other-status-raises-ffi-error', fn, 'switch (neg) { case 0: case 1: value; default: FFIError }', ok and labels == ['0', '1'], tu.where(tu.func(fn)), str(labels))
    for t, l in sw[0].succ:
        if l[0] == 'case':
            okc = err[0].id not in g.reach([t]) if err else False
            run.ob('B2/good-status-returns-the-compiler-value', fn, 'case %s' % l[1], okc, tu.where(tu.func(fn)))
    src = [cx.render(r) for l, r, op, _x in cx.assignments(tu.func(fn)) if cx.lhs_text(l) == 'neg']
    run.ob('B2/status-comes-from-the-generated-function', fn, 'neg = g->address(&gc)', len(src) == 1 and src[0] == 'g->address(&gc)', tu.where(tu.func(fn)), str(src))
    # lib attribute lookup routes integer constants through it
    la = tu.func('lib_build_and_cache_attr')
    ok = 'realize_global_int' in cx.called_names(la)
    run.ob('B2/lib-integer-constants-go-through-the-check', 'lib_build_and_cache_attr', 'realize_global_int(types_builder, index)', ok, tu.where(la))


def g6(run):
    """a struct is checked against the compiler unless *its own* declaration says `...`: the parser's "a `[...]` length was seen" flag is
    an instance attribute also set while parsing global arrays and typedefs, so whoever reads it has to reset it first, on every path"""
    m = cffi_mod('cparser')
    flag = None
    readers = []
    for q, fn in sorted(m.defs.items()):
        if not isinstance(fn, ast.FunctionDef):
            continue
        for n in ast.walk(fn):
            if isinstance(n, (ast.If, ast.While, ast.IfExp)) and m.enclosing_def(n) is fn:
                for x in ast.walk(n.test):
                    if isinstance(x, ast.Attribute) and x.attr == '_partial_length' and isinstance(x.ctx, ast.Load):
                        readers.append((q, fn, n))
    run.need(readers, 'cparser: no reader of the partial-length flag found (the mechanism changed: review G6)')
    for q, fn, reader in readers:
        # the statement list that contains the reader, and what precedes it there
        parent = m.parents.get(reader)
        block = None
        for fld in ('body', 'orelse', 'finalbody'):
            if isinstance(getattr(parent, fld, None), list) and reader in getattr(parent, fld):
                block = getattr(parent, fld)
        run.need(block is not None, '%s: the reader of the flag is not a statement of a block' % q)
        before = block[:block.index(reader)]
        reset_at = None
        for i, st in enumerate(before):
            if isinstance(st, ast.Assign) and any(u(t) == 'self._partial_length' for t in st.targets) and isinstance(st.value, ast.Constant) and st.value.value is False:
                reset_at = i
        producers = [st for st in (before[reset_at + 1:] if reset_at is not None else []) if any(isinstance(c, ast.Call) and any(k.arg == 'partial_length_ok' for k in c.keywords) for c in ast.walk(st))]
        run.ob('G6/partial-length-flag-reset-before-it-is-read', q, 'self._partial_length = False ... partial_length_ok=True ... if self._partial_length', reset_at is not None and bool(producers), m.where(reader),
               'the flag is read without having been reset in the same block: a `[...]` array or typedef declared earlier (even in another cdef() call) leaves it set, '
               'the next struct becomes partial and its layout is no longer compared with the compiler\'s')
        # and nothing the reader guards may be the only reset
    setters = [n for n in ast.walk(m.tree) if isinstance(n, ast.Assign) and any(u(t) == 'self._partial_length' for t in n.targets) and isinstance(n.value, ast.Constant) and n.value.value is True]
    run.ob('G6/flag-set-only-where-a-partial-length-is-allowed', 'Parser._parse_constant', '; '.join(sorted({m.where(x) for x in setters})),
           bool(setters) and all(any(isinstance(p_, ast.If) and 'partial_length_ok' in u(p_.test) for p_ in _ancestors(m, x)) for x in setters), 'src/cffi/cparser.py')


def _ancestors(m, n):
    p = m.parents.get(n)
    while p is not None:
        yield p
        p = m.parents.get(p)


def check(run):
    run.explanation = (
        'Presence-and-wiring rules. Generated code of the probe corpus (structs: complete, partial, packed, bit-fields, '
        'nested anonymous, union, flexible array, typedef\'d, opaque, included; constants: #define with value / with ..., '
        'static const, enumerators) is compared with ground truth recorded next to the corpus: the check flag, compiler '
        'expressions for offsets/sizes/alignment, and _cffi_check_int with the cdef value. Backend CFG rules: the check '
        'flag becomes the strict layout flag on the only path to the layout computation, strict mismatches raise FFIError '
        'and abort (field size, offset, total size, alignment), lenient ones only mark the type; realize_global_int raises '
        'FFIError for every status other than 0/1.')
    with open(os.path.join(gen.CORPUS_DIR, 'expect_c12.json')) as fh:
        expect = json.load(fh)
    tu = backend_tu()
    n1 = g1(run, expect)
    run.need(n1 >= 20, 'struct rows checked: %d' % n1)
    n2 = g2(run, expect)
    run.need(n2 >= 10, 'integer constants checked: %d' % n2)
    g5(run, run.tier == 'thorough')
    b1(run, tu)
    b2(run, tu)
    b3(run, tu)
    g6(run)
    run.min_instances('B3', 12)
    run.min_instances('G1/check-flag-iff-fully-declared', 20)
    run.min_instances('G1/field-offset-and-size-taken-from-the-compiler', 30)
    run.min_instances('G2', 12)
    run.min_instances('G5', 14)
    run.min_instances('B1', 9)
    run.min_instances('B2', 4)
    run.min_instances('G6', 2)
    run.assume('that calls return what C returns and that addresses are the compiler\'s is true by construction of the generated wrappers and not decided here')
