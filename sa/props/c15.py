"""C15 — character arrays and strings round-trip, including the terminator (DESIGN §3 C15):
terminator and bounded-scan clauses.

S1 convert_array_from_object: in every element-size branch a string shorter than the
   array is written with one more (zero) unit: the char branch copies n+1 bytes of a
   NUL-terminated bytes object; the wide branches pass n+1 to a helper that must use
   that length to emit the terminator; too-long initialisers raise IndexError first.
S2 b_string: in each bounded counting loop the bound is tested before the element is
   read; the char case scans with memchr over the bound.
S3 get_new_array_length reserves one extra unit for bytes/str initialisers.
"""
from ..cast import cx, rules
from ..cast.cfg import cfg_of, stmt_text
from ..cast.loader import backend_tu


def _units_per_iteration(g, loopcond):
    """(min, max) number of `*result++ = ...` stores on the paths of one loop iteration"""
    starts = [t for t, l in loopcond.succ if l == 'T']
    best = [None, None]

    def rec(i, count, seen):
        if i == loopcond.id:
            best[0] = count if best[0] is None else min(best[0], count)
            best[1] = count if best[1] is None else max(best[1], count)
            return
        if i in seen:
            return
        n = g.nodes[i]
        c = count
        if n.ast is not None and n.kind == 'stmt' and stmt_text(n.ast).startswith('*result++ ='):
            c += 1
        for t, _l in n.succ:
            rec(t, c, seen | {i})
    for s0 in starts:
        rec(s0, 0, frozenset())
    return best[0], best[1]


def _guard_bounds_cursor(g, fn, facts, loop):
    import re as _re
    for t in sorted(facts):
        if not t.startswith('T:'):
            continue
        e = t[2:].replace(' ', '')
        m = _re.match(r'^result<(\w+)$', e) or _re.match(r'^(\w+)>result$', e)
        if m:
            d = rules.single_def(fn, m.group(1))
            dt = cx.render(d).replace(' ', '') if d is not None else None
            if dt in ('result+resultlen', 'resultlen+result'):
                return True, 'cursor compared with %s = %s' % (m.group(1), dt)
            return False, 'cursor compared with %s, which is not result + resultlen (%s)' % (m.group(1), dt)
        m = _re.match(r'^resultlen>(\w+)$', e) or _re.match(r'^(\w+)<resultlen$', e)
        if m and loop:
            lo, hi = _units_per_iteration(g, loop[0])
            if m.group(1) == 'len' and (lo, hi) == (1, 1):
                return True, 'capacity compared with len and every iteration writes exactly one unit'
            return False, ('capacity compared with %s, but one iteration of the copy loop writes between %s and %s units: '
                           'the number of units written is not %s' % (m.group(1), lo, hi, m.group(1)))
    from .. import AnalysisError
    raise AnalysisError('_my_PyUnicode_AsChar16: the guard of the terminator store (%s) is not in a form this rule decides' % sorted(facts))


def s1(run, tu):
    fn = 'convert_array_from_object'
    g = cfg_of(tu, fn)
    f = tu.func(fn)
    # the three copy sites
    sites = []
    for n in g.nodes:
        if n.ast is None:
            continue
        for c in cx.calls_in(n.ast, ('memcpy', '_my_PyUnicode_AsChar16', '_my_PyUnicode_AsChar32')):
            a = [cx.render(x) for x in cx.call_args(c)]
            if cx.callee_name(c) == 'memcpy' and a[1] != 'srcdata':
                continue
            sites.append((n, c, a))
    run.need(len(sites) == 3, '%s: expected the bytes copy and the two wide conversions, found %d' % (fn, len(sites)))
    for n, c, a in sites:
        name = cx.callee_name(c)
        lenarg = a[2]
        # on every path to the copy the length was bumped unless it equals the array length
        bump = [m.id for m in g.nodes if m.ast is not None and m.kind == 'stmt' and stmt_text(m.ast) in ('%s++' % lenarg, '%s += 1' % lenarg, '++%s' % lenarg)
                and n.id in g.reach([m.id])]
        eq = g.edges_of(lambda cn, l: cn.kind == 'cond' and n.id in g.reach([cn.id]) and (
            (cx.render(cn.ast) == '%s != ct->ct_length' % lenarg and l == 'F') or (cx.render(cn.ast) == '%s == ct->ct_length' % lenarg and l == 'T')))
        ok = bool(bump) and bool(eq) and n.id not in g.reach([g.entry.id], avoid=bump, avoid_edges=eq)
        run.ob('S1/room-for-terminator-counted-unless-array-is-full', fn, '%s(..., %s) after `if (%s != ct->ct_length) %s++`' % (name, lenarg, lenarg, lenarg), ok, tu.where(c))
        # too long -> IndexError before the copy
        tl = g.edges_of(lambda cn, l: cn.kind == 'cond' and l == 'F' and cx.render(cn.ast) == '%s > ct->ct_length' % lenarg and n.id in g.reach([cn.id]))
        okl = bool(tl) and n.id not in g.reach([g.entry.id], avoid_edges=tl + g.edges_of(
            lambda cn, l: cn.kind == 'cond' and l == 'F' and cx.render(cn.ast) == 'ct->ct_length >= 0' and n.id in g.reach([cn.id])))
        run.ob('S1/too-long-initialiser-rejected-before-copy', fn, 'if (ct->ct_length >= 0 && %s > ct->ct_length) -> IndexError' % lenarg, okl, tu.where(c))
        if name == 'memcpy':
            src = rules.single_def(f, 'srcdata')
            run.ob('S1/bytes-copy-includes-the-NUL-of-the-bytes-object', fn, 'memcpy(data, PyBytes_AS_STRING(init), n)',
                   a[0] == 'data' and src is not None and 'ob_sval' in cx.render(src) or (src is not None and 'PyBytes_AS_STRING' in (tu.text(src) or '')),
                   tu.where(c), 'source: %s' % (tu.text(src) if src is not None else None))
    # the wide helpers must honour the length they are given
    h16 = tu.func('_my_PyUnicode_AsChar16')
    g16 = cfg_of(tu, '_my_PyUnicode_AsChar16')
    uses = [x for x in cx.walk(cx.kids(h16)[-1]) if x.get('kind') == 'DeclRefExpr' and x['ref']['name'] == 'resultlen']
    zero_stores = []
    for n in g16.nodes:
        if n.ast is None:
            continue
        for l, r, op, x in cx.assignments(n.ast):
            if op == '=' and cx.is_null(r) and cx.root_var(l) == 'result' and l.get('kind') != 'VarDecl':
                zero_stores.append((n, x))
    ok = bool(uses) and bool(zero_stores)
    detail = 'resultlen is read %d time(s); zero stores through result: %d' % (len(uses), len(zero_stores))
    if ok:
        # the store is after the copy loop and guarded by the given length
        loop = [n for n in g16.nodes if n.kind == 'cond' and cx.render(n.ast) == 'i < len']
        for n, x in zero_stores:
            facts = g16.fact_texts(n.id)
            guarded = any('resultlen' in t or 'end' in t for t in facts)
            after = bool(loop) and 'F:i < len' in facts
            ok = ok and guarded and after
            detail += '; store under %s' % sorted(t for t in facts if 'resultlen' in t or 'end' in t or 'i < len' in t)
            # the guard must bound the *write cursor*: either it compares the cursor with base+capacity,
            # or it compares the capacity with a count that really is the number of units written
            if ok:
                okc, why = _guard_bounds_cursor(g16, h16, facts, loop)
                ok = ok and okc
                detail += '; ' + why
    run.ob('S1/wide-helper-writes-terminator-when-room', '_my_PyUnicode_AsChar16', 'zero unit stored after the copied units when resultlen exceeds them', ok,
           tu.where(h16), detail)
    h32 = tu.func('_my_PyUnicode_AsChar32')
    calls = cx.calls_in(h32, 'PyUnicode_AsUCS4')
    ok32 = False
    detail = 'no PyUnicode_AsUCS4 call'
    if len(calls) == 1:
        a = cx.call_args(calls[0])
        copy_null = a[3]
        cn_refs = cx.refs(copy_null)
        const0 = cx.int_value(copy_null) == 0
        # accepted: the flag is computed from resultlen (directly or through a single-def local)
        dep = 'resultlen' in cn_refs
        if not dep:
            for v in cn_refs:
                d = rules.single_def(h32, v)
                if d is not None and 'resultlen' in cx.refs(d):
                    dep = True
        ok32 = (not const0) and dep and cx.render(a[2]) == 'resultlen'
        detail = 'PyUnicode_AsUCS4(unicode, result, %s, %s)' % (cx.render(a[2]), cx.render(copy_null))
        # or an explicit store after the call
        for n in cfg_of(tu, '_my_PyUnicode_AsChar32').nodes:
            if n.ast is not None:
                for l, r, op, x in cx.assignments(n.ast):
                    if op == '=' and cx.is_null(r) and cx.root_var(l) == 'result' and l.get('kind') != 'VarDecl' and \
                            any('resultlen' in t for t in cfg_of(tu, '_my_PyUnicode_AsChar32').fact_texts(n.id)):
                        ok32 = True
    run.ob('S1/wide-helper-writes-terminator-when-room', '_my_PyUnicode_AsChar32', 'copy_null requested when resultlen exceeds the string', ok32, tu.where(h32), detail)
    # size helpers agree with the converters about surrogate pairs
    g = cfg_of(tu, '_my_PyUnicode_SizeAsChar16')
    inc = [n for n in g.nodes if n.ast is not None and n.kind == 'stmt' and stmt_text(n.ast) in ('result++', 'result += 1')]
    ok = len(inc) == 1 and any(t.startswith('T:') and '> 65535' in t for t in g.fact_texts(inc[0].id))
    run.ob('S1/size-counts-two-units-for-astral-characters', '_my_PyUnicode_SizeAsChar16', 'if (data[i] > 0xFFFF) result++', ok, tu.where(tu.func('_my_PyUnicode_SizeAsChar16')))
    two = [n for n in g16.nodes if n.ast is not None and n.kind == 'stmt' and stmt_text(n.ast).startswith('*result++ =')]
    astral = g16.edges_of(lambda cn, l: cn.kind == 'cond' and cx.render(cn.ast) == 'ordinal > 65535' and l == 'T')
    pair = [n for n in two if astral and g16.must_pass_edges(n.id, astral)]
    single = [n for n in two if n not in pair]
    ok = len(pair) == 2 and len(single) == 1
    run.ob('S1/converter-writes-two-units-for-astral-characters', '_my_PyUnicode_AsChar16', '0xD800 | hi ; 0xDC00 | lo', ok, tu.where(h16),
           'stores under ordinal > 0xFFFF: %d, otherwise: %d' % (len(pair), len(single)))


def _accepted_units(g, conds, var_keys, bits, exhaustive=False):
    """set of 16-bit unit values for which every (cond node, label) holds; exact: exhaustive, or the
    reduced set {block|00, 01, FE, FF} when every constant has a low byte of 00 or FF"""
    from ..cast import absint
    from ..cast.absint import Con
    from .. import AnalysisError
    consts = [int(x['value']) for cn, _l in conds for x in cx.walk(cn.ast) if x.get('kind') == 'IntegerLiteral']
    reduced = all((c & 0xFF) in (0x00, 0xFF) for c in consts) and not exhaustive
    dom = [b << 8 | lo for b in range(256) for lo in (0x00, 0x01, 0xFE, 0xFF)] if reduced else range(65536)
    it = absint.Interp(g, {})
    acc = set()
    for v in dom:
        env = {k: Con(v, bits, False) for k in var_keys}
        ok = True
        for cn, lab in conds:
            r = it.ev(cn.ast, dict(env))
            if not isinstance(r, Con):
                raise AnalysisError('%s: cannot evaluate `%s` for a unit value' % (g.name, cx.render(cn.ast)))
            if bool(r.v) != (lab == 'T'):
                ok = False
                break
        if ok:
            acc.add(v)
    return acc, dom


def s4(run, tu, exhaustive=False):
    """the two loops of _my_PyUnicode_FromChar16 join exactly (high, low) surrogate pairs"""
    F = '_my_PyUnicode_FromChar16'
    g = cfg_of(tu, F)
    targets = []
    for n in g.nodes:
        if n.ast is None or n.kind != 'stmt':
            continue
        t = stmt_text(n.ast).replace(' ', '')
        if t in ('count_surrogates++', '++count_surrogates', 'count_surrogates+=1'):
            targets.append(('counting loop', n, ('w[i]',), ('w[i + 1]',), 16))
        elif t.startswith('ch=') and '65536' in t:
            targets.append(('joining loop', n, ('ch',), ('ch2',), 32))
    run.need(len(targets) == 2, '%s: expected the counting increment and the joining assignment, found %d' % (F, len(targets)))
    HI = set(range(0xD800, 0xDC00))
    LO = set(range(0xDC00, 0xE000))
    for label, n, k1, k2, bits in targets:
        facts = g.dominating_facts(n.id)
        for which, keys, want in (('first unit is a high surrogate', k1, HI), ('second unit is a low surrogate', k2, LO)):
            conds = [(cn, l) for cn, l in facts if cn.kind == 'cond' and any(k in cx.subexprs_text(cn.ast) for k in keys) and
                     not (cx.refs(cn.ast) & {'size'})]
            if not conds:
                run.ob('S4/surrogate-pairs-joined-exactly', F, '%s: %s' % (label, which), False, tu.where(n.ast), 'no test of %s dominates the join' % (keys,))
                continue
            acc, dom = _accepted_units(g, conds, keys, bits, exhaustive)
            wantd = {v for v in dom if v in want}
            extra = sorted(acc - wantd)
            missing = sorted(wantd - acc)
            run.ob('S4/surrogate-pairs-joined-exactly', F, '%s: %s  [%s]' % (label, which, ' && '.join(('' if l == 'T' else '!') + '(%s)' % cx.render(cn.ast) for cn, l in conds)),
                   not extra and not missing, tu.where(conds[0][0].ast),
                   ('also accepts 0x%04X..' % extra[0] if extra else '') + (' rejects 0x%04X..' % missing[0] if missing else '') or 'accepts exactly the range')


def s2(run, tu):
    fn = 'b_string'
    g = cfg_of(tu, fn)
    derefs = [n for n in g.nodes if n.kind == 'cond' and cx.render(n.ast) == 'start[length]']
    run.need(len(derefs) == 4, '%s: expected four counting loops, found %d' % (fn, len(derefs)))
    bounded = 0
    nomax = g.edges_of(lambda cn, l: cn.kind == 'cond' and cx.render(cn.ast) == 'length < 0' and l == 'T')
    for n in derefs:
        preds = {p for p, _l in n.pred}
        bound_preds = {p for p in preds if g.nodes[p].kind == 'cond' and cx.render(g.nodes[p].ast) == 'length < maxlen'}
        same_loop = [m for m in g.nodes if m.kind == 'cond' and cx.render(m.ast) == 'length < maxlen'
                     and m.id in g.reach([n.id]) and n.id in g.reach([m.id])]
        if not bound_preds and not same_loop:
            # the unbounded form is only taken when no maximum was given (length < 0)
            ok = bool(nomax) and g.must_pass_edges(n.id, nomax)
            run.ob('S2/unbounded-scan-only-without-maxlen', fn, 'while (start[length]) length++', ok, tu.where(n.ast))
            continue
        bounded += 1
        pas = g.edges_of(lambda cn, l: cn.kind == 'cond' and cx.render(cn.ast) == 'length < maxlen' and l == 'T')
        ok = bool(pas) and preds <= {s_ for s_, _t, _l in pas} and all((p, n.id, 'T') in pas for p in preds)
        run.ob('S2/bound-tested-before-reading-the-unit', fn, 'while (length < maxlen && start[length])', ok, tu.where(n.ast),
               None if ok else 'start[length] can be read with length == maxlen (one unit past the given bound)')
    run.need(bounded == 2, '%s: bounded loops found: %d' % (fn, bounded))
    # maxlen is the user's bound
    f = tu.func(fn)
    ml = [cx.render(r) for l, r, op, _x in cx.assignments(f) if cx.lhs_text(l) == 'maxlen']
    run.ob('S2/bound-is-the-given-maxlen', fn, 'maxlen = length', bool(ml) and set(ml) <= {'length', '-1'} and 'length' in ml, tu.where(f), str(ml))
    mc = cx.calls_in(f, 'memchr')
    ok = len(mc) == 1 and [cx.render(a) for a in cx.call_args(mc[0])] == ['start', '0', 'length']
    run.ob('S2/char-scan-bounded-by-memchr', fn, 'memchr(start, 0, length)', ok, tu.where(mc[0]) if mc else tu.where(f))
    # for arrays the bound defaults to the array length
    ok = any(cx.lhs_text(l) == 'length' and 'get_array_length' in cx.render(r) for l, r, op, _x in cx.assignments(f))
    run.ob('S2/array-length-is-the-default-bound', fn, 'length = get_array_length(cd)', ok, tu.where(f))


def s3(run, tu):
    fn = 'get_new_array_length'
    g = cfg_of(tu, fn)
    rets = {stmt_text(n.ast): n for n in g.nodes if n.kind == 'return'}
    by = [t for t in rets if 'ob_size' in t or 'PyBytes_GET_SIZE' in t]
    okb = any(t.endswith('+ 1') for t in by)
    run.ob('S3/bytes-initialiser-reserves-the-terminator', fn, 'return PyBytes_GET_SIZE(value) + 1', okb, tu.where(tu.func(fn)), str(by))
    run.ob('S3/str-initialiser-reserves-the-terminator', fn, 'return length + 1', 'return length + 1' in rets, tu.where(tu.func(fn)))
    f = tu.func(fn)
    ok = any(cx.calls_in(r, '_my_PyUnicode_SizeAsChar16') for l, r, op, _x in cx.assignments(f)) and \
        any(cx.calls_in(r, '_my_PyUnicode_SizeAsChar32') for l, r, op, _x in cx.assignments(f))
    run.ob('S3/str-length-counted-in-target-units', fn, 'length = _my_PyUnicode_SizeAsChar16/32(value)', ok, tu.where(f))


def check(run):
    run.explanation = (
        'Terminator obligation as a producer/consumer rule: convert_array_from_object bumps the unit count on every path '
        'where the string is shorter than the array (dominance + must-pass-edge), the bytes branch copies that many bytes '
        'from a NUL-terminated bytes object, and each wide helper must consume the length it is given to emit the zero '
        'unit (a dead `resultlen` parameter or a constant copy_null=0 refutes it). Bounded scans of ffi.string(): the '
        'bound test is the only predecessor of the element read. One extra unit reserved by get_new_array_length.')
    tu = backend_tu()
    s1(run, tu)
    s2(run, tu)
    s3(run, tu)
    s4(run, tu, exhaustive=(run.tier == 'thorough'))
    run.min_instances('S4', 4)
    run.min_instances('S1', 9)
    run.min_instances('S2/bound-tested-before-reading-the-unit', 2)
    run.min_instances('S3', 3)
    run.assume('CPython bytes objects are NUL-terminated; which units are joined into one code point is decided (S4, exact over all 16-bit values), the joining arithmetic itself is not')
