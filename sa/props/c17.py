"""C17 — cdata equality, ordering and hashing are mutually consistent (DESIGN §3 C17).

Classification agreement between cdata_richcompare and cdata_hash (same predicate
on ct_flags), address class compares and hashes the same field c_data with the
operator matching each Py_XX constant, primitive class converts with
convert_to_object of the same (data, type) and delegates to CPython, mixed pairs
return NotImplemented.
"""
from ..cast import cx, absint, rules
from ..cast.absint import Con
from ..cast.cfg import cfg_of, stmt_text
from ..cast.loader import backend_tu

PY_OPS = {0: '<', 1: '<=', 2: '==', 3: '!=', 4: '>', 5: '>='}   # Py_LT..Py_GE (object.h)


def mask_of(g, e):
    """the constant mask M in `<x>->c_type->ct_flags & M` found in e"""
    it = absint.Interp(g, {})
    for x in cx.walk(e):
        if x.get('kind') == 'BinaryOperator' and x.get('opcode') == '&':
            a, b = cx.kids(x)
            if cx.render(a).endswith('->c_type->ct_flags'):
                v = it.ev(b, {})
                if isinstance(v, Con):
                    return v.v, cx.render(a)
    return None, None


def check(run):
    run.explanation = (
        'Sibling agreement on the AST/CFG of cdata_richcompare and cdata_hash: both split on the same folded mask of '
        'ct_flags; in the address class the switch maps each Py_LT..Py_GE constant to the matching C operator on '
        'v->c_data, w->c_data (in that order) and the hash is the pointer hash of the same field; in the primitive '
        'class both obtain the Python value through convert_to_object(x->c_data, x->c_type) and delegate to '
        'PyObject_RichCompare with the unchanged op / PyObject_Hash; mixed pairs give NotImplemented.')
    tu = backend_tu()
    F = rules.macro_flags(tu, 'CT_')
    ANY = F['CT_PRIMITIVE_SIGNED'] | F['CT_PRIMITIVE_UNSIGNED'] | F['CT_PRIMITIVE_CHAR'] | F['CT_PRIMITIVE_FLOAT'] | \
        F['CT_PRIMITIVE_COMPLEX']
    rc = tu.func('cdata_richcompare')
    g = cfg_of(tu, 'cdata_richcompare')
    h = tu.func('cdata_hash')
    gh = cfg_of(tu, 'cdata_hash')
    # --- classification predicates ----------------------------------------
    defs = {cx.lhs_text(l): r for l, r, op, _x in cx.assignments(rc) if op in ('=', 'init')}
    mv, tv = mask_of(g, defs.get('v_is_ptr')) if defs.get('v_is_ptr') else (None, None)
    mw, tw = mask_of(g, defs.get('w_is_ptr')) if defs.get('w_is_ptr') else (None, None)
    run.ob('Q1/compare-classifies-v-by-primitive-mask', 'cdata_richcompare', 'v_is_ptr = !(v->c_type->ct_flags & CT_PRIMITIVE_ANY)',
           mv == ANY and tv == 'v->c_type->ct_flags' and cx.render(defs['v_is_ptr']).startswith('!'),
           tu.where(rc), 'mask %s on %s' % (mv, tv))
    wtxt = cx.render(defs['w_is_ptr']) if defs.get('w_is_ptr') else ''
    run.ob('Q1/compare-classifies-w-by-primitive-mask', 'cdata_richcompare', 'w_is_ptr = CData_Check(w) && !(w->c_type->ct_flags & CT_PRIMITIVE_ANY)',
           mw == ANY and tw == 'w->c_type->ct_flags' and '&& !' in wtxt and 'CData' in wtxt, tu.where(rc), wtxt[:160])
    hconds = [n for n in gh.nodes if n.kind == 'cond' and 'ct_flags' in cx.render(n.ast)]
    mh, th = mask_of(gh, hconds[0].ast) if hconds else (None, None)
    run.ob('Q1/hash-classifies-by-the-same-mask', 'cdata_hash', 'if (v->c_type->ct_flags & CT_PRIMITIVE_ANY)',
           mh == ANY == mv and th == 'v->c_type->ct_flags', tu.where(h), 'hash mask %s, compare mask %s' % (mh, mv))
    # --- address class ------------------------------------------------------
    sw = [n for n in g.nodes if n.kind == 'switch' and cx.render(n.ast) == 'op']
    run.need(len(sw) == 1, 'switch (op) not found in cdata_richcompare')
    facts = g.fact_texts(sw[0].id)
    run.ob('Q2/address-compare-needs-both-pointer-like', 'cdata_richcompare', 'if (v_is_ptr && w_is_ptr) switch (op)',
           'T:v_is_ptr' in facts and 'T:w_is_ptr' in facts, tu.where(sw[0].ast), str(sorted(facts)))
    vd = cx.render(defs['v_cdata']) if 'v_cdata' in defs else None
    wd = cx.render(defs['w_cdata']) if 'w_cdata' in defs else None
    run.ob('Q2/address-operands-are-c_data', 'cdata_richcompare', 'v_cdata = v->c_data; w_cdata = w->c_data',
           vd == 'v->c_data' and wd == 'w->c_data', tu.where(rc), 'v_cdata=%s w_cdata=%s' % (vd, wd))
    it = absint.Interp(g, {})
    seen = {}
    for t, lab in sw[0].succ:
        if lab[0] != 'case':
            continue
        cn = g.nodes[t]
        k = it.ev(cn.ast, {})
        run.need(isinstance(k, Con), 'case label %s is not a constant' % lab[1])
        cur = g.nodes[cn.succ[0][0]]
        txt = stmt_text(cur.ast) if cur.ast is not None else ''
        want = 'res = v_cdata %s w_cdata' % PY_OPS.get(k.v, '?')
        seen[k.v] = txt
        run.ob('Q2/operator-matches-Py-constant', 'cdata_richcompare', 'case %d (%s)' % (k.v, PY_OPS.get(k.v)),
               txt == want, tu.where(cur.ast) if cur.ast else None, 'found `%s`, want `%s`' % (txt, want))
    # addresses are ordered as addresses: the operands of < <= > >= are pointers or unsigned integers, never a signed integer type
    # (with a signed type every address with the top bit set -- (void *)-1 sentinels, kernel-half addresses -- sorts before all others,
    # which disagrees with int(ffi.cast("uintptr_t", p)) and with the order of the same pointers under ==/hash as integers)
    for x in cx.walk(rc):
        if x.get('kind') == 'BinaryOperator' and x.get('opcode') in ('<', '<=', '>', '>=') and 'cdata' in cx.render(x):
            tys = []
            for o in cx.kids(x):
                o = cx.strip(o)
                ty = (o.get('dtype') or o.get('type') or '').strip()
                td = tu.typedefs.get(ty)
                seen_t = set()
                while td is not None and ty not in seen_t:
                    seen_t.add(ty)
                    ty = (td.get('dtype') or td.get('type') or ty).strip()
                    td = tu.typedefs.get(ty)
                tys.append(ty)
            okt = all(t.endswith('*') or t.startswith('unsigned') or t in ('size_t', 'uintptr_t', 'Py_uintptr_t') for t in tys)
            run.ob('Q2/addresses-ordered-as-unsigned', 'cdata_richcompare', cx.render(x), okt, tu.where(x), 'operand types %s' % tys)
    run.ob('Q2/all-six-operators-handled', 'cdata_richcompare', 'switch (op)', set(seen) == set(PY_OPS), tu.where(sw[0].ast),
           'cases: %s' % sorted(seen))
    sel = [stmt_text(n.ast).replace('(', '').replace(')', '') for n in g.nodes if n.ast is not None and n.kind == 'stmt'
           and stmt_text(n.ast).replace('(', '').startswith('pyres = res ?')]
    run.ob('Q2/result-maps-truth-to-True', 'cdata_richcompare', 'pyres = res ? Py_True : Py_False',
           sel == ['pyres = res ? &_Py_TrueStruct : &_Py_FalseStruct'], tu.where(rc), str(sel))
    # hash of address class: pointer hash of the same field
    ptr_rets = [n for n in gh.nodes if n.kind == 'return' and (cx.calls_in(n.ast, '_Py_HashPointer') or cx.calls_in(n.ast, 'Py_HashPointer'))]
    ok = len(ptr_rets) == 1
    if ok:
        c = (cx.calls_in(ptr_rets[0].ast, '_Py_HashPointer') + cx.calls_in(ptr_rets[0].ast, 'Py_HashPointer'))[0]
        ok = cx.render(cx.call_args(c)[0]) == 'v->c_data'
    run.ob('Q3/address-hash-is-pointer-hash-of-c_data', 'cdata_hash', 'return _Py_HashPointer(v->c_data)', ok, tu.where(h))
    # --- mixed --------------------------------------------------------------
    ni = [n for n in g.nodes if n.ast is not None and n.kind == 'stmt' and stmt_text(n.ast) == 'pyres = &_Py_NotImplementedStruct']
    ok = len(ni) == 1
    if ok:
        # reached exactly when one (not both) is pointer-like: edges into it come from `v_is_ptr`/`w_is_ptr` T after the && failed
        f = g.fact_texts(ni[0].id)
        back = g.coreach([ni[0].id])
        ok = sw[0].id not in g.reach([ni[0].id]) and not ({'T:v_is_ptr', 'T:w_is_ptr'} <= f)
        edges = g.edges_of(lambda cn, lab: cn.kind == 'cond' and cx.render(cn.ast) in ('v_is_ptr', 'w_is_ptr') and lab == 'T')
        ok = ok and g.must_pass_edges(ni[0].id, edges)
    run.ob('Q5/mixed-pair-returns-NotImplemented', 'cdata_richcompare', 'else if (v_is_ptr || w_is_ptr) pyres = Py_NotImplemented',
           ok, tu.where(ni[0].ast) if ni else tu.where(rc))
    # --- primitive class ----------------------------------------------------
    conv = [c for c in cx.calls_in(rc, 'convert_to_object')]
    okc = len(conv) == 1 and [cx.render(a) for a in cx.call_args(conv[0])] == ['v->c_data', 'v->c_type']
    run.ob('Q4/compare-converts-with-convert_to_object', 'cdata_richcompare', 'w = convert_to_object(v->c_data, v->c_type)',
           okc, tu.where(conv[0]) if conv else tu.where(rc))
    if conv:
        n = g.node_of(conv[0])
        f = g.fact_texts(n.id)
        run.ob('Q4/conversion-only-in-primitive-class', 'cdata_richcompare', 'convert_to_object(...) when neither is pointer-like',
               'F:v_is_ptr' in f and 'F:w_is_ptr' in f, tu.where(conv[0]), str(sorted(f)))
    rcall = cx.calls_in(rc, 'PyObject_RichCompare')
    okr = len(rcall) == 1 and [cx.render(a) for a in cx.call_args(rcall[0])] == ['aa[0]', 'aa[1]', 'op']
    # op is never reassigned
    okr = okr and not any(cx.lhs_text(l) == 'op' for l, r, o, _x in cx.assignments(rc))
    run.ob('Q4/compare-delegates-with-unchanged-op', 'cdata_richcompare', 'PyObject_RichCompare(aa[0], aa[1], op)', okr,
           tu.where(rcall[0]) if rcall else tu.where(rc))
    stores = sorted(stmt_text(g.node_of(x).ast) for l, r, o, x in cx.assignments(rc) if cx.lhs_text(l).startswith('aa['))
    run.ob('Q4/operands-keep-their-order', 'cdata_richcompare', 'aa[0] = v; aa[1] = w; aa[i] = converted',
           stores == ['aa[0] = v', 'aa[1] = w', 'aa[i] = w'], tu.where(rc), str(stores))
    hconv = cx.calls_in(h, 'convert_to_object')
    okh = len(hconv) == 1 and [cx.render(a) for a in cx.call_args(hconv[0])] == ['v->c_data', 'v->c_type']
    run.ob('Q4/hash-converts-with-convert_to_object', 'cdata_hash', 'vv = convert_to_object(v->c_data, v->c_type)', okh,
           tu.where(hconv[0]) if hconv else tu.where(h))
    hh = cx.calls_in(h, 'PyObject_Hash')
    okh2 = len(hh) == 1 and cx.render(cx.call_args(hh[0])[0]) == 'vv'
    if okh2:
        n = gh.node_of(hh[0])
        var = None
        for l, r, o, x in cx.assignments(n.ast):
            var = cx.lhs_text(l)
        rets = [m for m in gh.nodes if m.kind == 'return' and cx.render(cx.kids(m.ast)[0]) == var]
        okh2 = len(rets) == 1 and gh.must_precede(rets[0].id, [n.id]) and \
            ('F:Py_TYPE(vv) == &CData_Type' in gh.fact_texts(n.id) or any('CData' in f and f.startswith('F:') for f in gh.fact_texts(n.id)))
    run.ob('Q4/hash-delegates-to-value-hash', 'cdata_hash', 'hash = PyObject_Hash(vv); return hash', okh2, tu.where(h))
    # --- every way out of cdata_hash is one of the above, or a self-computed hash that provably equals CPython's
    M = (1 << 61) - 1           # _PyHASH_MODULUS on 64-bit builds: hash(n) == n only for |n| < M, and hash(-1) == -2
    known = set()
    for r in gh.nodes:
        if r.kind != 'return':
            continue
        txt = rules.return_value(r)
        if txt in ('-1',) or cx.calls_in(r.ast, '_Py_HashPointer') or cx.calls_in(r.ast, 'Py_HashPointer') or cx.calls_in(r.ast, 'PyObject_Hash'):
            continue
        e = cx.strip(cx.kids(r.ast)[0], casts=True)
        if e.get('kind') == 'DeclRefExpr' and any(cx.calls_in(n.ast, 'PyObject_Hash') and any(cx.lhs_text(l) == cx.render(e) for l, _r, _o, _x in cx.assignments(n.ast))
                                                  for n in gh.nodes if n.ast is not None):
            continue
        # a hash computed here: accept only `value` (with -1 -> -2) under facts that keep |value| below the modulus
        minus1 = False
        var = None
        if e.get('kind') == 'ConditionalOperator':
            c, a, b = cx.kids(e)
            if cx.render(c).replace(' ', '').endswith('==-1') and cx.int_value(cx.strip(a, casts=True)) == -2:
                minus1 = True
                var = cx.render(cx.strip(b, casts=True))
        elif e.get('kind') == 'DeclRefExpr':
            var = cx.render(e)
        if var is None:
            from .. import AnalysisError
            raise AnalysisError('cdata_hash: `return %s` is not a form this rule decides' % txt)
        ith = absint.Interp(gh, {}).run()
        lo, hi = None, None
        for cn, lab in gh.dominating_facts(r.id):
            if cn.kind != 'cond' or cn.ast.get('kind') != 'BinaryOperator':
                continue
            a, b = cx.kids(cn.ast)
            op = cn.ast.get('opcode')
            st = ith.in_state.get(cn.id) or {}
            for left, right, o in ((a, b, op), (b, a, {'<': '>', '>': '<', '<=': '>=', '>=': '<='}.get(op))):
                if cx.render(cx.strip(left, casts=True)) == var and o in ('<', '<=', '>', '>='):
                    k = absint.Interp(gh, {}).ev(right, dict(st))
                    if isinstance(k, Con):
                        if lab == 'F':
                            o = {'<': '>=', '<=': '>', '>': '<=', '>=': '<'}[o]
                        if o == '<':
                            hi = k.v - 1 if hi is None else min(hi, k.v - 1)
                        elif o == '<=':
                            hi = k.v if hi is None else min(hi, k.v)
                        elif o == '>':
                            lo = k.v + 1 if lo is None else max(lo, k.v + 1)
                        elif o == '>=':
                            lo = k.v if lo is None else max(lo, k.v)
        ok = lo is not None and hi is not None and -M < lo and hi < M and (minus1 or lo > -1 or hi < -1)
        run.ob('Q6/self-computed-hash-equals-the-int-hash', 'cdata_hash', 'return %s' % txt, ok, tu.where(r.ast),
               'returned for %s <= %s <= %s%s; CPython hashes an int to itself only for |n| < 2**61-1 (and -1 to -2), so %s' % (
                   lo, var, hi, '' if minus1 else ' without mapping -1 to -2',
                   'equal values would hash differently at the ends of that range' if not ok else 'it equals the hash of the equal int'))
    run.min_instances('Q2/operator-matches-Py-constant', 6)
    run.min_instances('Q1', 3)
    run.min_instances('Q4', 6)
    run.exhaustive = True
    run.assume('CPython\'s own number/bytes comparison and hashing are consistent (a == b implies equal hashes)')
    run.assume('Py_LT..Py_GE have the values 0..5 of CPython\'s object.h')
