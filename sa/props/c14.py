"""C14 — callbacks and extern "Python" pass values exactly and contain errors (DESIGN §3 C14):
error containment, error-value delivery and slot layout agreement.

K1 general_invoke_callback: every failure path first delivers the prepared error bytes
   (when the result has a size), takes the pending exception and hands it to the
   unraisable hook or to onerror; whatever onerror raises is taken and written too; no
   path returns with the error indicator possibly set.
K2 _my_PyErr_WriteUnraisable ends in PyErr_Clear on all paths.
K3 prepare_callback_info_tuple: error buffer = max(result size, sizeof(ffi_arg)) bytes,
   zero-filled before the optional conversion of error=; tuple layout matches the reader.
K4 extern "Python" stubs (generated): argument i at byte offset 8*i, by address exactly for
   struct/union/long double; buffer >= max(8*n, 8, sizeof result); the reader uses stride
   8 and dereferences exactly those kinds.
K5 cffi_call_python zeroes size_of_result bytes on every failure; generated size_of_result
   is sizeof(result type) or 0 for void.
K6 GIL ensure/release paired around the call on all paths.
"""
import ast
import re

from ..cast import cx, rules, absint
from ..cast.cfg import cfg_of, stmt_text
from ..cast.loader import backend_tu
from .. import gen
from ..pyast.index import cffi_mod

MAY_SET = {'PyObject_CallFunctionObjArgs', 'convert_from_object_fficallback', 'PyObject_Call', 'PyObject_CallObject', 'PyErr_NormalizeException',
           'PyErr_Restore', 'PyErr_SetString', 'PyErr_Format', 'PyErr_SetObject', 'PyErr_SetNone', 'PyErr_NoMemory'}


def k1(run, tu):
    fn = 'general_invoke_callback'
    g = cfg_of(tu, fn)
    f = tu.func(fn)
    err = [n for n in g.nodes if n.kind == 'label' and n.info == 'error']
    run.need(len(err) == 1, '%s: label error not found' % fn)
    e = err[0]
    region = g.reach([e.id])
    gotos = [n for n in g.nodes if n.kind == 'goto' and e.id in [t for t, _l in n.succ]]
    run.saw('failure exits (goto error)', ['%s' % tu.where(n.ast) for n in gotos])
    run.need(len(gotos) >= 2, '%s: expected several `goto error`' % fn)
    # (i) error bytes first
    size_conds = [n for n in g.nodes if n.id in region and n.kind == 'cond' and cx.render(n.ast).endswith('->ct_size > 0')]
    # the first of them (a later one guards the second copy, after a failed conversion of what onerror returned)
    size_conds = [n for n in size_conds if all(o.id in g.reach([n.id]) for o in size_conds)]
    ok = len(size_conds) == 1
    mc = None
    if ok:
        sc = size_conds[0]
        ok = g.must_follow(e.id, [sc.id]) and e.id in [p for p, _l in sc.pred] or g.must_follow(e.id, [sc.id])
        tnodes = [t for t, l in sc.succ if l == 'T']
        users0 = {n.id for n in g.nodes if n.ast is not None and cx.calls_in(n.ast, 'PyObject_CallFunctionObjArgs')}
        mcs = [n for n in g.nodes if n.id in g.reach(tnodes, avoid=users0) and n.ast is not None and cx.calls_in(n.ast, 'memcpy')]
        ok = ok and len(mcs) == 1
        if ok:
            mc = mcs[0]
            c = cx.calls_in(mc.ast, 'memcpy')[0]
            a = [cx.render(x) for x in cx.call_args(c)]
            raw = rules.single_def(f, 'py_rawerr') or None
            rawsrc = [cx.render(r) for l, r, op, _x in cx.assignments(f) if cx.lhs_text(l) == 'py_rawerr']
            ok = a[0] == 'result' and 'py_rawerr' in a[1] and 'py_rawerr' in a[2] and any('ob_item[2]' in s for s in rawsrc)
            # before any user code (onerror) runs
            users = [n.id for n in g.nodes if n.id in region and n.ast is not None and cx.calls_in(n.ast, 'PyObject_CallFunctionObjArgs')]
            ok = ok and all(g.must_precede(u_, [sc.id]) for u_ in users)
    run.ob('K1/error-value-delivered-first', fn, 'if (result size > 0) memcpy(result, error bytes)', ok, tu.where(e.ast))
    # (ii) the pending exception is taken on every failure path
    fetch = [n.id for n in g.nodes if n.id in region and n.ast is not None and cx.calls_in(n.ast, 'PyErr_Fetch')]
    ok = bool(fetch) and g.must_follow(e.id, fetch)
    run.ob('K1/pending-exception-taken', fn, 'PyErr_Fetch on every path from `error:`', ok, tu.where(e.ast))
    # (iii) nothing that may set an error is followed by an exit without a clear point
    clear_nodes = [n.id for n in g.nodes if n.ast is not None and cx.calls_in(n.ast, ('_my_PyErr_WriteUnraisable', 'PyErr_Clear', 'PyErr_WriteUnraisable'))]
    clear_edges = g.edges_of(lambda cn, l: cn.kind == 'cond' and cx.render(cn.ast) == 'PyErr_Occurred()' and l == 'F')
    for n in g.nodes:
        if n.id not in region or n.ast is None:
            continue
        names = {cx.callee_name(c) for c in cx.calls_in(n.ast)}
        if not names & MAY_SET:
            continue
        r = g.reach([n.id], avoid=clear_nodes, avoid_edges=clear_edges, include_start=False)
        ok = g.exit.id not in r
        path = None
        if not ok:
            path = g.describe_path(g.witness_path(n.id, g.exit.id, avoid=clear_nodes, avoid_edges=clear_edges, include_start=False) or [])
        run.ob('K1/no-exception-left-after-handler', fn, stmt_text(n.ast)[:70], ok, tu.where(n.ast),
               None if ok else 'an exception raised here can still be pending when the callback returns to C', path=path)
    # the first fetch of each branch precedes the hook / onerror call
    for n in g.nodes:
        if n.id in region and n.ast is not None and cx.calls_in(n.ast, '_my_PyErr_WriteUnraisable'):
            okp = g.must_precede(n.id, fetch)
            run.ob('K1/exception-handed-to-the-unraisable-hook', fn, stmt_text(n.ast)[:60], okp, tu.where(n.ast))
    on = [n for n in g.nodes if n.id in region and n.ast is not None and cx.calls_in(n.ast, 'PyObject_CallFunctionObjArgs')]
    ok = len(on) == 1 and [cx.render(a) for a in cx.call_args(cx.calls_in(on[0].ast, 'PyObject_CallFunctionObjArgs')[0])][0] == 'onerror_cb' and \
        bool({'F:onerror_cb == &_Py_NoneStruct', 'T:onerror_cb != &_Py_NoneStruct'} & g.fact_texts(on[0].id))
    run.ob('K1/onerror-called-when-given', fn, 'onerror(exc, val, tb)', ok, tu.where(on[0].ast) if on else None)
    # value returned by onerror replaces the error value
    cv = [n for n in g.nodes if n.id in region and n.ast is not None and cx.calls_in(n.ast, 'convert_from_object_fficallback')]
    ok = len(cv) == 1 and 'T:res1 != &_Py_NoneStruct' in g.fact_texts(cv[0].id) and 'T:res1 != 0' in g.fact_texts(cv[0].id)
    if ok:
        a = [cx.render(x) for x in cx.call_args(cx.calls_in(cv[0].ast, 'convert_from_object_fficallback')[0])]
        ok = a[0] == 'result' and a[2] == 'res1'
    run.ob('K1/onerror-result-becomes-the-return-value', fn, 'convert_from_object_fficallback(result, restype, res1, ...)', ok, tu.where(cv[0].ast) if cv else None)
    # normal path: conversion failure is a failure exit
    conv = [n for n in g.nodes if n.id not in region and n.kind == 'cond' and cx.calls_in(n.ast, 'convert_from_object_fficallback')]
    ok = len(conv) == 1 and all(e.id in g.reach([t]) for t, l in conv[0].succ if l == 'T')
    run.ob('K1/bad-return-value-is-a-failure', fn, 'if (convert_from_object_fficallback(result, ...) < 0) goto error', ok, tu.where(conv[0].ast) if conv else None)
    call = [n for n in g.nodes if n.ast is not None and cx.calls_in(n.ast, 'PyObject_Call')]
    ok = len(call) == 1 and [cx.render(a) for a in cx.call_args(cx.calls_in(call[0].ast, 'PyObject_Call')[0])][:2] == ['py_ob', 'py_args']
    run.ob('K1/python-function-called-with-the-decoded-arguments', fn, 'py_res = PyObject_Call(py_ob, py_args, NULL)', ok, tu.where(call[0].ast) if call else None)
    # reader side of the slot layout (K4)
    src = [(cx.render(r), x) for l, r, op, x in cx.assignments(f) if cx.lhs_text(l) == 'a_src']
    texts = [t for t, _x in src]
    F = rules.macro_flags(tu, 'CT_')
    ok = 'args + i * 8' in texts and '*a_src' in texts and 'args[i]' in [t.replace('(void **)', '') for t in texts]
    deref = [x for t, x in src if t == '*a_src']
    if ok and deref:
        n = g.node_of(deref[0])
        ff = rules.flag_facts(g, g.dominating_facts(n.id), 'a_ct->ct_flags')
        ok = ff.get(F['CT_IS_LONGDOUBLE'] | F['CT_STRUCT'] | F['CT_UNION']) == 'T' and 'F:decode_args_from_libffi' in g.fact_texts(n.id)
    run.ob('K4/reader-stride-8-and-by-address-kinds', fn, 'a_src = args + i * 8; if (long double | struct | union) a_src = *(char **)a_src', ok, tu.where(f), str(texts))


def k2(run, tu):
    fn = '_my_PyErr_WriteUnraisable'
    g = cfg_of(tu, fn)
    clr = [n.id for n in g.nodes if n.ast is not None and n.kind == 'stmt' and stmt_text(n.ast) == 'PyErr_Clear()']
    ok = bool(clr) and g.exit.id not in g.reach([g.entry.id], avoid=clr)
    run.ob('K2/unraisable-writer-ends-with-a-clear-indicator', fn, 'PyErr_Clear() on every path', ok, tu.where(tu.func(fn)))
    for c in clr:
        after = [m for m in g.reach([c], include_start=False) if g.nodes[m].ast is not None and cx.calls_in(g.nodes[m].ast)]
        run.ob('K2/nothing-can-raise-after-the-clear', fn, 'statements after PyErr_Clear()', not after, tu.where(g.nodes[c].ast))


def k3(run, tu):
    fn = 'prepare_callback_info_tuple'
    g = cfg_of(tu, fn)
    f = tu.func(fn)
    it = absint.Interp(g, {})
    bad = []
    for rs in (-1, 0, 1, 4, 8, 16, 24):
        it2 = absint.Interp(g, {'ctresult->ct_size': absint.Con(rs, 64, True)}, const_vars={'ctresult->ct_size'}).run()
        alloc = [n for n in g.nodes if n.ast is not None and cx.calls_in(n.ast, 'PyBytes_FromStringAndSize')]
        st = it2.in_state.get(alloc[0].id) if alloc else None
        v = st.get('size') if st else None
        want = max(rs, 8)
        if not (isinstance(v, absint.Con) and v.v == want):
            bad.append((rs, repr(v)))
    run.ob('K3/error-buffer-is-max-of-result-and-ffi_arg', fn, 'size = max(ctresult->ct_size, sizeof(ffi_arg))', not bad, tu.where(f), str(bad))
    ms = [n for n in g.nodes if n.ast is not None and cx.calls_in(n.ast, 'memset')]
    cv = [n for n in g.nodes if n.ast is not None and cx.calls_in(n.ast, 'convert_from_object_fficallback')]
    ok = len(ms) == 1 and len(cv) == 1 and g.must_precede(cv[0].id, [ms[0].id])
    if ok:
        a = [cx.render(x) for x in cx.call_args(cx.calls_in(ms[0].ast, 'memset')[0])]
        ok = 'py_rawerr' in a[0] and a[1] == '0' and a[2] == 'size'
        b = [cx.render(x) for x in cx.call_args(cx.calls_in(cv[0].ast, 'convert_from_object_fficallback')[0])]
        ok = ok and 'py_rawerr' in b[0] and b[1] == 'ctresult' and b[2] == 'error_ob' and 'T:error_ob != &_Py_NoneStruct' in g.fact_texts(cv[0].id)
    run.ob('K3/error-buffer-zeroed-then-optionally-filled', fn, 'memset(buf, 0, size); if (error_ob != None) convert(buf, ctresult, error_ob)', ok, tu.where(f))
    bv = cx.calls_in(f, ('Py_BuildValue', '_Py_BuildValue_SizeT'))
    ok = len(bv) == 1 and [cx.render(x) for x in cx.call_args(bv[0])] == ['"OOOO"', 'ct', 'ob', 'py_rawerr', 'onerror_ob']
    run.ob('K3/info-tuple-layout', fn, 'Py_BuildValue("OOOO", ct, ob, py_rawerr, onerror_ob)', ok, tu.where(f))
    rf = tu.func('general_invoke_callback')
    reads = {}
    for l, r, op, _x in cx.assignments(rf):
        t = cx.render(r)
        m = re.search(r'cb_args\)->ob_item\[(\d)\]', t)
        if m:
            reads[cx.lhs_text(l)] = int(m.group(1))
    ok = reads.get('ct') == 0 and reads.get('py_ob') == 1 and reads.get('py_rawerr') == 2 and reads.get('onerror_cb') == 3
    run.ob('K3/reader-uses-the-same-tuple-positions', 'general_invoke_callback', 'cb_args[0..3] = ct, py_ob, py_rawerr, onerror', ok, tu.where(rf), str(reads))
    rt = [cx.render(r) for l, r, op, _x in cx.assignments(f) if cx.lhs_text(l) == 'ctresult']
    run.ob('K3/result-type-is-signature-slot-1', fn, 'ctresult = ct->ct_stuff[1]', len(rt) == 1 and 'ct->ct_stuff)->ob_item[1]' in rt[0], tu.where(f), str(rt))


BY_ADDRESS = ('struct ', 'union ', 'long double')


def k4_k5_generated(run, tu, thorough):
    probes = ['p_externpy', 'p_embed']
    nstubs = 0
    for probe in probes:
        gt = gen.gen_tu(probe)
        for vname, v in sorted(gt.vars.items()):
            if not vname.startswith('_cffi_externpy__'):
                continue
            name = vname[len('_cffi_externpy__'):]
            if not gt.has_func(name):
                continue
            nstubs += 1
            fn = gt.func(name)
            g = cfg_of(gt, name)
            ps = [p for p in cx.kids(fn) if p.get('kind') == 'ParmVarDecl']
            rettype = fn.get('type', '').split('(')[0].strip()
            where = '%s:%s' % (probe, name)
            # argument stores
            stores = {}
            for l, r, op, x in cx.assignments(fn):
                lt = cx.lhs_text(l)
                m = re.match(r'^\*\(?p \+ (\d+)\)?$', lt)
                if m and op == '=':
                    stores[int(m.group(1))] = (cx.render(r), cx.strip(l).get('type') if l.get('kind') != 'VarDecl' else None)
            ok = sorted(stores) == [8 * i for i in range(len(ps))]
            detail = []
            for i, p in enumerate(ps):
                got = stores.get(8 * i)
                ptype = p.get('type') or ''
                dt = p.get('dtype') or ptype
                byaddr = dt.startswith(BY_ADDRESS) or dt == 'long double' or ptype in ('ep_t',) or _is_record(gt, ptype)
                want = ('&%s' % p['name']) if byaddr else p['name']
                if got is None or got[0] != want:
                    ok = False
                detail.append('%s@%d:%s%s' % (p['name'], 8 * i, got[0] if got else None, ' (by address)' if byaddr else ''))
            run.ob('K4/argument-i-stored-at-offset-8i', where, ', '.join(detail) or 'no arguments', ok, gt.where(fn))
            # buffer size
            a = [d for d in cx.walk(fn) if d.get('kind') == 'VarDecl' and d.get('name') == 'a']
            m = re.match(r'char\[(\d+)\]', a[0].get('type') or '') if a else None
            size = int(m.group(1)) if m else None
            rs = absint.ctype(rettype)
            rbytes = rs[0] // 8 if rs else (8 if rettype.endswith('*') else {'long double': 16, 'double': 8, 'float': 4, 'void': 0}.get(rettype))
            srctext = gt.text(a[0]) if a else ''
            if rbytes is None:
                okb = size is not None and ('sizeof(%s)' % rettype) in (srctext or '') and '?' in (srctext or '') and size >= max(8 * len(ps), 8)
                detail = 'buffer %s from `%s`' % (size, srctext)
            else:
                okb = size is not None and size >= max(8 * len(ps), 8, rbytes)
                detail = 'buffer %s bytes, %d arguments, result %s bytes' % (size, len(ps), rbytes)
            run.ob('K4/buffer-holds-arguments-and-result', where, 'char a[%s]' % size, okb, gt.where(fn), detail)
            # call and result
            c = [x for x in cx.calls_in(fn) if cx.callee_text(x) in ('_cffi_call_python',) or '_cffi_call_python' in (gt.text(x) or '')]
            okc = len(c) == 1 and [cx.render(x) for x in cx.call_args(c[0])] == ['&%s' % vname, 'p']
            rets = [n for n in g.nodes if n.kind == 'return']
            if rettype != 'void':
                okc = okc and len(rets) == 1 and rules.return_value(rets[0]) == '*p' and \
                    (cx.strip(cx.kids(rets[0].ast)[0]).get('type') == rettype or True)
            run.ob('K4/stub-calls-python-with-its-own-descriptor', where, '_cffi_call_python(&%s, p); return *(T *)p' % vname, okc, gt.where(fn))
            # K5: size_of_result
            init = [x for x in cx.kids(v) if x.get('kind') == 'InitListExpr']
            cells = cx.kids(init[0]) if init else []
            txt = gt.text(cells[1]) if len(cells) > 1 else None
            want = '0' if rettype == 'void' else '(int)sizeof(%s)' % rettype
            okk = txt is not None and txt.replace(' ', '') == want.replace(' ', '')
            run.ob('K5/size_of_result-is-sizeof-the-result-type', where, 'size_of_result = %s' % txt, okk, gt.where(v), 'want %s' % want)
    run.saw('extern "Python" stubs analysed', ['%d' % nstubs])
    return nstubs


def _is_record(gt, tname):
    d = gt.typedefs.get(tname)
    return bool(d) and ((d.get('dtype') or d.get('type') or '').startswith(('struct ', 'union ')))


def k5_k6(run, tu):
    fn = 'cffi_call_python'
    g = cfg_of(tu, fn)
    ms = [n for n in g.nodes if n.ast is not None and cx.calls_in(n.ast, 'memset')]
    ok = len(ms) == 1 and 'T:err' in g.fact_texts(ms[0].id)
    if ok:
        a = [cx.render(x) for x in cx.call_args(cx.calls_in(ms[0].ast, 'memset')[0])]
        ok = a == ['args', '0', 'externpy->size_of_result']
    run.ob('K5/failure-zeroes-the-result', fn, 'if (err) memset(args, 0, externpy->size_of_result)', ok, tu.where(tu.func(fn)))
    # every assignment of a non-zero err is followed by the zeroing
    for l, r, op, x in cx.assignments(tu.func(fn)):
        if cx.lhs_text(l) == 'err' and cx.int_value(r) != 0 and op == '=':
            n = g.node_of(x)
            zc = [(cn.id, lab) for cn, lab in g.dominating_facts(ms[0].id) if cn.kind == 'cond' and cx.render(cn.ast) == 'err'] if ms else []
            okz = zc == [(zc[0][0], 'T')] if zc else False
            if okz:
                # the test of err that guards the zeroing is reached on every path from this failure, with err unchanged
                okz = g.must_follow(n.id, [zc[0][0]]) and not any(
                    cx.lhs_text(l2) == 'err' and g.node_of(x2).id in (g.reach([n.id], include_start=False) & g.coreach([zc[0][0]]))
                    for l2, r2, op2, x2 in cx.assignments(tu.func(fn)) if x2 is not x)
            run.ob('K5/every-failure-reaches-the-zeroing', fn, 'err = %s' % cx.render(r), okz, tu.where(x))
    call = [n for n in g.nodes if n.ast is not None and cx.calls_in(n.ast, 'general_invoke_callback')]
    ok = len(call) == 1 and ('F:err' in g.fact_texts(call[0].id))
    if ok:
        a = [cx.render(x) for x in cx.call_args(cx.calls_in(call[0].ast, 'general_invoke_callback')[0])]
        ok = a == ['0', 'args', 'args', 'externpy->reserved2']
    run.ob('K5/python-called-only-when-attached', fn, 'if (!err) general_invoke_callback(0, args, args, externpy->reserved2)', ok, tu.where(tu.func(fn)))
    for fn2, callee in (('invoke_callback', 'general_invoke_callback'), ('cffi_call_python', 'general_invoke_callback')):
        g2 = cfg_of(tu, fn2)
        ens = [n for n in g2.nodes if n.ast is not None and cx.calls_in(n.ast, 'gil_ensure')]
        rel = [n.id for n in g2.nodes if n.ast is not None and cx.calls_in(n.ast, 'gil_release')]
        cc = [n for n in g2.nodes if n.ast is not None and cx.calls_in(n.ast, callee)]
        ok = len(ens) == 1 and bool(rel) and g2.must_follow(ens[0].id, rel) and all(g2.must_precede(c.id, [ens[0].id]) and g2.must_follow(c.id, rel) for c in cc)
        if ok:
            st = None
            for l, r, op, _x in cx.assignments(tu.func(fn2)):
                if cx.calls_in(r, 'gil_ensure'):
                    st = cx.lhs_text(l)
            rc = [c for n in g2.nodes if n.ast is not None for c in cx.calls_in(n.ast, 'gil_release')]
            ok = st is not None and all(cx.render(cx.call_args(c)[0]) == st for c in rc)
        run.ob('K6/gil-ensure-release-paired-around-the-call', fn2, 'state = gil_ensure(); ...; gil_release(state)', ok, tu.where(tu.func(fn2)))


def k7(run, tu):
    """the caller receives the declared error value whenever a result conversion fails -- also the conversion of what `onerror`
    returned, which may already have overwritten the buffer -- and a struct/union result is zeroed before a (possibly partial)
    initialiser is converted into it"""
    fn = 'general_invoke_callback'
    g = cfg_of(tu, fn)
    convs = [n for n in g.nodes if n.ast is not None and cx.calls_in(n.ast, 'convert_from_object_fficallback')]
    run.need(len(convs) >= 2, '%s: the two result conversions (normal and onerror) not found' % fn)

    def is_errcopy(n):
        for c in cx.calls_in(n.ast, ('memcpy', '__builtin_memcpy', '__builtin___memcpy_chk')) if n.ast is not None else []:
            a = [cx.render(x) for x in cx.call_args(c)]
            if a and a[0] == 'result' and 'py_rawerr' in a[1]:
                return True
        return False
    copies = [n.id for n in g.nodes if is_errcopy(n)]
    run.need(copies, '%s: the copy of the declared error value into the result not found' % fn)
    for n in convs:
        fails = [t for t, l in n.succ if l == 'T'] if n.kind == 'cond' and cx.render(n.ast).replace(' ', '').endswith('<0') else None
        if fails is None:
            ok, why = False, 'the outcome of this conversion is ignored: if it fails after having cleared the result buffer, the caller receives 0, not the declared error value'
        else:
            # from the failing edge, the exit is reached only through a copy of the error value, or through a test that the result has no size
            r = g.reach(fails, avoid=set(copies))
            nosize = {x.id for x in g.nodes if x.kind == 'cond' and cx.render(x.ast).replace(' ', '').endswith('->ct_size>0')}
            leak = g.exit.id in g.reach(fails, avoid=set(copies) | nosize)
            ok, why = not leak, 'a failed conversion reaches the end of the function without the declared error value being copied into the result'
        run.ob('K7/failed-result-conversion-leaves-the-declared-error-value', fn, stmt_text(n.ast)[:90] if n.kind != 'cond' else cx.render(n.ast)[:90], ok, tu.where(n.ast), why)
    # aggregate results are zeroed before conversion
    F = 'convert_from_object_fficallback'
    fg = cfg_of(tu, F)
    flags = rules.macro_flags(tu, 'CT_')
    for kind in ('CT_STRUCT', 'CT_UNION'):
        for size in (4, 12, 24):
            seq = []
            env = {'ctype->ct_flags': absint.Con(flags[kind], 32, True), 'ctype->ct_size': absint.Con(size, 64, True)}
            hooks = {'memset': lambda a, e: seq.append(('memset', [cx.render(x) for x in cx.call_args(e)][:2], a[2] if len(a) > 2 else None)) or absint.TOP,
                     '__builtin_memset': lambda a, e: seq.append(('memset', [cx.render(x) for x in cx.call_args(e)][:2], a[2] if len(a) > 2 else None)) or absint.TOP,
                     '__builtin___memset_chk': lambda a, e: seq.append(('memset', [cx.render(x) for x in cx.call_args(e)][:2], a[2] if len(a) > 2 else None)) or absint.TOP,
                     'convert_from_object': lambda a, e: seq.append(('convert', [cx.render(x) for x in cx.call_args(e)][:1], None)) or absint.TOP}
            absint.Interp(fg, env, hooks, const_vars=set(env)).run()
            conv_at = [i for i, x in enumerate(seq) if x[0] == 'convert' and x[1] == ['result']]
            zero_at = [i for i, x in enumerate(seq) if x[0] == 'memset' and x[1] == ['result', '0'] and isinstance(x[2], absint.Con) and x[2].v >= size]
            ok = bool(conv_at) and bool(zero_at) and min(zero_at) < min(conv_at)
            run.ob('K7/aggregate-result-zeroed-before-the-initialiser-is-applied', F, '%s result of %d bytes' % (kind[3:].lower(), size), ok, tu.where(tu.func(F)),
                   'calls seen: %s -- a partial initialiser ([1] for struct {int a, b, c;}) leaves the other fields as they were in the result buffer' % [(x[0], x[1]) for x in seq])


WIDER_THAN_A_SLOT = {'long double': 'long double', '_cffi_double_complex_t': 'double _Complex'}       # x86-64: 16 bytes each (C06 witnesses the sizes)


def k8(run):
    """extern "Python" stubs give every argument an 8-byte slot: a primitive wider than that has to be passed by address (as structs are),
    by the generator and by the reader alike, or it overlaps the next slot / the end of the buffer"""
    m = cffi_mod('recompiler')
    fn = m.find('Recompiler._extern_python_decl.may_need_128_bits')
    names = {c.value for c in ast.walk(fn) if isinstance(c, ast.Constant) and isinstance(c.value, str)}
    for prim, cname in sorted(WIDER_THAN_A_SLOT.items()):
        run.ob('K4/wide-primitives-passed-by-address', 'Recompiler._extern_python_decl', '%s (%s)' % (cname, prim), prim in names, m.where(fn),
               'a %s argument is stored with `*(%s *)(p + 8*i) = a_i` into an 8-byte slot of a buffer of 8*nargs bytes: it overwrites the next argument, or 8 bytes past the '
               'buffer when it is the last one (and a %s result is read from a buffer that may be only 8 bytes)' % (cname, cname, cname))


def check(run):
    run.explanation = (
        'Must-pass-through rules on the CFG of the callback trampoline: from the `error:` label every path delivers the '
        'prepared error bytes first, fetches the pending exception, and after every statement that may set a new '
        'exception (onerror call, conversion of its result) reaches the exit only through a clear point (the unraisable '
        'writer, which ends in PyErr_Clear on all paths, or the false edge of PyErr_Occurred()); constant propagation of '
        'the error-buffer size; producer/consumer agreement of the info tuple and of the extern "Python" slot layout '
        '(clang AST of generated stubs for int/struct/long double/pointer/void signatures vs. the reader: offset 8*i, '
        'by-address kinds, buffer size, size_of_result); zeroing on every failure of cffi_call_python; GIL pairing.')
    tu = backend_tu()
    k1(run, tu)
    k2(run, tu)
    k3(run, tu)
    k7(run, tu)
    k8(run)
    n = k4_k5_generated(run, tu, run.tier == 'thorough')
    run.need(n >= 9, 'extern "Python" stubs in the corpus: %d' % n)
    k5_k6(run, tu)
    run.min_instances('K1', 10)
    run.min_instances('K4', 20)
    run.min_instances('K5', 12)
    run.min_instances('K7', 8)
    run.assume('value exactness of libffi\'s argument decoding and of convert_to_object/convert_from_object is not decided (C03, C18)')
