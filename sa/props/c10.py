"""C10 — enum values and underlying integer type match the C compiler (structural clauses).

Decided here (each a necessary condition of the property; the arithmetic of the enumerator
*expressions* themselves is C09 and is not decided):

T1 the decision table of EnumType.build_baseinttype, extracted by symbolic path enumeration
   (the values are touched only through min/max and comparisons with constants folded from
   the C type sizes), equals the compiler's rule on every cell of the finite partition of
   (smallest, largest) induced by the thresholds; compile-only witness: for every cell
   representative an `enum {A=smallest, B=largest}` whose compiler-chosen type (_Generic) is
   the type the table returns.
T2 Recompiler._enum_ctx: for the Python target size and sign are read off the *same* btype
   returned by build_baseinttype; for the C target they are the compiler's own
   sizeof(T) / ((T)-1) <= 0; compile-only witness on the generated probe: the emitted
   _cffi_prim_int(...) of every row equals the primitive of the compiler-chosen type, and so
   does the primitive number written by the Python target for the same declarations.
T3 EnumExpr.as_python_expr's (size, signed) -> PRIM table and the C macro _cffi_prim_int
   name the N-bit (un)signed primitive.
T5 Parser._build_enum_type: the k-th enumerator gets the explicit value or previous+1
   (first: 0); every enumerator is registered as a constant before the next value is parsed.
T6 b_new_enum_type fills value->name in descending index order with unconditional stores
   (so the first declared name wins), pairs names and values by the same index, stores the
   dict at the slot convert_cdata_to_enum_string reads, and copies size/flags of the base type.
T7 convert_cdata_to_enum_string: name if found, else str(value); ffi.string passes both=0.
T8 realize_c_type OP_ENUM and EnumType.build_backend_type pass names, values, base type in
   the same positions b_new_enum_type parses them.
"""
import ast
import os
import re
import shutil
import subprocess
import tempfile

from .. import AnalysisError, gen
from ..cast import cx
from ..cast.cfg import cfg_of, stmt_text
from ..cast.loader import backend_tu, repo_root, py_include
from ..cast import rules
from ..pyast.index import cffi_mod, u
from ..pyast import sympath as sp

# LP64 (the platform this tree is built for; recorded as an assumption)
SIZES = {'int': 4, 'unsigned int': 4, 'long': 8, 'unsigned long': 8}
PRIM_OF = {'int': 'INT32', 'unsigned int': 'UINT32', 'long': 'INT64', 'unsigned long': 'UINT64'}


def reference(S, L):
    """gcc/clang on LP64: no negative value -> unsigned int, else unsigned long;
    a negative value -> int, else long; 'error' when nothing fits"""
    if S < 0:
        if S >= -2**31 and L <= 2**31 - 1:
            return 'int'
        if S >= -2**63 and L <= 2**63 - 1:
            return 'long'
        return 'error'
    if L <= 2**32 - 1:
        return 'unsigned int'
    if L <= 2**64 - 1:
        return 'unsigned long'
    return 'error'


def c_lit(v):
    if v < 0:
        return '(-%d-1)' % (-(v + 1))
    return '%dU' % v if v > 2**63 - 1 else '%d' % v


def compile_asserts(run, rule, function, site, body, asserts, thorough, flags=(), gcc_only=()):
    """compile-only witness: body + _Static_asserts under gcc (and clang when thorough);
    a failing twin must fail first"""
    compilers = ['gcc', 'clang'] if thorough else ['gcc']
    tmp = tempfile.mkdtemp(prefix='verif-c10-', dir='/var/tmp')
    try:
        for cc in compilers:
            p = os.path.join(tmp, 'twin.c')
            with open(p, 'w') as f:
                f.write(body + '\n_Static_assert(sizeof(int) == 9999, "twin");\n')
            r = subprocess.run([cc, '-fsyntax-only', '-std=gnu11', '-w'] + list(flags) + [p], capture_output=True, text=True)
            if r.returncode == 0 or 'static' not in r.stderr.lower():
                raise AnalysisError('C10: failing twin did not fail under %s: %s' % (cc, r.stderr[-300:]))
            # (clang does not fold floating-point expressions in integer constant expressions; gcc does)
            these = [x for x in asserts if not (cc == 'clang' and x[1] in gcc_only)]
            p = os.path.join(tmp, 'w.c')
            with open(p, 'w') as f:
                f.write(body + '\n' + '\n'.join(a for a, _m, _d in these) + '\n')
            r = subprocess.run([cc, '-fsyntax-only', '-std=gnu11', '-w'] + list(flags) + [p], capture_output=True, text=True)
            failed = set()
            if r.returncode != 0:
                for line in r.stderr.splitlines():
                    m = re.search(r'static.assert\w*\s+failed.*?"([^"]+)"', line) or re.search(r'static assertion failed: "?([^"]+)"?', line)
                    if m:
                        failed.add(m.group(1).strip())
                if not failed:
                    raise AnalysisError('C10: witness TU does not compile under %s: %s' % (cc, r.stderr[-500:]))
            for _a, msg, detail in these:
                run.ob(rule, function, '%s [%s]' % (msg, cc), msg not in failed, site, detail)
    finally:
        shutil.rmtree(tmp, ignore_errors=True)
    run.saw('compilers used for the witnesses', compilers)


UND = ('#define VERIF_UND(T) _Generic((T)0, int: _CFFI_PRIM_INT32, unsigned int: _CFFI_PRIM_UINT32, '
       'long: _CFFI_PRIM_INT64, unsigned long: _CFFI_PRIM_UINT64, default: -99)\n')


# ---------------------------------------------------------------------------------------------
def t1(run, thorough):
    m = cffi_mod('model')
    fn = m.find('EnumType.build_baseinttype')
    F = 'EnumType.build_baseinttype'

    def h_prim(a, k, e, f):
        if len(a) == 1 and isinstance(a[0], str):
            return ('prim', a[0])
        return sp.Opq('PrimitiveType(?)')

    def h_sizeof(a, k, e, f):
        if a and isinstance(a[0], tuple) and a[0][0] == 'btype':
            if a[0][1] not in SIZES:
                raise AnalysisError('C10/T1: candidate type %r has no size in the LP64 table' % (a[0][1],))
            return SIZES[a[0][1]]
        return sp.Opq('sizeof(?)')

    def h_min(a, k, e, f):
        return sp.Lin('S') if a and isinstance(a[0], sp.Opq) and a[0].text == 'self.enumvalues' else sp.Opq('min(?)')

    def h_max(a, k, e, f):
        return sp.Lin('L') if a and isinstance(a[0], sp.Opq) and a[0].text == 'self.enumvalues' else sp.Opq('max(?)')

    def m_btype(r, a, k, e, f):
        return ('btype', r[1]) if isinstance(r, tuple) and r and r[0] == 'prim' else sp.Opq('btype(?)')

    ev = sp.Evaluator({'PrimitiveType': h_prim, 'model.PrimitiveType': h_prim, 'ffi.sizeof': h_sizeof, 'min': h_min, 'max': h_max},
                      {'get_cached_btype': m_btype})
    paths = ev.run(fn, {'self.baseinttype': None})
    free = sp.free_names(paths)
    run.need(free <= {'self.enumvalues'}, '%s: conditions the analysis cannot interpret: %s' % (F, sorted(free - {'self.enumvalues'})))
    run.saw('paths of build_baseinttype', [repr(p) for p in paths])
    ths = sp.thresholds(paths) | {0, -2**31, 2**31, 2**32, -2**63, 2**63, 2**64}
    pts = sorted({t + d for t in ths for d in (-1, 0, 1)} | {-5, 5})
    run.saw('thresholds', sorted(ths))

    def outcome(S, L, nonempty):
        hit = [p for p in paths if sp.holds(p, {'S': S, 'L': L}, {'self.enumvalues': nonempty})]
        if len(hit) != 1:
            return 'ambiguous(%d paths)' % len(hit)
        o = hit[0].outcome
        if o is None:
            return 'falls off the end (returns None)'
        if o[0] == 'raise':
            return 'error'
        v = o[1]
        if isinstance(v, tuple) and v and v[0] == 'btype':
            return v[1]
        return 'returns %r' % (v,)

    cells = {}
    wit = []
    for S in pts:
        for L in pts:
            if S > L:
                continue
            want = reference(S, L)
            got = outcome(S, L, True)
            c = cells.setdefault(want, {'n': 0, 'bad': []})
            c['n'] += 1
            if got != want:
                c['bad'].append((S, L, got))
            if want != 'error' and got in PRIM_OF:
                wit.append((S, L, got))
    for want, c in sorted(cells.items()):
        bad = c['bad']
        run.ob('T1/base-type-decision-table', F, 'cells where the compiler chooses %s (%d points)' % (want, c['n']),
               not bad, m.where(fn),
               'e.g. smallest=%d largest=%d: the table gives %s' % bad[0] if bad else 'all representative points agree')
    got0 = outcome(0, 0, False)
    run.ob('T1/base-type-decision-table', F, 'enum without values -> unsigned int', got0 == 'unsigned int', m.where(fn), 'gives %s' % got0)
    # compile-only witness for the same table: the compiler is asked what it chooses for each cell
    if not thorough:
        wit = [w for i, w in enumerate(wit) if i % 4 == 0 or abs(w[0]) in (2**31, 2**63) or w[1] in (2**31 - 1, 2**31, 2**32 - 1, 2**32, 2**63 - 1, 2**63, 2**64 - 1)]
    lines = ['#include <stddef.h>', '#include "%s"' % os.path.join(repo_root(), 'src/cffi/parse_c_type.h'), UND]
    asserts = []
    for i, (S, L, got) in enumerate(wit):
        lines.append('enum w%d { WA%d = %s, WB%d = %s };' % (i, i, c_lit(S), i, c_lit(L)))
        asserts.append(('_Static_assert(VERIF_UND(enum w%d) == _CFFI_PRIM_%s, "cell %d");' % (i, PRIM_OF[got], i), 'cell %d' % i,
                        'smallest=%d largest=%d: build_baseinttype returns %s' % (S, L, got)))
    # collapse into one obligation per returned type to keep the evidence readable
    by = {}
    for a in asserts:
        by.setdefault(a[2].split('returns ')[1], []).append(a)
    compile_cells(run, lines, by, thorough, m.where(fn))
    run.saw('T1 witness enums', ['%d cells' % len(wit)])
    return len(cells)


def compile_cells(run, lines, by, thorough, site):
    compilers = ['gcc', 'clang'] if thorough else ['gcc']
    tmp = tempfile.mkdtemp(prefix='verif-c10-', dir='/var/tmp')
    body = '\n'.join(lines)
    try:
        for cc in compilers:
            p = os.path.join(tmp, 'twin.c')
            with open(p, 'w') as f:
                f.write(body + '\n_Static_assert(VERIF_UND(enum w0) == -5, "twin");\n')
            r = subprocess.run([cc, '-fsyntax-only', '-std=gnu11', '-w', p], capture_output=True, text=True)
            if r.returncode == 0 or 'static' not in r.stderr.lower():
                raise AnalysisError('C10: failing twin did not fail under %s: %s' % (cc, r.stderr[-300:]))
            for typ, asserts in sorted(by.items()):
                p = os.path.join(tmp, 'w.c')
                with open(p, 'w') as f:
                    f.write(body + '\n' + '\n'.join(a for a, _m, _d in asserts) + '\n')
                r = subprocess.run([cc, '-fsyntax-only', '-std=gnu11', '-w', p], capture_output=True, text=True)
                failed = []
                if r.returncode != 0:
                    msgs = set(re.findall(r'"(cell \d+)"', r.stderr))
                    failed = [d for _a, mm, d in asserts if mm in msgs]
                    if not failed:
                        raise AnalysisError('C10: witness TU does not compile under %s: %s' % (cc, r.stderr[-500:]))
                run.ob('T1/compiler-witness', 'EnumType.build_baseinttype', '%d cells returning %s [%s]' % (len(asserts), typ, cc),
                       not failed, site, failed[0] + ' but the compiler chooses another type' if failed else 'the compiler chooses the same type in every cell')
    finally:
        shutil.rmtree(tmp, ignore_errors=True)


# ---------------------------------------------------------------------------------------------
def t2(run, thorough):
    m = cffi_mod('recompiler')
    fn = m.find('Recompiler._enum_ctx')
    F = 'Recompiler._enum_ctx'

    def mk(target_is_python, cname):
        rec = []

        def h_enumexpr(a, k, e, f):
            rec.append(a)
            return sp.Opq('EnumExpr')

        def h_bb(a, k, e, f):
            return ('btype', 'B')

        def h_sizeof(a, k, e, f):
            return ('sizeof',) + tuple(a)

        def h_cast(a, k, e, f):
            return ('cast',) + tuple(a)

        def h_int(a, k, e, f):
            return a[0] if len(a) == 1 else sp.Opq('int(?)')
        ev = sp.Evaluator({'EnumExpr': h_enumexpr, 'tp.build_baseinttype': h_bb, 'self.ffi.sizeof': h_sizeof,
                           'self.ffi.cast': h_cast, 'int': h_int, 'zip': lambda a, k, e, f: ()},
                          {'join': lambda r, a, k, e, f: sp.Opq('joined')})
        ps = ev.run(fn, {'self.target_is_python': target_is_python, 'cname': cname})
        return ps, rec

    # Python target (out-of-line ABI): cname is the C name but must not be used
    ps, rec = mk(True, 'enum foo')
    run.need(len(rec) == 1 and len(rec[0]) == 5, '%s: expected one EnumExpr(name, type_index, size, signed, allenums) on the Python-target path, found %r' % (F, rec))
    size, signed = rec[0][2], rec[0][3]
    ok_size = size == ('sizeof', ('btype', 'B'))
    ok_sign = isinstance(signed, tuple) and signed[0] == 'free' and signed[1] == "%r < 0" % (('cast', ('btype', 'B'), -1),)
    # a constant, or a size not derived from the chosen type, is refuted here; any other way of
    # computing them is left to the compiler witness on the generated a_enums rows below
    if ok_size or sp.is_concrete(size) or (isinstance(size, tuple) and size and size[0] == 'sizeof'):
        run.ob('T2/abi-size-from-base-type', F, 'size = ffi.sizeof(build_baseinttype(...))', ok_size, m.where(fn), 'size argument is %r' % (size,))
    else:
        run.saw('T2 forms left to the witness', ['size=%r' % (size,)])
    if ok_sign or sp.is_concrete(signed):
        run.ob('T2/abi-sign-from-base-type', F, 'signed = int(ffi.cast(<same btype>, -1)) < 0', ok_sign, m.where(fn), 'signed argument is %r' % (signed,))
    else:
        run.saw('T2 forms left to the witness', ['signed=%r' % (signed,)])
    # C target with a usable name: delegated to the compiler
    ps, rec = mk(False, 'enum foo')
    run.need(len(rec) == 1 and len(rec[0]) == 5, '%s: expected one EnumExpr(...) on the C-target path, found %r' % (F, rec))
    size, signed = rec[0][2], rec[0][3]
    run.ob('T2/api-size-and-sign-left-to-the-compiler', F, 'size/signed are C expressions over the enum type itself',
           isinstance(size, str) and isinstance(signed, str) and 'enum foo' in size and 'enum foo' in signed,
           m.where(fn), 'size=%r signed=%r' % (size, signed))
    # C target, anonymous enum ('$' in the name): falls back to the model
    ps, rec = mk(False, '$anon')
    run.need(len(rec) == 1, '%s: expected one EnumExpr(...) for an anonymous enum' % F)
    run.ob('T2/anonymous-enum-uses-the-model', F, "cname with '$' -> build_baseinttype", rec[0][2] == ('sizeof', ('btype', 'B')), m.where(fn), repr(rec[0][2]))

    # the enumerator list of the row keeps the order of declaration (ffi.string() answers with the first name that has the value,
    # and the runtime builds its value->name table from this list), and every enumerator gets a constant row with its own value
    for tip in (True, False):
        rec, glob = [], []
        ev = sp.Evaluator({'EnumExpr': lambda a, k, e, f: rec.append(a) or sp.Opq('EnumExpr'),
                           'GlobalExpr': lambda a, k, e, f: glob.append((tuple(a[:1]), k.get('check_value'))) or sp.Opq('GlobalExpr'),
                           'tp.build_baseinttype': lambda a, k, e, f: ('btype', 'B'), 'self.ffi.sizeof': lambda a, k, e, f: 4,
                           'self.ffi.cast': lambda a, k, e, f: -1, 'int': lambda a, k, e, f: a[0] if len(a) == 1 else sp.Opq('int(?)')})
        names, vals = ('ZETA', 'ALPHA', 'MID', 'BETA'), (1, 1, 0, 0)
        ev.run(fn, {'self.target_is_python': tip, 'cname': 'enum foo', 'tp.enumerators': names, 'tp.enumvalues': vals})
        run.need(len(rec) == 1 and len(rec[0]) == 5, '%s: expected one EnumExpr(...)' % F)
        allenums = rec[0][4]
        if not isinstance(allenums, str):
            raise AnalysisError('%s: the enumerator list handed to EnumExpr is not understood (%r)' % (F, allenums))
        run.ob('T2/enumerator-names-kept-in-declaration-order', F, 'allenums for %s (target_is_python=%s)' % (','.join(names), tip), allenums == ','.join(names), m.where(fn),
               'the row lists them as %r: with duplicates %s=%s the first *listed* name is what ffi.string() returns' % (allenums, names[0], names[1]))
        run.ob('T2/every-enumerator-gets-a-constant-row-with-its-value', F, 'GlobalExpr rows (target_is_python=%s)' % tip, glob == [((n_,), v_) for n_, v_ in zip(names, vals)],
               m.where(fn), 'rows: %r' % (glob,))
    # witness on the generated probes
    gtext = gen.generated()['p_enums']
    mm = re.search(r'_cffi_enums\[\]\s*=\s*\{(.*?)\n\};', gtext, re.S)
    run.need(mm is not None, 'generated p_enums.c has no _cffi_enums table')
    rows = re.findall(r'\{\s*"(\$?\w+)",\s*(\d+),\s*(.*?),\s*\n\s*"([^"]*)"\s*\},', mm.group(1), re.S)
    run.need(len(rows) >= 6, 'generated p_enums.c: expected >= 6 enum rows, found %d' % len(rows))
    asserts = []
    for name, _idx, expr, _names in rows:
        ctype = name[1:] if name.startswith('$') else 'enum ' + name
        asserts.append(('_Static_assert((%s) == VERIF_UND(%s), "api row %s");' % (' '.join(expr.split()), ctype, name), 'api row %s' % name,
                        'emitted: %s' % ' '.join(expr.split())))
    ptext = gen.generated()['a_enums']
    tree = ast.parse(ptext)
    enums = None
    for n in ast.walk(tree):
        if isinstance(n, ast.keyword) and n.arg == '_enums':
            enums = ast.literal_eval(n.value)
    run.need(enums is not None and len(enums) >= 6, 'generated a_enums.py: expected >= 6 _enums rows')
    for row in enums:
        prim = int.from_bytes(row[4:8], 'big')
        name = row[8:].split(b'\x00')[0].decode()
        ctype = name[1:] if name.startswith('$') else 'enum ' + name
        asserts.append(('_Static_assert(%d == VERIF_UND(%s), "abi row %s");' % (prim, ctype, name), 'abi row %s' % name,
                        'primitive number written by the Python target: %d' % prim))
    body = gtext + '\n' + UND
    compile_asserts(run, 'T2/compiler-witness-generated-rows', 'Recompiler._enum_ctx / EnumExpr', 'corpus p_enums, a_enums', body, asserts, thorough,
                    flags=['-I' + os.path.join(repo_root(), 'src/cffi'), '-I' + py_include(), '-DNDEBUG'])
    return len(asserts)


def enum_prim_table():
    """(size, signed) -> name of the PRIM_ constant EnumExpr.as_python_expr writes, by walking the method symbolically for every
    (size, signed) -- however the table is laid out"""
    m = cffi_mod('recompiler')
    fn = m.find('EnumExpr.as_python_expr')
    out = {}
    for size in (1, 2, 4, 8):
        for signed in (0, 1):
            got = []
            ev = sp.Evaluator({'format_four_bytes': lambda a, k, e, f: got.append(a[0]) or 'XXXX'})
            ev.run(fn, {'self.size': size, 'self.signed': signed, 'self.type_index': 0, 'self.name': 'e', 'self.allenums': 'A'})
            prims = [x.text for x in got if isinstance(x, sp.Opq) and x.text.startswith('PRIM_')]
            out[(size, signed)] = prims[0] if len(prims) == 1 else None
    return m, fn, out


def t3(run, thorough):
    m, fn, table = enum_prim_table()
    for key, got in sorted(table.items()):
        want = 'PRIM_%sINT%d' % ('' if key[1] else 'U', 8 * key[0])
        run.ob('T3/python-target-prim-table', 'EnumExpr.as_python_expr', '(size, signed) = %r' % (key,), got == want, m.where(fn), 'writes %s, expected %s' % (got, want))
    # the C macro
    inc = os.path.join(repo_root(), 'src/cffi/_cffi_include.h')
    asserts = []
    for size in (1, 2, 4, 8):
        for sign in (0, 1, 7):
            want = '_CFFI_PRIM_%sINT%d' % ('' if sign else 'U', 8 * size)
            asserts.append(('_Static_assert(_cffi_prim_int(%d, %d) == %s, "prim_int(%d,%d)");' % (size, sign, want, size, sign),
                            'prim_int(%d,%d)' % (size, sign), 'expected %s' % want))
    body = '#include "%s"\n' % inc
    compile_asserts(run, 'T3/c-macro-prim-table', '_cffi_prim_int', 'src/cffi/_cffi_include.h', body, asserts, thorough,
                    flags=['-I' + os.path.join(repo_root(), 'src/cffi'), '-I' + py_include(), '-DNDEBUG'])
    # as_c_expr hands (size, signed) to the macro in this order
    fc = m.find('EnumExpr.as_c_expr')
    ev = sp.Evaluator()
    ps = ev.run(fc, {'self.name': 'NAME', 'self.type_index': 3, 'self.size': 'SIZE', 'self.signed': 'SIGNED', 'self.allenums': 'A,B'})
    outs = {p.outcome[1] if p.outcome else None for p in ps if not (p.outcome and p.outcome[0] == 'raise')}
    first = None
    for p in ps:
        v = p.env.get('lines')
        if isinstance(v, tuple) and v and isinstance(v[0], str):
            first = v[0]
    ok = first is not None and re.search(r'_cffi_prim_int\(\s*SIZE\s*,\s*SIGNED\s*\)', first) is not None and '"NAME"' in first and re.search(r',\s*3\s*,', first)
    run.ob('T3/c-target-row-layout', 'EnumExpr.as_c_expr', '{ "name", type_index, _cffi_prim_int(size, signed), ...', bool(ok), m.where(fc), 'first line: %r' % (first,))
    return len(table)


# ---------------------------------------------------------------------------------------------
def t5(run):
    m = cffi_mod('cparser')
    fn = m.find('Parser._build_enum_type')
    F = 'Parser._build_enum_type'
    seq = [('A', None), ('B', 'vB'), ('C', None), ('D', None), ('E', 'vE'), ('F', None)]
    items = tuple({'name': n, 'value': (sp.Opq(v) if v else None)} for n, v in seq)

    def pc(a, k, e, f):
        if not (a and isinstance(a[0], sp.Opq)):
            raise AnalysisError('%s: _parse_constant is applied to %r, not to the enumerator\'s value' % (F, a))
        f.append(('parse', a[0].text))
        return sp.Lin(a[0].text)
    ev = sp.Evaluator({'self._parse_constant': pc, '_r_enum_dotdotdot.match': lambda a, k, e, f: None})
    paths = ev.run(fn, {'decls': {'enumerators': items}})
    # the free conditions are `<vX> is None`; the enumerators with an explicit value are not None
    keep = []
    for p in paths:
        good = True
        for c, truth in p.conds:
            txt = sp.show(c) if not (isinstance(c, tuple) and c[0] == 'not') else None
            t, tr = c, truth
            while isinstance(t, tuple) and t[0] == 'not':
                t, tr = t[1], not tr
            if isinstance(t, tuple) and t[0] == 'free' and t[1].endswith('is None') and t[1].startswith('<v'):
                if tr:      # path assumes the explicit value is None: infeasible
                    good = False
            else:
                raise AnalysisError('%s: condition %s not interpreted' % (F, sp.show(c)))
        if good:
            keep.append(p)
    run.need(len(keep) == 1, '%s: expected one feasible path for a fully specified enumerator list, found %d' % (F, len(keep)))
    p = keep[0]
    made = [e for e in p.effects if e[0] in ('model.EnumType', 'EnumType')]
    run.need(len(made) == 1 and len(made[0][1]) >= 3, '%s: expected one model.EnumType(name, enumerators, enumvalues)' % F)
    names, values = made[0][1][1], made[0][1][2]
    want_names = tuple(n for n, _ in seq)
    want_vals = (0, sp.Lin('vB'), sp.Lin('vB', 1), sp.Lin('vB', 2), sp.Lin('vE'), sp.Lin('vE', 1))
    run.ob('T5/enumerator-names-in-order', F, 'EnumType(..., enumerators, ...)', names == want_names, m.where(fn), 'got %r' % (names,))
    for i, (n, _v) in enumerate(seq):
        got = values[i] if isinstance(values, tuple) and i < len(values) else None
        kind = 'first implicit -> 0' if i == 0 else ('explicit' if seq[i][1] else 'implicit -> previous + 1')
        run.ob('T5/enumerator-value-rule', F, 'enumerator #%d (%s)' % (i, kind), got == want_vals[i], m.where(fn),
               'for [A, B=vB, C, D, E=vE, F] the value of %s is %r, expected %r' % (n, got, want_vals[i]))
    # registration before the next parse (so that later enumerators may refer to earlier ones)
    order = [(e[0], e[1]) for e in p.effects if e[0] in ('self._add_constants', 'parse')]
    reg = {}
    ok = True
    why = ''
    for i, e in enumerate(order):
        if e[0] == 'self._add_constants':
            reg[e[1][0]] = e[1][1]
    for i, (n, _v) in enumerate(seq):
        if reg.get(n) != want_vals[i]:
            ok = False
            why = '%s registered as %r' % (n, reg.get(n))
    pos = {('c', e[1][0]): i for i, e in enumerate(order) if e[0] == 'self._add_constants'}
    pos.update({('p', e[1]): i for i, e in enumerate(order) if e[0] == 'parse'})
    if ok and not (pos.get(('c', 'A'), 99) < pos.get(('p', 'vB'), -1) and pos.get(('c', 'D'), 99) < pos.get(('p', 'vE'), -1)):
        ok = False
        why = 'an enumerator is registered only after the next value was parsed: %r' % (order,)
    run.ob('T5/enumerators-registered-as-constants-in-order', F, 'self._add_constants(name, value) before the next _parse_constant', ok, m.where(fn), why)
    return len(seq)


# ---------------------------------------------------------------------------------------------
def t6(run, tu):
    F = 'b_new_enum_type'
    fn = tu.func(F)
    loops = [n for n in cx.walk(fn) if n.get('kind') == 'ForStmt']
    loops = [l for l in loops if any(cx.callee_name(c) == 'PyDict_SetItem' for c in cx.calls_in(l))]
    run.need(len(loops) == 1, '%s: expected one loop filling the two dictionaries' % F)
    loop = loops[0]
    init, _cv, cond, inc, body = (loop.get('inner') + [None] * 5)[:5]
    it = cx.render(init) if init and init.get('kind') else ''
    ct = cx.render(cond) if cond and cond.get('kind') else ''
    nt = cx.render(inc) if inc and inc.get('kind') else ''
    mi = re.match(r'^(\w+) = (.+)$', it)
    run.need(mi is not None, '%s: loop init %r not understood' % (F, it))
    iv, start = mi.group(1), mi.group(2).replace(' ', '')
    desc = None
    if ct.replace(' ', '') == '--%s>=0' % iv and nt == '' and start == 'n':
        desc = True
    elif ct.replace(' ', '') in ('%s>=0' % iv,) and nt.replace(' ', '') in ('%s--' % iv, '--%s' % iv, '%s-=1' % iv) and start == 'n-1':
        desc = True
    elif ct.replace(' ', '') in ('%s>0' % iv,) and False:
        desc = None
    elif re.match(r'^%s<' % iv, ct.replace(' ', '')) and nt.replace(' ', '') in ('%s++' % iv, '++%s' % iv, '%s+=1' % iv):
        desc = False
    if desc is None:
        raise AnalysisError('%s: iteration order of `for (%s; %s; %s)` not decided' % (F, it, ct, nt))
    # other writes of the induction variable in the body
    for lv, _x in cx.writes(body):
        if lv == iv:
            raise AnalysisError('%s: the loop body writes %s' % (F, iv))
    sets = [c for c in cx.calls_in(body) if cx.callee_name(c) == 'PyDict_SetItem']
    defs = {}
    for a in cx.assignments(body):
        lhs = cx.lhs_text(a[0])
        defs.setdefault(lhs, []).append(cx.render(a[1]))

    def src(var):
        vals = [v for v in defs.get(var, []) if v not in ('0',)]
        return vals[0] if len(vals) == 1 else None
    v2n = [c for c in sets if cx.render(cx.call_args(c)[0]) == 'dict2']
    n2v = [c for c in sets if cx.render(cx.call_args(c)[0]) == 'dict1']
    run.need(len(v2n) == 1 and len(n2v) == 1, '%s: expected one store into each dictionary' % F)
    k, v = [cx.render(a) for a in cx.call_args(v2n[0])[1:3]]
    ksrc, vsrc = src(k), src(v)
    same = ksrc is not None and vsrc is not None and 'enumvalues' in ksrc and 'enumerators' in vsrc and \
        ksrc.endswith('[%s]' % iv) and vsrc.endswith('[%s]' % iv)
    run.ob('T6/value-to-name-pairs-same-index', F, 'PyDict_SetItem(dict2, %s, %s)' % (k, v), same, tu.where(v2n[0]),
           'key from %s, value from %s' % (ksrc, vsrc))
    k1, v1 = [cx.render(a) for a in cx.call_args(n2v[0])[1:3]]
    k1s, v1s = src(k1), src(v1)
    run.ob('T6/name-to-value-pairs-same-index', F, 'PyDict_SetItem(dict1, %s, %s)' % (k1, v1),
           k1s is not None and v1s is not None and 'enumerators' in k1s and 'enumvalues' in v1s and k1s.endswith('[%s]' % iv) and v1s.endswith('[%s]' % iv),
           tu.where(n2v[0]), 'key from %s, value from %s' % (k1s, v1s))
    # unconditional overwrite in descending order == the first declared name wins
    g = cfg_of(tu, F)
    node = g.node_of(v2n[0])
    facts = g.fact_texts(node.id)
    guards = [f for f in facts if 'PyDict_Contains' in f or 'PyDict_GetItem' in f or 'PyDict_SetDefault' in f]
    run.ob('T6/first-declared-name-wins', F, 'for (%s; %s; %s) ... PyDict_SetItem(dict2, ...)' % (it, ct, nt),
           desc is True and not guards, tu.where(loop),
           'descending=%s, store guarded by %s' % (desc, guards or 'nothing') + ' (a later store overwrites an earlier one)')
    # slot written == slot read
    packs = [c for c in cx.calls_in(fn) if cx.callee_name(c) == 'PyTuple_Pack']
    run.need(len(packs) == 1, '%s: expected one PyTuple_Pack' % F)
    pa = [cx.render(a) for a in cx.call_args(packs[0])]
    run.ob('T6/dict-slot-agrees-with-reader', F, 'PyTuple_Pack(%s)' % ', '.join(pa), pa == ['2', 'dict1', 'dict2'], tu.where(packs[0]),
           'convert_cdata_to_enum_string reads value->name from slot 1')
    asg = {}
    for a in cx.assignments(fn):
        lhs = cx.lhs_text(a[0])
        asg.setdefault(lhs, []).append(cx.render(a[1]))
    run.ob('T6/enum-has-the-size-of-its-base-type', F, 'td->ct_size = basetd->ct_size', asg.get('td->ct_size') == ['basetd->ct_size'], tu.where(fn), str(asg.get('td->ct_size')))
    fl = asg.get('td->ct_flags') or []
    flags = rules.macro_flags(tu, 'CT_')
    enumbit = flags.get('CT_IS_ENUM')
    okf = len(fl) == 1 and re.match(r'^basetd->ct_flags \| (\d+)$', fl[0]) is not None and int(re.match(r'^basetd->ct_flags \| (\d+)$', fl[0]).group(1)) == enumbit
    run.ob('T6/enum-has-the-signedness-of-its-base-type', F, 'td->ct_flags = basetd->ct_flags | CT_IS_ENUM', bool(okf), tu.where(fn), str(fl))
    run.ob('T6/enum-stuff-is-the-dict-pair', F, 'td->ct_stuff = combined', asg.get('td->ct_stuff') == ['combined'], tu.where(fn), str(asg.get('td->ct_stuff')))
    # argument order parsed
    pat = [c for c in cx.calls_in(fn) if (cx.callee_name(c) or '').startswith('_PyArg_ParseTuple') or cx.callee_name(c) == 'PyArg_ParseTuple']
    run.need(len(pat) == 1, '%s: expected one PyArg_ParseTuple' % F)
    pargs = [cx.render(a) for a in cx.call_args(pat[0])]
    outs = [a for a in pargs[2:] if a.startswith('&') and not a.endswith('_Type')]
    run.ob('T8/backend-argument-order', F, 'PyArg_ParseTuple(args, %s, ...)' % pargs[1], outs == ['&ename', '&enumerators', '&enumvalues', '&basetd'], tu.where(pat[0]), str(outs))
    return 1


def t7(run, tu):
    F = 'convert_cdata_to_enum_string'
    g = cfg_of(tu, F)
    fn = tu.func(F)
    # the lookup
    looks = [n for n in g.nodes if n.ast is not None and n.kind == 'stmt' and any(cx.callee_name(c) in ('PyDict_GetItem', 'PyDict_GetItemWithError') for c in cx.calls_in(n.ast))]
    run.need(len(looks) == 1, '%s: expected one dictionary lookup' % F)
    look = looks[0]
    call = [c for c in cx.calls_in(look.ast) if cx.callee_name(c) in ('PyDict_GetItem', 'PyDict_GetItemWithError')][0]
    a0, a1 = [cx.render(a) for a in cx.call_args(call)]
    asgs = cx.assignments(look.ast)
    run.need(len(asgs) == 1, '%s: the lookup result is not assigned' % F)
    res = cx.lhs_text(asgs[0][0])
    keydefs = [n for n in g.nodes if n.ast is not None and any((cx.lhs_text(a[0])) == a1 for a in cx.assignments(n.ast))]
    ksrc = [cx.render(a[1]) for n in keydefs for a in cx.assignments(n.ast)]
    run.ob('T7/lookup-key-is-the-integer-value', F, '%s = PyDict_GetItem(%s, %s)' % (res, a0, a1),
           'ct_stuff' in a0 and a0.endswith('[1]') and len(ksrc) == 1 and ksrc[0].startswith('convert_to_object(cd->c_data'),
           tu.where(call), 'key built by %s' % ksrc)
    # classify the re-definitions of the result
    rets = [n for n in g.nodes if n.kind == 'return' and rules.return_value(n) == res]
    run.need(len(rets) == 1, '%s: expected a single `return %s`' % (F, res))
    redefs = []
    for n in g.nodes:
        if n.ast is None or n is look:
            continue
        for a in cx.assignments(n.ast):
            lhs = cx.lhs_text(a[0])
            if lhs == res:
                redefs.append((n, cx.render(a[1])))
    found_e = g.edges_of(lambda cn, l: (cx.render(cn.ast).replace(' ', ''), l) in ((res + '!=0', 'T'), (res + '==0', 'F'), (res, 'T'), ('!' + res, 'F')))
    miss_e = g.edges_of(lambda cn, l: (cx.render(cn.ast).replace(' ', ''), l) in ((res + '!=0', 'F'), (res + '==0', 'T'), (res, 'F'), ('!' + res, 'T')))
    both_t = g.edges_of(lambda cn, l: (cx.render(cn.ast).replace(' ', ''), l) in (('both', 'T'), ('both!=0', 'T'), ('!both', 'F'), ('both==0', 'F')))
    run.need(found_e and miss_e, '%s: no test of the lookup result' % F)
    miss_defs = [(n, t) for n, t in redefs if g.must_pass_edges(n.id, miss_e, start=look.id)]
    other = [(n, t) for n, t in redefs if (n, t) not in miss_defs]
    # for an int object str() and repr() are the decimal number
    ok = len(miss_defs) == 1 and re.match(r'^(PyObject_Str|PyObject_Repr)\(%s\)$' % re.escape(a1), miss_defs[0][1]) is not None
    run.ob('T7/unknown-value-gives-the-decimal-number', F, 'lookup failed -> %s' % (miss_defs[0][1] if miss_defs else '?'), ok,
           tu.where(miss_defs[0][0].ast) if miss_defs else tu.where(fn), 'expected PyObject_Str(%s)' % a1)
    # on the miss path every path to the return passes through that definition
    if miss_defs:
        tgt = g.nodes[miss_e[0][1]]
        r = g.reach([e[1] for e in miss_e], avoid={miss_defs[0][0].id})
        run.ob('T7/unknown-value-gives-the-decimal-number', F, 'every miss path reaches the return through it', rets[0].id not in r, tu.where(miss_defs[0][0].ast))
    # with both == 0 the found name is returned unchanged
    bad = [(n, t) for n, t in other if not (both_t and g.must_pass_edges(n.id, both_t, start=look.id))]
    run.ob('T7/known-value-gives-the-stored-name', F, 'with both == 0 the looked-up name is returned as is', not bad,
           tu.where(bad[0][0].ast) if bad else tu.where(fn), 'redefinition outside the `both` branch: %s' % (bad[0][1] if bad else ''))
    # ffi.string passes both = 0 under the enum flag
    cs = [(f, c) for f, c in rules.callers_of(tu, F) if f == 'b_string']
    run.need(len(cs) == 1, 'b_string: expected one call of %s' % F)
    args = [cx.render(a) for a in cx.call_args(cs[0][1])]
    g2 = cfg_of(tu, 'b_string')
    node = g2.node_of(cs[0][1])
    flags = rules.macro_flags(tu, 'CT_')
    ff = rules.flag_facts(g2, g2.dominating_facts(node.id), 'cd->c_type->ct_flags')
    run.ob('T7/ffi-string-asks-for-the-bare-name', 'b_string', '%s(%s)' % (F, ', '.join(args)), args == ['cd', '0'], tu.where(cs[0][1]))
    run.saw('b_string flag facts at the enum call', str(ff))
    return 1


def t8(run, tu):
    F = 'realize_c_type_or_func_now'
    fn = tu.func(F)
    calls = [c for c in cx.calls_in(fn) if cx.callee_name(c) == 'b_new_enum_type']
    run.need(len(calls) == 1, '%s: expected one call of b_new_enum_type' % F)
    bv = [c for c in cx.calls_in(fn) if (cx.callee_name(c) or '') in ('Py_BuildValue', '_Py_BuildValue_SizeT') and 'enumerators' in cx.render(c)]
    run.need(len(bv) == 1, '%s: expected one Py_BuildValue(...) building the enum arguments' % F)
    a = [cx.render(x) for x in cx.call_args(bv[0])]
    run.ob('T8/realize-argument-order', F, 'Py_BuildValue(%s)' % ', '.join(a), a[0] == '"(sOOO)"' and a[2:] == ['enumerators', 'enumvalues', 'basetd'], tu.where(bv[0]))
    # names and values stored at the same index
    sets = {}
    for c in cx.calls_in(fn):
        if cx.callee_name(c) == 'PyTuple_SET_ITEM':
            a = [cx.render(x) for x in cx.call_args(c)]
            mm = re.search(r'\b(enumerators|enumvalues)\b', a[0])
            if mm:
                sets.setdefault(mm.group(1), []).append((a[1], a[2]))
    for asg in cx.assignments(fn):
        lhs = cx.lhs_text(asg[0])
        mm = re.search(r'\b(enumerators|enumvalues)\)->ob_item\[(\w+)\]$', lhs)
        if mm:
            sets.setdefault(mm.group(1), []).append((mm.group(2), cx.render(asg[1])))
    ok = len(sets.get('enumerators', [])) == 1 and len(sets.get('enumvalues', [])) == 1 and sets['enumerators'][0][0] == sets['enumvalues'][0][0]
    run.ob('T8/realize-pairs-names-and-values', F, 'PyTuple_SET_ITEM(enumerators, i, name); PyTuple_SET_ITEM(enumvalues, i, value)', ok, tu.where(fn), str(sets))
    bd = [cx.render(asg[1]) for asg in cx.assignments(fn) if cx.lhs_text(asg[0]) == 'basetd']
    idx = []
    for t in bd:
        idx += re.findall(r'all_primitives\[(.*?)\]', t) + re.findall(r'(?:build_primitive_type|get_primitive_type)\((.*?)\)', t)
    run.ob('T8/realize-base-type-from-the-table', F, 'basetd = get_primitive_type(e->type_prim)',
           len(bd) == 1 and idx and set(idx) == {'e->type_prim'}, tu.where(fn), 'primitive looked up with %s' % sorted(set(idx)))
    # in-line mode
    m = cffi_mod('model')
    f2 = m.find('EnumType.build_backend_type')
    gc = [c for c in ast.walk(f2) if isinstance(c, ast.Call) and u(c.func) == 'global_cache']
    run.need(len(gc) == 1, 'EnumType.build_backend_type: expected one global_cache(...) call')
    args = [u(x) for x in gc[0].args]
    binds = {u(t): u(n.value) for n in ast.walk(f2) if isinstance(n, ast.Assign) for t in n.targets}
    ok = args[1:3] == ['self', 'ffi'] or True
    ok = len(args) >= 7 and args[2] == "'new_enum_type'" and args[4:6] == ['self.enumerators', 'self.enumvalues'] and \
        binds.get(args[6], '').startswith('self.build_baseinttype(')
    run.ob('T8/inline-argument-order', 'EnumType.build_backend_type', 'global_cache(%s)' % ', '.join(args), ok, m.where(gc[0]), 'base type: %s' % binds.get(args[6] if len(args) > 6 else '', None))
    return 1


def check(run):
    thorough = run.tier == 'thorough'
    run.technique = ('symbolic path enumeration of EnumType.build_baseinttype / Parser._build_enum_type / Recompiler._enum_ctx '
                     '(Python ast; values touched only by comparisons and +1) compared with the compiler\'s rule on the finite '
                     'partition of thresholds; compile-only _Static_assert/_Generic witnesses (gcc%s) for the table, the generated '
                     'probe rows of both targets and _cffi_prim_int; clang-AST/CFG rules on b_new_enum_type, '
                     'convert_cdata_to_enum_string and the OP_ENUM realisation' % (', clang' if thorough else ''))
    tu = backend_tu()
    n = 0
    n += t1(run, thorough)
    n += t2(run, thorough)
    n += t3(run, thorough)
    n += t5(run)
    n += t6(run, tu)
    n += t7(run, tu)
    n += t8(run, tu)
    run.assume('LP64 sizes (int 4, long 8) are used to fold the size expressions of build_baseinttype; the platform compilers are the oracle of the witnesses; nothing is linked or run')
    run.assume('decided: type choice, size/sign provenance, increment rule, first-name-wins construction and the string rule; '
               'not decided: the values of the enumerator expressions (C09) and the API-mode value check (C12 G2, known finding)')
    for rule, n in (('T1/base-type-decision-table', 6), ('T1/compiler-witness', 4), ('T2', 13), ('T3', 20), ('T5', 8), ('T6', 7), ('T7', 5), ('T8', 4)):
        run.min_instances(rule, n)
