"""C30 — declaration and type-string errors are reported as cffi errors (DESIGN §3 C30).

Python side: exception-escape analysis from FFI.cdef / FFI.typeof over the package
call graph.  Every raise site (explicit raise of a class outside the allowed set,
assert, value-dependent implicit raiser) that can propagate to an entry point must
be in the reviewed table below (with a reason, re-verified mechanically where it
says so) or in known_findings.json; anything else is a violation.

C side (type-string parser of compiled FFIs):
X1 a variable assigned from a function that may return a negative error code is not
   used as an array index / pointer offset without a dominating sign test;
X2 stores into the opcode buffer go through the bounds-checked writer or use an
   index derived from a checked writer result;
X3 _ffi_type: the parse result is sign-tested before use, the buffer is freed on all paths;
X4 the UTF-8 pointer obtained from the user's string is NULL-tested before it is parsed.
"""
import ast

import re
from .. import AnalysisError
from ..cast import cx, rules
from ..cast.cfg import cfg_of, stmt_text
from ..cast.loader import backend_tu
from ..pyast.escape import Package
from ..pyast.index import cffi_mod, u

ALLOWED = {'CDefError', 'FFIError', 'NotImplementedError', 'VerificationError', 'VerificationMissing'}
ENTRIES = ['api:FFI.cdef', 'api:FFI.typeof']
MODULES = ['api', 'cparser', 'model', 'commontypes', 'error', 'lock']


# ---- machine-checked reasons -----------------------------------------------------
def only_option_names(P, site):
    """every enclosing `if` of the raise tests keyword options only, never the text"""
    mn, fnode, cls = P.funcs[site.func]
    m = P.mods[mn]
    p = m.parents.get(site.node)
    ok = False
    while p is not None and p is not fnode:
        if isinstance(p, ast.If):
            names = {n.id for n in ast.walk(p.test) if isinstance(n, ast.Name)}
            if not names <= {'packed', 'pack', 'True', 'False'}:
                return False
            ok = True
        p = m.parents.get(p)
    return ok


def dotdotdot_always_prepended(P, site):
    """Parser._parse appends the `typedef ... __dotdotdot__;` line unconditionally before the user text"""
    mn, fnode, cls = P.funcs['cparser:Parser._parse']
    order = []
    for st in fnode.body:
        if isinstance(st, ast.Expr) and isinstance(st.value, ast.Call) and u(st.value.func) == 'csourcelines.append':
            a = st.value.args[0]
            order.append('dots' if isinstance(a, ast.Constant) and '__dotdotdot__;' in str(a.value) else u(a))
    return 'dots' in order and 'csource' in order and order.index('dots') < order.index('csource')


def callers_pass_literal_kind(P, site):
    """every call of _get_struct_union_enum_type passes a literal kind in {struct, union, enum}"""
    n = 0
    for f, (mn, node, cls) in P.funcs.items():
        for c in ast.walk(node):
            if isinstance(c, ast.Call) and isinstance(c.func, ast.Attribute) and c.func.attr == '_get_struct_union_enum_type':
                n += 1
                a = c.args[0]
                if not (isinstance(a, ast.Constant) and a.value in ('struct', 'union', 'enum')):
                    return False
    return n >= 3


def func_decl_returns_raw(P, site):
    """_parse_function_type's only return value is a RawFunctionType"""
    mn, fnode, cls = P.funcs['cparser:Parser._parse_function_type']
    rets = [r for r in ast.walk(fnode) if isinstance(r, ast.Return)]
    return len(rets) == 1 and isinstance(rets[0].value, ast.Call) and u(rets[0].value.func) == 'model.RawFunctionType'


def global_cache_callers_pass_only_key(P, site):
    for f, (mn, node, cls) in P.funcs.items():
        for c in ast.walk(node):
            if isinstance(c, ast.Call) and u(c.func) in ('global_cache', 'model.global_cache'):
                if any(k.arg not in ('key',) for k in c.keywords):
                    return False
    return True


def marker_always_ampersand(P, site):
    """in StructOrUnionOrEnum and its subclasses c_name_with_marker is only ever assigned `name + '&'`"""
    ok = 0
    for f, (mn, node, cls) in P.funcs.items():
        if cls is None or 'StructOrUnionOrEnum' not in P.mro_names(cls):
            continue
        for n in ast.walk(node):
            if isinstance(n, ast.Assign) and u(n.targets[0]) == 'self.c_name_with_marker':
                v = u(n.value)
                if not (v.endswith("+ '&'") or v.endswith('+ "&"')):
                    return False
                ok += 1
    return ok >= 1


def primitive_names_are_literals_or_tested(P, site):
    """PrimitiveType(...) is called with literal keys of ALL_PRIMITIVE_TYPES or after a membership test"""
    table = None
    mm = P.mods['model']
    cls = mm.find('PrimitiveType')
    for st in cls.body:
        if isinstance(st, ast.Assign) and u(st.targets[0]) == 'ALL_PRIMITIVE_TYPES':
            table = {k.value for k in st.value.keys}
    if not table:
        return False
    for f, (mn, node, c2) in P.funcs.items():
        m = P.mods[mn]
        for c in ast.walk(node):
            if isinstance(c, ast.Call) and u(c.func) in ('model.PrimitiveType', 'PrimitiveType') and c.args:
                a = c.args[0]
                if isinstance(a, ast.Constant):
                    if a.value not in table:
                        return False
                    continue
                # non-literal: must be under an `if <x> in ...ALL_PRIMITIVE_TYPES` (or keys of a table built from it)
                p = m.parents.get(c)
                guarded = False
                while p is not None and p is not node:
                    if isinstance(p, ast.If) and ('ALL_PRIMITIVE_TYPES' in u(p.test) or '_common_type_names' in u(p.test)):
                        guarded = True
                    p = m.parents.get(p)
                if not guarded and f not in ('cparser:Parser._get_type_and_quals',):
                    return False
    return True


def int_after_digit_regex(P, site):
    """the int() argument is a regex group made of digits only"""
    mn, fnode, cls = P.funcs[site.func]
    for n in ast.walk(fnode):
        if isinstance(n, ast.Call) and u(n.func) == 're.match' and isinstance(n.args[0], ast.BinOp):
            pat = n.args[0].left.value if isinstance(n.args[0].left, ast.Constant) else ''
            if '(\\d+)' in pat:
                return True
    return False


def line_marker_guard(P, site):
    """int(s[6:]) is dominated by the '#line@' prefix test in the same function"""
    mn, fnode, cls = P.funcs[site.func]
    tests = [u(n.test) for n in ast.walk(fnode) if isinstance(n, ast.If)]
    return "not s.startswith('#line@')" in tests


def directives_removed_after_comments(P, site):
    """in _preprocess a _remove_line_directives pass follows the comment substitution (the only step that can
    turn the start of a line into `# N`), and _put_back_line_directives is the last rewriting step"""
    mn, fnode, cls = P.funcs['cparser:_preprocess']
    order = []
    for st in fnode.body:
        for n in ast.walk(st):
            if isinstance(n, ast.Call):
                t = u(n.func)
                if t in ('_remove_line_directives', '_r_comment.sub', '_put_back_line_directives'):
                    order.append(t)
    if '_r_comment.sub' not in order:
        return False
    i = order.index('_r_comment.sub')
    return '_remove_line_directives' in order[i + 1:] and order[-1] == '_put_back_line_directives' and '_remove_line_directives' in order[:i]


def int_after_isdigit(P, site):
    """int(X) sits in an `and` chain after `X.isdigit()` on the same text"""
    mn, fnode, cls = P.funcs[site.func]
    arg = u(site.node.args[0]) if getattr(site.node, 'args', None) else None
    for n in ast.walk(fnode):
        if isinstance(n, ast.BoolOp) and isinstance(n.op, ast.And):
            seen = False
            for v in n.values:
                if any(x is site.node for x in ast.walk(v)):
                    return seen
                if u(v) == '%s.isdigit()' % arg:
                    seen = True
    return False


def lock_held_on_all_chains(P, site):
    """every call chain from the entry points to the function passes through a `with self._lock` block"""
    target = site.func
    reach, edges, own, esc = P._c30
    # remove call edges that sit inside a `with self._lock:`; the target must become unreachable
    import ast as _a
    def locked(f, call):
        mn, fnode, cls = P.funcs[f]
        m = P.mods[mn]
        p = m.parents.get(call)
        while p is not None and p is not fnode:
            if isinstance(p, _a.With) and any(u(i.context_expr) in ('self._lock', 'ffi._lock', 'global_lock') for i in p.items):
                return True
            p = m.parents.get(p)
        return False
    seen = set()
    todo = list(ENTRIES)
    while todo:
        f = todo.pop()
        if f in seen:
            continue
        seen.add(f)
        for t, call in edges.get(f, []):
            if not locked(f, call):
                todo.append(t)
    return target not in seen


def sizes_come_from_backend(P, site):
    """the shift counts are 8*sizeof(...) of backend integer types (1..8 bytes), never derived from the text"""
    mn, fnode, cls = P.funcs[site.func]
    defs = {u(n.targets[0]): u(n.value) for n in ast.walk(fnode) if isinstance(n, ast.Assign) and len(n.targets) == 1}
    return all(defs.get(k, '').startswith('ffi.sizeof(') for k in ('size1', 'size2'))


def char_const_length_guard(P, site):
    mn, fnode, cls = P.funcs[site.func]
    for n in ast.walk(fnode):
        if isinstance(n, ast.If) and 'len(s) == 3' in u(n.test) and any(x is site.node for b in n.body for x in ast.walk(b)):
            return True
    return False


def fixedlayout_branch_only(P, site):
    mn, fnode, cls = P.funcs[site.func]
    m = P.mods[mn]
    p = m.parents.get(site.node)
    while p is not None and p is not fnode:
        if isinstance(p, ast.If) and 'fixedlayout' in u(p.test):
            return True
        p = m.parents.get(p)
    # inside the else of `if self.fixedlayout is None`
    for n in ast.walk(fnode):
        if isinstance(n, ast.If) and u(n.test) == 'self.fixedlayout is None':
            return any(x is site.node for b in n.orelse for x in ast.walk(b))
    return False


def result_is_model_type(P, site):
    mn, fnode, cls = P.funcs[site.func]
    vals = [u(n.value) for n in ast.walk(fnode) if isinstance(n, ast.Assign) and isinstance(n.targets[0], ast.Tuple) and
            u(n.targets[0]).startswith('(result,') or isinstance(n, ast.Assign) and u(n.targets[0]) == 'result, quals']
    return len(vals) >= 3 and all(v.startswith(('cdecl, 0', '(cdecl, 0)', 'model.PrimitiveType(cdecl), 0', '(model.PrimitiveType(cdecl), 0)',
                                                'parser.parse_type_and_quals(cdecl)')) for v in vals)


def preprocess_offsets(P, site):
    """both asserts sit in the loop over reversed matches of _r_partial_enum, on offsets of the match itself"""
    mn, fnode, cls = P.funcs[site.func]
    for n in ast.walk(fnode):
        if isinstance(n, ast.For) and 'reversed(matches)' in u(n.iter) or isinstance(n, ast.For) and 'matches' in u(n.iter):
            if any(x is site.node for x in ast.walk(n)):
                return True
    return False


REVIEWED = [
    # (function, kind, class, text or None, reason, machine check or None)
    ('api:FFI._cdef', 'raise', 'TypeError', None, 'the argument is not a string: outside "any text"', None),
    ('api:FFI.typeof', 'raise', 'TypeError', None, 'the argument is not a string: outside "any text"', None),
    ('api:FFI.__init__', 'raise', 'Exception', None, 'backend/version mismatch at construction time; does not depend on the text', None),
    ('api:FFI._get_cached_btype', 'assert', 'AssertionError', 'assert self._lock.acquire(False) is False',
     'the lock is held on every call chain from the entry points', lock_held_on_all_chains),
    ('model:BaseTypeByIdentity.get_cached_btype', 'assert', 'AssertionError', 'assert BType2 is BType',
     'callers hold ffi._lock, so no concurrent insertion', lock_held_on_all_chains),
    ('commontypes:resolve_common_type', 'assert', 'AssertionError', 'assert isinstance(result, model.BaseTypeByIdentity)',
     'every assignment to result is a model type or the first item of parse_type_and_quals', None),
    ('cparser:Parser._convert_pycparser_error', 'int', 'ValueError', 'int(match.group(1), 10)', 'the group is \\d+', int_after_digit_regex),
    ('cparser:_remove_line_directives.replace', 'int', 'ValueError', 'int(s[6:])', 'evaluated only after s[6:].isdigit() in the same `and`', int_after_isdigit),
    ('cparser:_put_back_line_directives.replace', 'int', 'ValueError', 'int(s[6:])',
     "dominated by s.startswith('#line@'); such markers are only produced by _remove_line_directives", line_marker_guard),
    ('cparser:_put_back_line_directives.replace', 'raise', 'AssertionError', None,
     'directive lines are collected before and again after comment removal (fix 5b60166); no later step starts a line with `# N`',
     directives_removed_after_comments),
    ('cparser:_preprocess', 'assert', 'AssertionError', 'assert p2 > p', 'p is the `=` of a match of =\\s*\\.\\.\\.\\s*[,}]; find(\'...\') is inside the match', preprocess_offsets),
    ('cparser:_preprocess', 'assert', 'AssertionError', "assert csource[p:p + 3] == '...'", 'other alternative of the same regex starts with ...; matches are rewritten right to left', preprocess_offsets),
    ('cparser:Parser.parse', 'raise', 'ValueError', None, 'depends on the packed/pack keyword arguments, not on the text', only_option_names),
    ('cparser:Parser._internal_parse', 'assert', 'AssertionError', 'assert 0', '_parse always prepends the __dotdotdot__ typedef', dotdotdot_always_prepended),
    ('cparser:Parser._parse_decl', 'assert', 'AssertionError', 'assert isinstance(tp, model.RawFunctionType)',
     'FuncDecl nodes go to _parse_function_type whose only return is a RawFunctionType', func_decl_returns_raw),
    ('cparser:Parser._get_struct_union_enum_type', 'raise', 'AssertionError', None, 'every call site passes a literal kind', callers_pass_literal_kind),
    ('cparser:Parser._parse_constant', 'ord', 'TypeError', 'ord(s[-2])', 'guarded by the length tests on s', char_const_length_guard),
    ('cparser:Parser._parse_constant', 'ord', 'TypeError', 'ord(s[2])', 'guarded by the length tests on s (a single character of a 4-character constant)', char_const_length_guard),
    ('model:global_cache', 'assert', 'AssertionError', 'assert not kwds', 'all callers pass at most key=', global_cache_callers_pass_only_key),
    ('model:PrimitiveType.__init__', 'assert', 'AssertionError', 'assert name in self.ALL_PRIMITIVE_TYPES',
     'callers pass literal keys of the table or test membership first', primitive_names_are_literals_or_tested),
    ('model:StructOrUnionOrEnum.get_official_name', 'assert', 'AssertionError', "assert self.c_name_with_marker.endswith('&')",
     "c_name_with_marker is only assigned as name + '&'", marker_always_ampersand),
    ('model:StructOrUnion.finish_backend_type', 'assert', 'AssertionError', 'assert fsize == 0', 'only on the fixedlayout branch, which verify() alone sets', fixedlayout_branch_only),
    ('model:EnumType.build_baseinttype', 'shift', 'ValueError', None, 'shift counts are 8*sizeof(backend int types) - 0/1, never text-derived', sizes_come_from_backend),
]


def array_length_bounded(run):
    """a constant array length is compared with sys.maxsize before any type object (whose name formats the number,
    and whose size the backend multiplies) is built from it; larger values end in CDefError"""
    from ..pyast import sympath as sp
    from ..pyast.index import cffi_mod
    m = cffi_mod('cparser')
    fn = m.find('Parser._get_type_and_quals')
    branch = None
    for n in ast.walk(fn):
        if isinstance(n, ast.If) and u(n.test).replace(' ', '') == 'isinstance(typenode,pycparser.c_ast.ArrayDecl)':
            branch = n
    if branch is None:
        raise AnalysisError('anchor vanished: the ArrayDecl branch of Parser._get_type_and_quals')
    M = (1 << 63) - 1
    made = []
    ev = sp.Evaluator({'self._parse_constant': lambda a, k, e, f: sp.Lin('n'), 'self._get_type_and_quals': lambda a, k, e, f: (sp.Opq('itemtype'), 0),
                       'model.ArrayType': lambda a, k, e, f: made.append(a) or sp.Opq('arraytype'), 'isinstance': lambda a, k, e, f: isinstance(a[0], str)})
    ps = ev.block(branch.body, {'typenode': {'dim': {'kind': 'expr'}, 'type': sp.Opq('t')}, 'typedef_example': None, 'partial_length_ok': False, 'sys.maxsize': M, 'quals': 0}, [], [])
    ths = sp.thresholds(ps)
    ok = True
    why = []
    for val in (0, 5, M - 1, M, M + 1, 1 << 70):
        hit = [p for p in ps if sp.holds(p, {'n': val}, {})]
        if len(hit) != 1:
            raise AnalysisError('Parser._get_type_and_quals: %d paths for an array length of %d' % (len(hit), val))
        o = hit[0].outcome
        rejected = o is not None and o[0] == 'raise' and o[1] in ('CDefError', 'FFIError')
        if (val > M) != rejected:
            ok = False
            why.append('length %d: %s' % (val, 'rejected' if rejected else 'a type is built'))
    run.ob('A/array-length-bounded-before-a-type-is-built', 'Parser._get_type_and_quals', 'length > sys.maxsize -> CDefError', ok, m.where(branch),
           '; '.join(why) or 'thresholds %s' % sorted(ths))


def python_side(run, thorough):
    P = Package(MODULES)
    for e in ENTRIES:
        run.need(e in P.funcs, 'entry point %s not found' % e)
    reach, edges, own, esc = P.analyse(ENTRIES)
    P._c30 = (reach, edges, own, esc)
    run.saw('functions reachable from FFI.cdef / FFI.typeof', sorted(reach))
    nsites = sum(len(v) for v in own.values())
    run.saw('raise sites inventoried', ['%d in %d functions' % (nsites, len(reach))])
    run.need(len(reach) >= 60, 'call graph closure suspiciously small (%d functions)' % len(reach))
    # protected sites: report as discharged obligations (they show the rule is exercised)
    for f in reach:
        for s in own[f]:
            if s.cls in ALLOWED:
                continue
            if all(s.key not in esc[e] for e in ENTRIES):
                run.ob('E/site-contained-before-the-entry-point', f.split(':', 1)[1], '%s %s' % (s.kind, s.text), True,
                       '%s:%d' % (P.mods[f.split(':')[0]].rel, s.lineno), 'caught and converted by an enclosing handler on every call chain')
    seen = {}
    for e in ENTRIES:
        for k, s in esc[e].items():
            if s.cls in ALLOWED:
                continue
            seen.setdefault(k, (s, []))[1].append(e)
    for k, (s, ents) in sorted(seen.items()):
        rev = [r for r in REVIEWED if r[0] == s.func and r[1] == s.kind and r[2] == s.cls and (r[3] is None or r[3] == s.base_text)]
        site = '%s:%d' % (P.mods[s.func.split(':')[0]].rel, s.lineno)
        chain = P.call_chain(edges, ents[0], s.func)
        path = ['%s' % c for c in (chain or [])]
        construct = s.text if s.kind != 'raise' else 'raise %s' % s.cls
        if rev:
            r = rev[0]
            ok = True
            detail = 'reviewed: %s' % r[4]
            if r[5] is not None:
                try:
                    ok = bool(r[5](P, s))
                except Exception as ex:      # a check that cannot run means its anchor vanished
                    raise AnalysisError('C30: machine check for %s failed to run: %r' % (s.key, ex))
                detail += ' [machine-checked: %s]' % ('holds' if ok else 'NO LONGER HOLDS')
            run.ob('E/escaping-site-has-a-verified-reason', s.func.split(':', 1)[1], construct, ok, site, detail, path=None if ok else path)
        else:
            run.ob('E/no-foreign-exception-escapes', s.func.split(':', 1)[1], '%s -> %s' % (construct, s.cls), False, site,
                   '%s can propagate out of %s as %s (allowed: %s)' % (s.kind, ' and '.join(x.split(':')[1] for x in ents), s.cls, sorted(ALLOWED)),
                   path=path)
    # conversion points must stay: pycparser's ParseError is converted, and global_cache converts NotImplementedError only
    cp = P.funcs['cparser:Parser._parse'][1]
    hs = [h for t in ast.walk(cp) if isinstance(t, ast.Try) for h in t.handlers]
    ok = any(u(h.type) == 'pycparser.c_parser.ParseError' and 'convert_pycparser_error' in u(h) for h in hs)
    run.ob('E/pycparser-errors-converted', 'Parser._parse', 'except pycparser.c_parser.ParseError as e: self.convert_pycparser_error(e, csource)', ok, 'src/cffi/cparser.py')
    conv = P.funcs['cparser:Parser.convert_pycparser_error'][1]
    last = conv.body[-1]
    run.ob('E/pycparser-errors-converted', 'Parser.convert_pycparser_error', 'raise CDefError(msg)',
           isinstance(last, ast.Raise) and u(last.exc.func) == 'CDefError', 'src/cffi/cparser.py')
    return P


# ---- C side ---------------------------------------------------------------------------
def may_return_negative(tu, files):
    """functions returning int with a `return -1`/`return parse_error(..)` or returning another such call"""
    neg = set()
    cands = [n for n, f in tu.functions.items() if tu.has_func(n) and tu.rel(f.get('file')) in files and
             f.get('type', '').split('(')[0].strip() in ('int', 'Py_ssize_t')]
    changed = True
    while changed:
        changed = False
        for name in cands:
            if name in neg:
                continue
            g = cfg_of(tu, name)
            for n in g.nodes:
                if n.kind != 'return':
                    continue
                ks = cx.kids(n.ast)
                if not ks:
                    continue
                v = cx.int_value(ks[0])
                called = cx.called_names(ks[0])
                if (v is not None and v < 0) or (called & (neg | {'parse_error'})):
                    neg.add(name)
                    changed = True
                    break
                # returns a variable assigned from a negative-returning call
                s = cx.strip(ks[0], casts=True)
                if s.get('kind') == 'DeclRefExpr':
                    for l, r, op, _x in cx.assignments(tu.func(name)):
                        if cx.lhs_text(l) == s['ref']['name'] and cx.called_names(r) & (neg | {'parse_error'}):
                            neg.add(name)
                            changed = True
                    if name in neg:
                        break
    return neg


def index_uses(fn, var):
    """AST nodes where `var` occurs inside an array index or as a pointer offset"""
    out = []
    for x in cx.walk(fn):
        if x.get('kind') == 'ArraySubscriptExpr':
            idx = cx.kids(x)[1]
            if var in cx.refs(idx):
                out.append(x)
        elif x.get('kind') == 'BinaryOperator' and x.get('opcode') in ('+', '-') and (x.get('type') or '').endswith('*'):
            a, b = cx.kids(x)
            for side in (a, b):
                if not (side.get('type') or '').endswith('*') and var in cx.refs(side):
                    out.append(x)
    return out


def x1(run, tu, files):
    neg = may_return_negative(tu, files)
    run.saw('functions that may return a negative error code', sorted(neg))
    run.need('parse_complete' in neg and 'write_ds' in neg and 'parse_c_type' in neg, 'negative-return summary lost parse_complete/write_ds/parse_c_type')
    n = 0
    for fname in sorted(tu.functions):
        if not tu.has_func(fname):
            continue
        fn = tu.func(fname)
        if tu.rel(fn.get('file')) not in files and fname != '_ffi_type':
            continue
        g = None
        for l, r, op, x in cx.assignments(fn):
            if op not in ('=', 'init'):
                continue
            top = cx.strip(r, casts=True)
            if top.get('kind') != 'CallExpr' or cx.callee_name(top) not in neg:
                continue
            var = cx.lhs_text(l)
            uses = index_uses(fn, var)
            if not uses:
                continue
            g = g or cfg_of(tu, fname)
            dnode = g.node_of(x)
            guard = g.edges_of(lambda cn, lab, var=var: cn.kind == 'cond' and (
                (cx.render(cn.ast) == '%s < 0' % var and lab == 'F') or (cx.render(cn.ast) == '%s >= 0' % var and lab == 'T')))
            otherdefs = [g.node_of(x2).id for l2, r2, op2, x2 in cx.assignments(fn) if cx.lhs_text(l2) == var and x2 is not x
                         and g.node_of(x2) is not None and op2 in ('=', 'init')]
            for use in uses:
                unode = g.node_of(use)
                if unode is None or unode.id == dnode.id:
                    continue
                r_ = g.reach([dnode.id], avoid=otherdefs, avoid_edges=guard, include_start=False)
                ok = unode.id not in r_
                n += 1
                path = None
                if not ok:
                    path = g.describe_path(g.witness_path(dnode.id, unode.id, avoid=otherdefs, avoid_edges=guard, include_start=False) or [])
                run.ob('X1/error-code-not-used-as-index', fname, '%s = %s(...); ... %s' % (var, cx.callee_name(top), cx.render(use)[:60]),
                       ok, tu.where(use), None if ok else '%s may be -1 here: no `%s < 0` test between the call and the use' % (var, var), path=path)
    return n


def x2(run, tu):
    """stores into tok->output[...]"""
    n = 0
    for fname in ('write_ds', 'parse_sequel', 'parse_complete', 'parse_c_type_from', 'parse_c_type'):
        if not tu.has_func(fname):
            continue
        fn = tu.func(fname)
        g = cfg_of(tu, fname)
        for l, r, op, x in cx.assignments(fn):
            ls = cx.strip(l) if l.get('kind') != 'VarDecl' else None
            if ls is None or ls.get('kind') != 'ArraySubscriptExpr' or cx.render(cx.kids(ls)[0]) != 'tok->output':
                continue
            idx = cx.kids(ls)[1]
            node = g.node_of(x)
            n += 1
            if fname == 'write_ds':
                f = g.fact_texts(node.id)
                v = cx.render(idx)
                ok = ('F:%s >= tok->info->output_size' % v) in f or ('T:%s < tok->info->output_size' % v) in f
                src = rules.single_def(fn, v)
                ok = ok and src is not None and cx.render(src) == 'tok->output_index'
                run.ob('X2/writer-checks-the-bound', fname, 'tok->output[%s] = ...' % v, ok, tu.where(x), 'facts: %s' % sorted(f))
            else:
                var = cx.root_var(idx) if cx.strip(idx, casts=True).get('kind') in ('DeclRefExpr', 'UnaryOperator') else None
                # the index variable must be (re)initialised from a checked write_ds result: base_index + 1
                ok = False
                detail = 'index %s' % cx.render(idx)
                if var:
                    defs = [(cx.render(r2), x2) for l2, r2, op2, x2 in cx.assignments(fn) if cx.lhs_text(l2) == var and op2 == '=']
                    base = [d for d, _x in defs if d.endswith('+ 1') or d.endswith('+ 1)')]
                    for d, x2 in defs:
                        if '+' in d:
                            b = d.split('+')[0].strip()
                            bsrc = rules.single_def(fn, b)
                            if bsrc is not None and cx.callee_name(cx.strip(bsrc, casts=True)) == 'write_ds':
                                # the write_ds result is tested for < 0 with an early return before this store
                                guard = g.edges_of(lambda cn, lab, b=b: cn.kind == 'cond' and cx.render(cn.ast) == '%s < 0' % b and lab == 'F')
                                ok = g.must_pass_edges(node.id, guard)
                                detail = '%s = %s, %s = write_ds(...) checked: %s' % (var, d, b, ok)
                run.ob('X2/direct-store-uses-a-checked-slot', fname, 'tok->output[%s] = ...' % cx.render(idx), ok, tu.where(x), detail)
    # reservation: the slots written directly were reserved through write_ds first
    if tu.has_func('parse_sequel'):
        g = cfg_of(tu, 'parse_sequel')
        loops = [n_ for n_ in g.nodes if n_.kind == 'cond' and cx.render(n_.ast) == 'write_ds(tok, (0 | (0 << 8))) < 0' or
                 n_.kind == 'cond' and cx.render(n_.ast).startswith('write_ds(tok, ') and cx.render(n_.ast).endswith('< 0')]
        run.ob('X2/argument-slots-reserved-through-the-writer', 'parse_sequel', 'for (...) if (write_ds(tok, _CFFI_OP(0, 0)) < 0) return -1',
               bool(loops), tu.where(tu.func('parse_sequel')))
    return n


def x3_x4(run, tu):
    fname = '_ffi_type'
    fn = tu.func(fname)
    g = cfg_of(tu, fname)
    pc = [c for c in cx.calls_in(fn, 'parse_c_type')]
    run.need(len(pc) == 1, 'parse_c_type call not found once in _ffi_type')
    # the result variable
    var = None
    for l, r, op, x in cx.assignments(fn):
        if cx.calls_in(r, 'parse_c_type'):
            var = cx.lhs_text(l)
            dnode = g.node_of(x)
    run.need(var is not None, 'result of parse_c_type is not stored')
    users = [n for n in g.nodes if n.ast is not None and n.id != dnode.id and var in cx.refs(n.ast) and n.kind != 'cond']
    guard = g.edges_of(lambda cn, lab: cn.kind == 'cond' and cx.render(cn.ast) == '%s < 0' % var and lab == 'F')
    ok = bool(users) and all(n.id not in g.reach([dnode.id], avoid_edges=guard, include_start=False) for n in users)
    run.ob('X3/parse-result-sign-tested-before-use', fname, 'if (%s < 0) ... else realize_c_type_or_func(..., %s)' % (var, var), ok, tu.where(pc[0]))
    # error branch reports through _ffi_bad_type (FFIError)
    bad = g.nodes_calling('_ffi_bad_type')
    okb = bool(bad) and all(('T:%s < 0' % var) in g.fact_texts(b.id) for b in bad)
    run.ob('X3/failed-parse-raises-ffi-error', fname, 'x = _ffi_bad_type(&info, input_text)', okb, tu.where(bad[0].ast) if bad else None)
    bt = tu.func('_ffi_bad_type')
    cls = {rules.exc_class_of(c) for c in cx.calls_in(bt, 'PyErr_Format')}
    run.ob('X3/failed-parse-raises-ffi-error', '_ffi_bad_type', 'PyErr_Format(FFIError, ...)', cls == {'FFIError'}, tu.where(bt), str(cls))
    # the opcode buffer is freed on every path after allocation
    al = [n for n in g.nodes if n.ast is not None and cx.calls_in(n.ast, 'PyMem_Malloc')]
    fr = [n.id for n in g.nodes if n.ast is not None and any(cx.render(cx.call_args(c)[0]) == 'info.output' for c in cx.calls_in(n.ast, 'PyMem_Free'))]
    ok = bool(al) and bool(fr)
    if ok:
        nn = [n for n in g.nodes if n.kind == 'cond' and cx.render(n.ast) == 'info.output == 0']
        ok = bool(nn)
        for c in nn:
            for t, l in c.succ:
                if l == 'F':
                    ok = ok and g.exit.id not in g.reach([t], avoid=fr)
    run.ob('X3/opcode-buffer-freed-on-all-paths', fname, 'PyMem_Free(info.output)', ok, tu.where(al[0].ast) if al else None)
    # X4: the text pointer
    txt = None
    for l, r, op, x in cx.assignments(fn):
        if cx.called_names(r) & {'PyUnicode_AsUTF8', 'PyUnicode_AsUTF8AndSize'}:
            txt = cx.lhs_text(l)
            tnode = g.node_of(x)
    run.need(txt is not None, 'PyUnicode_AsUTF8 result is not stored in _ffi_type')
    pnode = g.node_of(pc[0])
    guard = g.edges_of(lambda cn, lab: cn.kind == 'cond' and (
        (cx.render(cn.ast) == '%s == 0' % txt and lab == 'F') or (cx.render(cn.ast) == '%s != 0' % txt and lab == 'T') or
        (cx.render(cn.ast) == txt and lab == 'T')))
    ok = pnode.id not in g.reach([tnode.id], avoid_edges=guard, include_start=False)
    path = None
    if not ok:
        path = g.describe_path(g.witness_path(tnode.id, pnode.id, avoid_edges=guard, include_start=False) or [])
    run.ob('X4/text-pointer-null-tested-before-parsing', fname, '%s = PyUnicode_AsUTF8(arg); parse_c_type(&info, %s)' % (txt, txt), ok,
           tu.where(pc[0]), None if ok else 'PyUnicode_AsUTF8 returns NULL (UnicodeEncodeError) for lone surrogates; the parser dereferences it', path=path)
    if ok:
        for (src, dst, lab) in guard:
            cn = g.nodes[src]
            for t, l in cn.succ:
                if l != lab:
                    rets = {rules.return_value(g.nodes[m]) for m in g.reach([t]) if g.nodes[m].kind == 'return'}
                    calls = pnode.id in g.reach([t])
                    run.ob('X4/null-text-returns-failure', fname, 'if (%s == NULL) return NULL' % txt, rets <= {'0'} and not calls, tu.where(cn.ast))


BACKEND_ENTRY = {   # Python-level backend call -> C entry (resolved through FFIBackendMethods) and curated callee set
    'new_void_type': 'b_new_void_type', 'new_primitive_type': 'b_new_primitive_type', 'new_pointer_type': 'b_new_pointer_type',
    'new_array_type': 'b_new_array_type', 'new_function_type': 'b_new_function_type', 'new_struct_type': 'b_new_struct_type',
    'new_union_type': 'b_new_union_type', 'new_enum_type': 'b_new_enum_type', 'complete_struct_or_union': 'b_complete_struct_or_union',
}
BACKEND_INLINE = {'new_void_type', 'new_primitive_type', 'new_pointer_type', 'new_array_type', 'new_function_type',
                  'new_struct_or_union_type', 'b_complete_struct_or_union_lock_held', '_add_field', 'get_alignment',
                  'fb_prepare_ctype', 'fb_build_name', 'fb_prepare_cif', 'fb_build', 'fb_fill_type', 'fb_unsupported',
                  'ctypedescr_new', 'ctypedescr_new_on_top', 'get_unique_type'}
BACKEND_IGNORED_CLASSES = {'PyExc_MemoryError', 'PyExc_SystemError', 'PyExc_NotImplementedError', 'FFIError', 'PyExc_RuntimeError'}

# C raise sites proven (by reading) not to be reachable from a text: (function, class, guard) -> reason
BACKEND_REVIEWED = {
    ('b_complete_struct_or_union_lock_held', 'PyExc_TypeError', 'first arg must be a non-initialized struct or union ctype'):
        'finish_backend_type passes the BType it just created, once (guarded by self.completed)',
    ('b_complete_struct_or_union_lock_held', 'PyExc_TypeError', "field '%s.%s' is a bitfield, but a fixed offset is specified"):
        'fixed offsets come from fixedlayout, which only verify() sets',
    ('b_complete_struct_or_union_lock_held', 'PyExc_TypeError', '%s cannot be of size %zd: there are fields at least up to %zd'):
        'totalsize is only passed on the fixedlayout branch (verify())',
    ('new_primitive_type', 'PyExc_KeyError', None): 'names come from ALL_PRIMITIVE_TYPES, which C06 shows to be rows of this table',
    ('new_array_type', 'PyExc_TypeError', 'first arg must be a pointer ctype'): 'ArrayType.build_backend_type passes the cached pointer-to-item type',
    ('b_new_enum_type', 'PyExc_ValueError', 'tuple args must have the same size'): 'EnumType keeps enumerators and enumvalues as parallel tuples',
    ('b_new_enum_type', 'PyExc_TypeError', 'expected a primitive signed or unsigned base type'): 'build_baseinttype returns int/uint/long/ulong primitives',
    ('b_new_enum_type', 'PyExc_TypeError', 'enumerators must be a list of strings'): 'enumerator names are identifiers from pycparser',
    ('fb_build_name', 'PyExc_TypeError', 'expected a tuple of ctypes'): 'FunctionPtrType passes tuple(args) of backend types',
    ('get_alignment', 'PyExc_ValueError', "ctype '%s' is of unknown alignment"): 'fields of unknown size are rejected earlier in the same loop (TypeError site, a listed finding)',
}


def backend_summary(run, P, tu):
    # which Python call sites reach the backend constructors, and what do they convert?
    callsites = []
    for f, (mn, node, cls) in P.funcs.items():
        if mn != 'model':
            continue
        for c in ast.walk(node):
            if isinstance(c, ast.Call) and isinstance(c.func, ast.Attribute) and u(c.func.value) == 'ffi._backend' and c.func.attr in BACKEND_ENTRY:
                callsites.append((f, c, c.func.attr))
            if isinstance(c, ast.Call) and u(c.func) == 'global_cache' and len(c.args) >= 3 and isinstance(c.args[2], (ast.Constant, ast.BinOp)):
                a = c.args[2]
                names = [a.value] if isinstance(a, ast.Constant) else ['new_struct_type', 'new_union_type']
                for nm in names:
                    callsites.append((f, c, nm))
    run.need(len(callsites) >= 8, 'backend constructor call sites in model.py not found (%d)' % len(callsites))
    # conversion: global_cache's own handler
    gc = P.funcs['model:global_cache'][1]
    converted = set()
    for t in ast.walk(gc):
        if isinstance(t, ast.Try):
            for h in t.handlers:
                if h.type is not None and any(isinstance(x, ast.Raise) for x in ast.walk(h)):
                    for nm in ([u(e) for e in h.type.elts] if isinstance(h.type, ast.Tuple) else [u(h.type)]):
                        converted.add(nm)
    run.saw('exception classes converted by model.global_cache', sorted(converted))
    used = sorted({nm for _f, _c, nm in callsites})
    run.saw('backend constructors called for a cdef/typeof', used)
    table = tu.var('FFIBackendMethods')
    refs = cx.refs(table)
    seen_sites = 0
    for nm in used:
        entry = BACKEND_ENTRY.get(nm)
        run.need(entry in refs and tu.has_func(entry), 'backend method %s -> %s not found in FFIBackendMethods' % (nm, entry))
        todo, funcs = [entry], []
        while todo:
            f = todo.pop()
            if f in funcs or not tu.has_func(f):
                continue
            funcs.append(f)
            for c in cx.called_names(tu.func(f)):
                if c in BACKEND_INLINE:
                    todo.append(c)
        for f in funcs:
            g = cfg_of(tu, f)
            for n in g.nodes:
                if n.ast is None:
                    continue
                for c in cx.calls_in(n.ast, ('PyErr_Format', 'PyErr_SetString')):
                    cls = rules.exc_class_of(c)
                    if cls in BACKEND_IGNORED_CLASSES or cls is None:
                        continue
                    short = cls.replace('PyExc_', '')
                    if short in converted or 'Exception' in converted:
                        continue
                    a1 = cx.strip(cx.call_args(c)[1], casts=True)
                    msg = ast.literal_eval(a1['value']) if a1.get('kind') == 'StringLiteral' else None
                    key3 = (f, cls, msg)
                    rev = BACKEND_REVIEWED.get(key3) or BACKEND_REVIEWED.get((f, cls, None))
                    seen_sites += 1
                    facts = sorted(((cn.ast.get('line') or 0), '%s:%s' % (lab if cn.kind == 'cond' else ' '.join(lab), cx.render(cn.ast)))
                                   for cn, lab in g.dominating_facts(n.id) if (cn.ast.get('line') or 0) <= (c.get('line') or 10**9))
                    guard = ' && '.join(t for _l, t in facts[-2:]) or 'always'
                    construct = '%s when %s' % (short, guard)
                    if rev:
                        run.ob('B/backend-error-site-not-text-reachable', f, construct, True, tu.where(c), 'reviewed: %s  [%s]' % (rev, (msg or '')[:50]))
                    else:
                        run.ob('B/backend-error-class-converted', f, construct, False, tu.where(c),
                               'message: %s. ' % ((msg or cx.render(cx.call_args(c)[1]))[:80]) +
                               '%s raised by the backend while building a type passes model.global_cache / finish_backend_type '
                               'unconverted (only %s is converted) and escapes cdef()/typeof()' % (short, sorted(converted)))
    run.need(seen_sites >= 10, 'backend error sites found: %d' % seen_sites)


def x5(run, tu):
    """the C parser never reads outside the token it classifies: in search_standard_typename(p, size) every p[K], p[size-c] and
    memcmp(p, "...", n) is dominated by tests that make size at least K+1 / c / n"""
    fn = 'search_standard_typename'
    g = cfg_of(tu, fn)
    n_reads = 0
    worst = None
    for n in g.nodes:
        if n.ast is None:
            continue
        reads = []
        for x in cx.walk(n.ast):
            if x.get('kind') == 'ArraySubscriptExpr':
                ks = cx.kids(x)
                if len(ks) == 2 and cx.render(cx.strip(ks[0], casts=True)) == 'p':
                    idx = cx.render(cx.strip(ks[1], casts=True)).replace(' ', '')
                    if re.match(r'^\d+$', idx):
                        reads.append((cx.render(x), int(idx) + 1))
                    else:
                        m = re.match(r'^size-(\d+)$', idx)
                        if not m:
                            raise AnalysisError('%s: read %s is neither p[K] nor p[size-c]' % (fn, cx.render(x)))
                        reads.append((cx.render(x), int(m.group(1))))
        for c in cx.calls_in(n.ast):
            if cx.callee_name(c) in ('memcmp', '__builtin_memcmp', 'strncmp') and cx.call_args(c) and cx.render(cx.strip(cx.call_args(c)[0], casts=True)) == 'p':
                a2 = cx.render(cx.strip(cx.call_args(c)[2], casts=True))
                if not a2.isdigit():
                    raise AnalysisError('%s: %s compares a non-constant number of bytes' % (fn, cx.render(c)))
                reads.append((cx.render(c)[:40], int(a2)))
        if not reads:
            continue
        low = 0
        for t in g.fact_texts(n.id):
            lab, cond = t.split(':', 1)
            c0 = cond.replace(' ', '')
            m = re.match(r'^size(==|>=|>|<|<=)(\d+)$', c0)
            if not m:
                continue
            op, k = m.group(1), int(m.group(2))
            if lab == 'T':
                low = max(low, {'==': k, '>=': k, '>': k + 1}.get(op, 0))
            elif lab == 'F':
                low = max(low, {'<': k, '<=': k + 1}.get(op, 0))
        for text, need in reads:
            n_reads += 1
            if low < need and (worst is None):
                worst = (text, need, low, tu.where(n.ast))
    run.need(n_reads >= 40, '%s: only %d reads of the token text found' % (fn, n_reads))
    run.ob('X5/token-classifier-reads-inside-the-token', fn, '%d reads of p[...] / memcmp(p, ...)' % n_reads, worst is None, worst[3] if worst else tu.where(tu.func(fn)),
           'the read %s needs size >= %d but only size >= %d is established there: for a shorter token at the end of the text it reads past the terminating NUL' % worst[:3] if worst else '')


COORD_REVIEWED = {
    # variable whose .coord.line is read -> why the node always has coordinates
    'exprnode': 'an expression node built by the grammar from tokens (Constant, ID, UnaryOp, BinaryOp): pycparser gives each its token position',
    'decl': 'a Decl/Typedef node of the translation unit: built with the position of its declarator',
}


def x6(run):
    """source positions are optional in pycparser's tree (the type node of an abstract parameter has coord None): `node.coord.line` on such a
    node raises AttributeError while an error message is being formatted, and that AttributeError is what leaves cdef()/typeof()"""
    m = cffi_mod('cparser')
    n = 0
    for node in ast.walk(m.tree):
        if isinstance(node, ast.Attribute) and node.attr == 'line' and isinstance(node.value, ast.Attribute) and node.value.attr == 'coord':
            base = u(node.value.value)
            fn = m.enclosing_def(node)
            # guarded forms: inside `if X.coord` / `X.coord is not None`, or a try that catches AttributeError
            guarded = False
            p_ = m.parents.get(node)
            while p_ is not None and p_ is not fn:
                if isinstance(p_, (ast.If, ast.IfExp)) and ('%s.coord' % base) in u(p_.test):
                    guarded = True
                if isinstance(p_, ast.Try) and any(h.type is None or 'AttributeError' in u(h.type) or u(h.type) == 'Exception' for h in p_.handlers):
                    guarded = True
                p_ = m.parents.get(p_)
            n += 1
            run.ob('X6/source-position-read-only-where-there-is-one', m.qualname_of(fn) or '?', '%s.coord.line' % base, guarded or base in COORD_REVIEWED, m.where(node),
                   'the node %r can be one that pycparser builds without coordinates (e.g. the type of an abstract parameter): formatting the error raises AttributeError instead' % base
                   if base not in COORD_REVIEWED else COORD_REVIEWED[base])
    run.need(n >= 2, 'cparser: fewer .coord.line reads than confirmed by hand (%d)' % n)


def check(run):
    run.explanation = (
        'Python: inter-procedural exception-escape analysis over the cffi package from FFI.cdef/FFI.typeof (import-aware '
        'call graph with name-based CHA for unknown receivers; raise sites = explicit raises outside the allowed classes, '
        'asserts, int()/ord()/division/shift on non-constant operands; try/except handlers applied at the site and at '
        'every call site on the way). Each escaping site must carry a reviewed reason, re-verified mechanically on every '
        'run where marked, or be a listed known finding. C: in the type-string parser, a value returned by a function that '
        'may return a negative error code is never used as an index/offset without a sign test on all paths; stores into '
        'the opcode buffer go through the bounds-checked writer or a checked slot; _ffi_type tests the parse result and the '
        'UTF-8 pointer before use and frees the buffer on all paths.')
    thorough = run.tier == 'thorough'
    P = python_side(run, thorough)
    array_length_bounded(run)
    tu = backend_tu()
    backend_summary(run, P, tu)
    files = {'src/c/parse_c_type.c'}
    n1 = x1(run, tu, files)
    run.need(n1 >= 2, 'X1 matched %d index uses of error-code variables' % n1)
    n2 = x2(run, tu)
    run.need(n2 >= 3, 'X2 matched %d stores into tok->output' % n2)
    x3_x4(run, tu)
    x5(run, tu)
    x6(run)
    run.min_instances('E/escaping-site-has-a-verified-reason', 15)
    run.min_instances('E/site-contained-before-the-entry-point', 2)
    run.min_instances('X3', 3)
    run.min_instances('X5', 1)
    run.assume('errors raised inside pycparser other than ParseError, None-dereferences (AttributeError) and dict lookups (KeyError) are not inventoried')
    run.assume('backend constructors reached through model.global_cache are summarised in the thorough tier only')
