"""C35 — pkg-config output is translated to build keywords without loss (DESIGN §3 C35).

Q1 partition: the filter predicates, evaluated over the abstract token classes
   {-I, -D, -L, -l, other}, make {include_dirs, define_macros, extra_compile_args}
   a partition of the --cflags stream and {library_dirs, libraries, extra_link_args}
   a partition of the --libs stream; each key is fed from the right stream; prefixes
   are stripped with [2:]; -Dk=v splits once.
Q2 order: comprehensions over split(), extend in merge_flags, libs iterated in order.
Q3 error discipline of call(): only PkgConfigError can be raised by its own statements.
"""
import ast

from ..pyast.index import cffi_mod, u

CLASSES = ['-I', '-D', '-L', '-l', 'other']


class Undecided(Exception):
    pass


def eval_pred(node, var, cls):
    """truth value of a filter predicate for a token of abstract class `cls`"""
    if isinstance(node, ast.BoolOp):
        vals = [eval_pred(v, var, cls) for v in node.values]
        return all(vals) if isinstance(node.op, ast.And) else any(vals)
    if isinstance(node, ast.UnaryOp) and isinstance(node.op, ast.Not):
        return not eval_pred(node.operand, var, cls)
    if isinstance(node, ast.Call) and isinstance(node.func, ast.Attribute) and node.func.attr == 'startswith' \
            and isinstance(node.func.value, ast.Name) and node.func.value.id == var and len(node.args) == 1:
        a = node.args[0]
        if isinstance(a, ast.Constant) and isinstance(a.value, str) and len(a.value) == 2 and a.value[0] == '-':
            return cls == a.value
        if isinstance(a, ast.Tuple) and all(isinstance(e, ast.Constant) for e in a.elts):
            return cls in [e.value for e in a.elts]
    raise Undecided(u(node))


def helper_summary(fn):
    """(accepted classes, element expression, iterated expression) of a `return [elt for x in S.split() if P]` helper"""
    rets = [s for s in ast.walk(fn) if isinstance(s, ast.Return) and isinstance(s.value, ast.ListComp)]
    if len(rets) != 1:
        raise Undecided('%s is not a single list comprehension' % fn.name)
    lc = rets[0].value
    if len(lc.generators) != 1:
        raise Undecided('nested comprehension')
    gen = lc.generators[0]
    var = gen.target.id
    acc = set()
    for cls in CLASSES:
        if all(eval_pred(c, var, cls) for c in gen.ifs):
            acc.add(cls)
    return acc, u(lc.elt), u(gen.iter), var


def check(run):
    run.explanation = (
        'The six filter helpers of flags_from_pkgconfig are list comprehensions whose predicates are boolean '
        'combinations of x.startswith("-P"); they are evaluated over the five abstract token classes, which decides '
        'for every possible token which keyword receives it: the three --cflags keys and the three --libs keys must '
        'each form a partition, fed from the right pkg-config stream, with the two-character prefix stripped and '
        '-Dk=v split once. Order preservation and the exception discipline of call() are structural ast rules.')
    m = cffi_mod('pkgconfig')
    ff = m.find('flags_from_pkgconfig')
    kw = m.find('flags_from_pkgconfig.kwargs')
    # which helper feeds which key, from which stream
    # every call builds its own dict of its own lists: merge_flags() keeps the lists of the first package in the result and extends them
    # in place, so a dict handed out twice (memoised per name) would be extended with itself
    rets_all = [s for s in ast.walk(kw) if isinstance(s, ast.Return) and m.enclosing_def(s) is kw]
    dicts = [n for n in ast.walk(kw) if isinstance(n, ast.Dict) and len(n.keys) >= 6]
    run.need(len(dicts) == 1, 'kwargs(): the dict of the six keyword lists not found')

    def is_the_fresh_dict(v):
        if v is dicts[0]:
            return True
        if isinstance(v, ast.Name):
            defs = [st for st in ast.walk(kw) if isinstance(st, ast.Assign) and any(isinstance(t, ast.Name) and t.id == v.id for t in st.targets)]
            return len(defs) == 1 and defs[0].value is dicts[0]
        return False
    fresh = bool(rets_all) and all(is_the_fresh_dict(r.value) for r in rets_all)
    run.ob('Q4/each-package-gets-its-own-result-lists', 'flags_from_pkgconfig.kwargs', '; '.join('return %s' % u(r.value)[:50] for r in rets_all), fresh, m.where(kw),
           'a result is handed out that is not the dict built by this call: merge_flags() stores the first package\'s lists in the result and extends them in place, '
           'so a remembered dict is extended with what was accumulated so far when its name comes again ([a, b, a] repeats the flags of a and b)')

    class _R:        # the rules below read the dict wherever it is written
        value = dicts[0]
    ret = [_R]
    streams = {}
    for s in ast.walk(kw):
        if isinstance(s, ast.Assign) and isinstance(s.value, ast.Call) and u(s.value.func) == 'call':
            a = s.value.args
            streams[u(s.targets[0])] = (u(a[0]), ast.literal_eval(a[1]) if isinstance(a[1], ast.Constant) else None)
    run.ob('Q1/streams-come-from-the-right-options', 'flags_from_pkgconfig.kwargs', 'all_cflags = call(libname, "--cflags"); all_libs = call(libname, "--libs")',
           streams == {'all_cflags': ('libname', '--cflags'), 'all_libs': ('libname', '--libs')}, m.where(kw), str(streams))
    table = {}
    for k, v in zip(ret[0].value.keys, ret[0].value.values):
        run.need(isinstance(k, ast.Constant) and isinstance(v, ast.Call) and isinstance(v.func, ast.Name) and len(v.args) == 1,
                 'kwargs() entry not of the form "key": helper(stream)')
        h = m.find('flags_from_pkgconfig.%s' % v.func.id)
        try:
            acc, elt, it, var = helper_summary(h)
        except Undecided as e:
            from .. import AnalysisError
            raise AnalysisError('C35: filter of %s not decidable over the token classes: %s' % (v.func.id, e))
        table[k.value] = {'helper': v.func.id, 'stream': u(v.args[0]), 'classes': acc, 'elt': elt, 'iter': it, 'var': var,
                          'node': h}
    run.saw('keyword table', ['%s <- %s(%s): %s' % (k, t['helper'], t['stream'], sorted(t['classes'])) for k, t in sorted(table.items())])
    WANT = {'include_dirs': ('all_cflags', {'-I'}), 'define_macros': ('all_cflags', {'-D'}),
            'extra_compile_args': ('all_cflags', {'-L', '-l', 'other'}),
            'library_dirs': ('all_libs', {'-L'}), 'libraries': ('all_libs', {'-l'}),
            'extra_link_args': ('all_libs', {'-I', '-D', 'other'})}
    run.ob('Q1/all-six-keywords-produced', 'flags_from_pkgconfig.kwargs', 'keys of the returned dict', set(table) == set(WANT), m.where(kw), str(sorted(table)))
    for key, (stream, classes) in WANT.items():
        t = table.get(key)
        if t is None:
            continue
        run.ob('Q1/keyword-fed-from-its-stream', 'flags_from_pkgconfig.kwargs', '%s: %s(%s)' % (key, t['helper'], t['stream']),
               t['stream'] == stream, m.where(kw))
        run.ob('Q1/keyword-receives-exactly-its-token-classes', 'flags_from_pkgconfig.%s' % t['helper'], '%s gets %s' % (key, sorted(classes)),
               t['classes'] == classes, m.where(t['node']), 'filter accepts %s' % sorted(t['classes']))
        run.ob('Q2/tokens-in-output-order', 'flags_from_pkgconfig.%s' % t['helper'], 'for %s in %s' % (t['var'], t['iter']),
               t['iter'] == 'string.split()', m.where(t['node']))
        if key in ('include_dirs', 'library_dirs', 'libraries'):
            run.ob('Q1/prefix-stripped', 'flags_from_pkgconfig.%s' % t['helper'], 'element %s' % t['elt'], t['elt'] == '%s[2:]' % t['var'], m.where(t['node']))
        elif key in ('extra_compile_args', 'extra_link_args'):
            run.ob('Q1/other-tokens-kept-whole', 'flags_from_pkgconfig.%s' % t['helper'], 'element %s' % t['elt'], t['elt'] == t['var'], m.where(t['node']))
    for group in (('include_dirs', 'define_macros', 'extra_compile_args'), ('library_dirs', 'libraries', 'extra_link_args')):
        if not all(g in table for g in group):
            continue
        sets = [table[g]['classes'] for g in group]
        disjoint = all(not (sets[i] & sets[j]) for i in range(3) for j in range(i + 1, 3))
        full = set().union(*sets) == set(CLASSES)
        run.ob('Q1/partition-disjoint', 'flags_from_pkgconfig', ' / '.join(group), disjoint, m.where(ff), str([sorted(s) for s in sets]))
        run.ob('Q1/partition-exhaustive', 'flags_from_pkgconfig', ' / '.join(group), full, m.where(ff), str([sorted(s) for s in sets]))
    # macros
    if 'define_macros' in table:
        t = table['define_macros']
        mac = m.find('flags_from_pkgconfig.get_macros._macro')
        okcall = t['elt'] == '_macro(%s)' % t['var']
        body = [u(s) for s in mac.body]
        p = mac.args.args[0].arg
        ok = okcall and body and body[0] == '%s = %s[2:]' % (p, p)
        rets = [s for s in ast.walk(mac) if isinstance(s, ast.Return)]
        texts = sorted(u(r.value) for r in rets)
        ok2 = texts == sorted(["tuple(%s.split('=', 1))" % p, '(%s, None)' % p])
        iff = [s for s in mac.body if isinstance(s, ast.If)]
        ok3 = len(iff) == 1 and u(iff[0].test) == "'=' in %s" % p
        run.ob('Q1/macro-prefix-stripped', 'flags_from_pkgconfig.get_macros._macro', body[0] if body else '', ok, m.where(mac))
        run.ob('Q1/macro-value-split-once', 'flags_from_pkgconfig.get_macros._macro', ' | '.join(texts), ok2 and ok3, m.where(mac))
    # Q2 merge order
    mf = m.find('merge_flags')
    ext = [c for c in ast.walk(mf) if isinstance(c, ast.Call) and isinstance(c.func, ast.Attribute) and c.func.attr == 'extend']
    run.ob('Q2/merge-appends-in-call-order', 'merge_flags', 'cfg1[key].extend(value)', len(ext) == 1 and u(ext[0]) == 'cfg1[key].extend(value)',
           m.where(mf), str([u(e) for e in ext]))
    loops = [s for s in ff.body if isinstance(s, ast.For)]
    okl = len(loops) == 1 and u(loops[0].iter) == 'libs'
    calls = [u(c) for c in ast.walk(loops[0]) if isinstance(c, ast.Call)] if loops else []
    okl = okl and 'merge_flags(ret, lib_flags)' in calls and 'kwargs(libname)' in calls
    run.ob('Q2/packages-merged-in-list-order', 'flags_from_pkgconfig', 'for libname in libs: merge_flags(ret, kwargs(libname))', okl, m.where(ff), str(calls))
    newkey = [s for s in ast.walk(mf) if isinstance(s, ast.Assign) and u(s.targets[0]) == 'cfg1[key]']
    run.ob('Q2/first-occurrence-kept-whole', 'merge_flags', 'cfg1[key] = value', len(newkey) == 1 and u(newkey[0].value) == 'value', m.where(mf))
    # Q3 error discipline of call()
    cf = m.find('call')
    raises = [r for r in ast.walk(cf) if isinstance(r, ast.Raise)]
    for r in raises:
        cls = u(r.exc.func) if isinstance(r.exc, ast.Call) else (u(r.exc) if r.exc else 're-raise')
        run.ob('Q3/call-raises-only-PkgConfigError', 'call', 'raise %s(...)' % cls, cls == 'PkgConfigError', m.where(r))
    popen = [c for c in ast.walk(cf) if isinstance(c, ast.Call) and u(c.func) == 'subprocess.Popen']
    okp = len(popen) == 1
    if okp:
        t = m.parents.get(popen[0])
        while t is not None and not isinstance(t, ast.Try):
            t = m.parents.get(t)
        okp = t is not None and any(h.type is not None and u(h.type) in ('OSError', 'EnvironmentError', 'Exception') and
                                    any(isinstance(x, ast.Raise) and isinstance(x.exc, ast.Call) and u(x.exc.func) == 'PkgConfigError' for x in ast.walk(h))
                                    for h in t.handlers)
    run.ob('Q3/spawn-failure-becomes-PkgConfigError', 'call', 'try: subprocess.Popen(...) except OSError: raise PkgConfigError', okp, m.where(cf))
    rc = [s for s in cf.body if isinstance(s, ast.If) and 'returncode' in u(s.test)]
    okr = len(rc) == 1 and u(rc[0].test) == 'pc.returncode != 0' and isinstance(rc[0].body[-1], ast.Raise) and \
        u(rc[0].body[-1].exc.func) == 'PkgConfigError'
    # nothing in that block before the raise can escape: statements other than the final raise are inside try/except Exception
    if okr:
        for st in rc[0].body[:-1]:
            okr = okr and isinstance(st, ast.Try) and any(h.type is None or u(h.type) in ('Exception', 'BaseException') for h in st.handlers)
    run.ob('Q3/nonzero-exit-becomes-PkgConfigError', 'call', 'if pc.returncode != 0: ... raise PkgConfigError', okr, m.where(cf))
    dec = [c for c in ast.walk(cf) if isinstance(c, ast.Call) and isinstance(c.func, ast.Attribute) and c.func.attr == 'decode' and u(c.func.value) == 'bout']
    okd = len(dec) == 1
    if okd:
        t = m.parents.get(dec[0])
        while t is not None and not isinstance(t, ast.Try):
            t = m.parents.get(t)
        okd = t is not None and any(h.type is not None and u(h.type) in ('UnicodeDecodeError', 'UnicodeError', 'ValueError', 'Exception') and
                                    isinstance(h.body[-1], ast.Raise) and u(h.body[-1].exc.func) == 'PkgConfigError' for h in t.handlers)
    run.ob('Q3/undecodable-output-becomes-PkgConfigError', 'call', 'try: bout.decode(encoding) except UnicodeDecodeError: raise PkgConfigError', okd, m.where(cf))
    # ... and the decoding must be able to fail: a lenient error handler (surrogateescape, replace, ignore) never raises
    if dec:
        c = dec[0]
        err = c.args[1] if len(c.args) > 1 else next((k.value for k in c.keywords if k.arg == 'errors'), None)
        handlers = []
        if err is None:
            handlers = ['strict']
        elif isinstance(err, ast.Constant):
            handlers = [err.value]
        elif isinstance(err, ast.Name):
            for n in ast.walk(cf):
                if isinstance(n, ast.Assign) and any(isinstance(t, ast.Name) and t.id == err.id for t in n.targets):
                    handlers.append(n.value.value if isinstance(n.value, ast.Constant) else u(n.value))
            for a, d in zip(cf.args.args[-len(cf.args.defaults):] if cf.args.defaults else [], cf.args.defaults):
                if a.arg == err.id:
                    handlers.append(d.value if isinstance(d, ast.Constant) else u(d))
        else:
            handlers = [u(err)]
        run.ob('Q3/output-decoded-strictly', 'call', u(c), bool(handlers) and all(h == 'strict' for h in handlers), m.where(c),
               'error handler(s) %s: with anything but "strict" undecodable bytes are smuggled into the build keywords instead of raising PkgConfigError' % handlers)
    retv = [s for s in cf.body if isinstance(s, ast.Return)]
    run.ob('Q3/call-returns-the-decoded-output', 'call', 'return bout', len(retv) == 1 and u(retv[0].value) == 'bout', m.where(cf))
    run.min_instances('Q1', 20)
    run.min_instances('Q3', 7)
    run.exhaustive = True
    run.assume('tokens are whitespace-separated (str.split()); a token class is determined by its first two characters')
