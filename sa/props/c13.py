"""C13 — all call paths to a C function agree (structural clauses; sibling cross-check).

lib.f(...) runs the generated CPython wrapper _cffi_f_f; ffi.addressof(lib, 'f')(...) runs
libffi on the generated direct function _cffi_d_f, typed by the same type-table entry; the two
ABI modes run libffi on the dlsym'ed symbol, typed by tables whose equivalence is C11.  What is
decided here is that the *siblings* generated for one declaration reach the same C function in
the same way, and that the runtime pairs them up:

A1 the generator template (Recompiler._generate_cpy_function_decl walked symbolically on an
   abstract 3-argument function, nothing executed): both emitted bodies call NAME(x0, x1, x2);
   the direct function's parameters and the wrapper's locals are (TYPEi xi) in order; Python
   argument i is converted into xi; the result type is the same; the wrapper brackets the call
   with errno restore/save inside the GIL release; variadic functions get no wrapper pair
   (one constant function pointer serves both paths).
A2 every generated probe (clang AST): for each CPYTHON_BLTN row of _cffi_globals the two
   fields are _cffi_f_N and _cffi_d_N of the row's own name N; both call the C function N once
   with their x0..xk in order; parameter/local and result types agree; the number of arguments
   is the number of entries of the row's function type.
A3 the runtime: lib_build_cpython_func takes the wrapper from g->address, the direct pointer
   from g->size_or_direct_fn and the type from the row's own type_op; try_extract_directfnptr
   builds the cdata from exactly that pointer and that type; GlobalExpr.as_c_expr emits the
   fields in the order of struct _cffi_global_s.
The argument/result *conversions* of the two paths are C03 R5-R7 (same backend converters
through the export table), errno is C22, ABI table equivalence is C11.
"""
import ast
import re

from .. import AnalysisError, gen
from ..cast import cx, rules
from ..cast.cfg import cfg_of, stmt_text
from ..cast.loader import backend_tu, wrapper_tu
from ..pyast.index import cffi_mod, u
from ..pyast import sympath as sp


def a1(run):
    m = cffi_mod('recompiler')
    fn = m.find('Recompiler._generate_cpy_function_decl')
    F = 'Recompiler._generate_cpy_function_decl'

    def prnt(a, k, e, f):
        f.append(('prnt', a[0] if a else ''))

    def h_isinst(a, k, e, f):
        if len(a) == 2 and isinstance(a[0], dict) and isinstance(a[1], sp.Opq):
            return a[0].get('__class__') == a[1].text.split('.')[-1]
        return sp.Opq('isinstance(?)')

    def m_getc(r, a, k, e, f):
        if isinstance(r, dict) and a and isinstance(a[0], str):
            return '%s%s' % (r['ctype'], a[0])
        return sp.Opq('get_c_name(?)')

    def conv(a, k, e, f):
        f.append(('convert', a[0].get('ctype') if isinstance(a[0], dict) else a[0]) + tuple(a[1:3]))

    def mk(nargs, void=False, ellipsis=False):
        args = tuple({'__class__': 'PrimitiveType', 'ctype': 'TYPE%d' % i} for i in range(nargs))
        res = {'__class__': 'VoidType', 'ctype': 'void'} if void else {'__class__': 'PrimitiveType', 'ctype': 'RTYPE'}
        tp = {'__class__': 'FunctionPtrType', 'ellipsis': ellipsis, 'args': args, 'result': res, 'abi': None}
        ev = sp.Evaluator({'prnt': prnt, 'isinstance': h_isinst, 'sorted': lambda a, k, e, f: (), 'self._convert_funcarg_to_c': conv,
                           'self._convert_expr_from_c': lambda a, k, e, f: 'FROM_C(%s)' % (a[1],), 'need_indirection': lambda a, k, e, f: False},
                          {'get_c_name': m_getc, 'is_complex_type': lambda r, a, k, e, f: False})
        ps = ev.run(fn, {'tp': tp, 'name': 'FUNC', 'self.target_is_python': False})
        if len(ps) != 1:
            raise AnalysisError('%s: %d paths for a fixed abstract function type (conditions over unknowns: %s)' % (F, len(ps), sorted(sp.free_names(ps))))
        return ps[0]

    n = 0
    for nargs, void in ((3, False), (1, False), (0, False), (2, True)):
        p = mk(nargs, void)
        lines = [e[1] for e in p.effects if e[0] == 'prnt' and isinstance(e[1], str)]
        convs = [e[1:] for e in p.effects if e[0] == 'convert']
        try:
            cut = lines.index('#else')
        except ValueError:
            raise AnalysisError('%s: no `#else` separating the CPython wrapper from the PyPy variant' % F)
        lines = lines[:cut]
        xs = ', '.join('x%d' % i for i in range(nargs))
        label = '%d argument(s), %s result' % (nargs, 'void' if void else 'non-void')
        dsig = [l for l in lines if '_cffi_d_FUNC(' in l]
        want_params = ', '.join('TYPE%d x%d' % (i, i) for i in range(nargs)) or 'void'
        ok = len(dsig) == 1 and dsig[0].replace(' ', '') == ('static %s_cffi_d_FUNC(%s)' % ('void ' if void else 'RTYPE', want_params)).replace(' ', '')
        run.ob('A1/direct-function-signature', F, label, ok, m.where(fn), 'emitted %r' % (dsig,))
        calls = [l.strip() for l in lines if re.search(r'\bFUNC\(', l) and '_cffi_' not in l and 'PyArg_UnpackTuple' not in l]
        want_d = ('%sFUNC(%s);' % ('' if void else 'return ', xs))
        want_f = ('{ %sFUNC(%s); }' % ('' if void else 'result = ', xs))
        run.ob('A1/both-bodies-call-the-function-with-the-same-arguments', F, label, calls == [want_d, want_f], m.where(fn), 'emitted calls %r' % (calls,))
        locs = [l.strip() for l in lines if re.match(r'^\s*TYPE\d+ x\d+;$', l)]
        run.ob('A1/wrapper-locals-have-the-parameter-types', F, label, locs == ['TYPE%d x%d;' % (i, i) for i in range(nargs)], m.where(fn), str(locs))
        run.ob('A1/python-argument-i-converted-into-xi', F, label, convs == [('TYPE%d' % i, 'arg%d' % i, 'x%d' % i) for i in range(nargs)], m.where(fn), str(convs))
        if nargs > 1:
            up = [l.strip() for l in lines if 'PyArg_UnpackTuple' in l]
            want_up = 'if (!PyArg_UnpackTuple(args, "FUNC", %d, %d, %s))' % (nargs, nargs, ', '.join('&arg%d' % i for i in range(nargs)))
            run.ob('A1/python-arguments-unpacked-in-order', F, label, up == [want_up], m.where(fn), str(up))
        if not void:
            rd = [l.strip() for l in lines if l.strip().endswith(' result;')]
            run.ob('A1/result-type-is-the-same', F, label, rd == ['RTYPE result;'], m.where(fn), str(rd))
        # errno bracket inside the GIL release, around the call
        seq = [l.strip() for l in lines]
        try:
            i0, i1, i2, i3, i4 = (seq.index('Py_BEGIN_ALLOW_THREADS'), seq.index('_cffi_restore_errno();'), seq.index(want_f),
                                  seq.index('_cffi_save_errno();'), seq.index('Py_END_ALLOW_THREADS'))
            okb = i0 < i1 < i2 < i3 < i4
        except ValueError:
            okb = False
        run.ob('A1/wrapper-brackets-the-call-like-the-libffi-path', F, label, okb, m.where(fn))
        n += 1
    # variadic: no pair, a single constant
    tp = {'__class__': 'FunctionPtrType', 'ellipsis': True, 'args': (), 'result': {'__class__': 'VoidType', 'ctype': 'void'}, 'abi': None}
    rec = []
    ev = sp.Evaluator({'prnt': prnt, 'isinstance': h_isinst, 'self._generate_cpy_constant_decl': lambda a, k, e, f: rec.append(a)})
    ps = ev.run(fn, {'tp': tp, 'name': 'FUNC', 'self.target_is_python': False})
    ok = len(ps) == 1 and len(rec) == 1 and not [e for e in ps[0].effects if e[0] == 'prnt'] and rec[0][1] == 'FUNC'
    run.ob('A1/variadic-functions-are-one-constant-pointer', F, 'tp.ellipsis', ok, m.where(fn))
    return n


def strip_ptr_cast(e):
    e = cx.strip(e, casts=True)
    return e


def a2(run, thorough):
    probes = gen.api_probes() if thorough else [p for p in gen.api_probes() if p in ('p_funcs', 'p_structs', 'p_consts', 'p_inc_user')]
    rows = 0
    for probe in probes:
        gt = gen.gen_tu(probe)
        text = gen.generated()[probe]
        mm = re.search(r'_cffi_globals\[\]\s*=\s*\{(.*?)\n\};', text, re.S)
        if not mm:
            continue
        types = re.search(r'static void \*_cffi_types\[\] = \{(.*?)\n\};', text, re.S)
        tlines = re.findall(r'/\*\s*(\d+)\s*\*/\s*(_CFFI_OP\([^\n]*?\)),', types.group(1)) if types else []
        tmap = {int(i): t for i, t in tlines}
        for name, addr, op, idx, extra in re.findall(r'\{\s*"(\w+)",\s*\(void \*\)(\w+),\s*_CFFI_OP\((\w+),\s*(\d+)\),\s*\(void \*\)(\w+)\s*\}', mm.group(1)):
            if not op.startswith('_CFFI_OP_CPYTHON_BLTN'):
                continue
            rows += 1
            where = '%s:_cffi_globals["%s"]' % (probe, name)
            run.ob('A2/row-pairs-the-siblings-of-its-own-name', where, '{ "%s", %s, %s, %s }' % (name, addr, op, extra),
                   addr == '_cffi_f_' + name and extra == '_cffi_d_' + name, '%s.c' % probe)
            if not (gt.has_func('_cffi_f_' + name) and gt.has_func('_cffi_d_' + name)):
                run.ob('A2/both-siblings-exist', where, '_cffi_f_%s / _cffi_d_%s' % (name, name), False, '%s.c' % probe)
                continue
            ff, fd = gt.func('_cffi_f_' + name), gt.func('_cffi_d_' + name)
            cf, cd = cx.calls_in(ff, name), cx.calls_in(fd, name)
            ok = len(cf) == 1 and len(cd) == 1
            af = [cx.render(a) for a in cx.call_args(cf[0])] if cf else None
            ad = [cx.render(a) for a in cx.call_args(cd[0])] if cd else None
            k = len(af) if af is not None else -1
            seq = ['x%d' % i for i in range(k)]
            # struct arguments are passed by value in both (`*x0` never appears in the CPython variant)
            run.ob('A2/siblings-call-the-same-function-with-arguments-in-order', where, '%s(%s) / %s(%s)' % (name, ', '.join(af or []), name, ', '.join(ad or [])),
                   ok and af == seq and ad == seq, gt.where(cf[0]) if cf else '%s.c' % probe)
            # types
            params = [(p.get('name'), p.get('type')) for p in cx.kids(fd) if p.get('kind') == 'ParmVarDecl']
            locs = {d.get('name'): d.get('type') for d in cx.walk(ff) if d.get('kind') == 'VarDecl'}
            okt = [n_ for n_, _t in params] == seq and all(locs.get(n_) == t for n_, t in params)
            rt_d = cd[0].get('type') if cd else None          # type of the call expression in the direct function
            rt_f = locs.get('result', 'void')
            okd = True
            if rt_d is not None and '(' not in rt_d:
                want_sig = '%s (%s)' % (rt_d, ', '.join(t for _n, t in params) or 'void')
                okd = fd.get('type', '').replace(' ', '') == want_sig.replace(' ', '')
            run.ob('A2/sibling-parameter-and-result-types-agree', where, 'parameters %s, result %s / %s, direct function %s' % (params, rt_d, rt_f, fd.get('type')),
                   okt and rt_d == rt_f and okd, gt.where(fd))
            # arity recorded in the type table
            j = int(idx)
            cnt = 0
            if tmap:
                jj = j + 1
                while jj in tmap and 'FUNCTION_END' not in tmap[jj]:
                    cnt += 1
                    jj += 1
                run.ob('A2/type-table-arity-matches', where, '_cffi_types[%d..] has %d argument entries' % (j, cnt), cnt == k and 'OP_FUNCTION' in tmap.get(j, ''), '%s.c' % probe,
                       'the wrappers take %d' % k)
            # the flags of the row match the arity
            want_op = {0: '_CFFI_OP_CPYTHON_BLTN_N', 1: '_CFFI_OP_CPYTHON_BLTN_O'}.get(k, '_CFFI_OP_CPYTHON_BLTN_V')
            run.ob('A2/calling-convention-opcode-matches-arity', where, op, op == want_op, '%s.c' % probe, 'arity %d' % k)
    run.saw('function rows cross-checked', ['%d' % rows])
    return rows


def a3(run, tu):
    F = 'lib_build_cpython_func'
    fn = tu.func(F)
    asg = {}
    for a in cx.assignments(fn):
        asg.setdefault(cx.lhs_text(a[0]), []).append(cx.render(a[1]))
    run.ob('A3/wrapper-taken-from-the-address-field', F, 'xfunc->md.ml_meth = g->address', asg.get('xfunc->md.ml_meth') == ['g->address'], tu.where(fn), str(asg.get('xfunc->md.ml_meth')))
    run.ob('A3/direct-pointer-taken-from-the-fourth-field', F, 'xfunc->direct_fn = g->size_or_direct_fn', asg.get('xfunc->direct_fn') == ['g->size_or_direct_fn'], tu.where(fn), str(asg.get('xfunc->direct_fn')))
    ti = asg.get('type_index')
    okt = ti is not None and len(ti) == 1 and 'g->type_op' in ti[0] and asg.get('xfunc->type_index') == ['type_index']
    run.ob('A3/type-taken-from-the-row-itself', F, 'xfunc->type_index = _CFFI_GETARG(g->type_op)', bool(okt), tu.where(fn), '%s / %s' % (ti, asg.get('xfunc->type_index')))
    run.ob('A3/name-taken-from-the-row-itself', F, 'xfunc->md.ml_name = g->name', asg.get('xfunc->md.ml_name') == ['g->name'], tu.where(fn))
    F2 = 'try_extract_directfnptr'
    fn2 = tu.func(F2)
    news = [c for c in cx.calls_in(fn2) if cx.callee_name(c) == 'new_simple_cdata']
    run.need(len(news) == 1, '%s: expected one new_simple_cdata' % F2)
    a = [cx.render(x) for x in cx.call_args(news[0])]
    cts = [cx.render(x[1]) for x in cx.assignments(fn2) if cx.lhs_text(x[0]) == 'ct']
    run.ob('A3/addressof-cdata-is-the-direct-pointer-with-the-row-type', F2, 'new_simple_cdata(%s)' % ', '.join(a),
           a == ['exf->direct_fn', 'ct'] and cts == ['_cpyextfunc_type(lib, exf)'], tu.where(news[0]), 'ct = %s' % cts)
    F3 = '_cpyextfunc_type'
    fn3 = tu.func(F3)
    uses = [cx.render(c) for c in cx.calls_in(fn3) if 'type_index' in cx.render(c)]
    run.ob('A3/row-type-realised-from-its-index', F3, '; '.join(uses)[:120], any('exf->type_index' in x for x in uses), tu.where(fn3))
    # writer/reader field order
    m = cffi_mod('recompiler')
    f = m.find('GlobalExpr.as_c_expr')
    fmt = [n for n in ast.walk(f) if isinstance(n, ast.BinOp) and isinstance(n.op, ast.Mod) and isinstance(n.left, ast.Constant) and isinstance(n.left.value, str)]
    run.need(len(fmt) == 1, 'GlobalExpr.as_c_expr: expected one format expression')
    args = [u(x) for x in fmt[0].right.elts] if isinstance(fmt[0].right, ast.Tuple) else []
    rec = tu.records.get('_cffi_global_s')
    run.need(rec is not None, 'struct _cffi_global_s not found in the backend translation unit')
    names = [c.get('name') for c in cx.kids(rec) if c.get('kind') == 'FieldDecl']
    ok = names == ['name', 'address', 'type_op', 'size_or_direct_fn'] and args == ['self.name', 'self.address', 'self.type_op.as_c_expr()', 'self.size'] and \
        fmt[0].left.value.count('%s') == 4
    run.ob('A3/row-fields-written-in-the-order-they-are-read', 'GlobalExpr.as_c_expr', fmt[0].left.value.strip(), ok, m.where(f), 'struct fields %s, written %s' % (names, args))
    # the generator passes the direct function as the fourth field of a function row
    f2 = m.find('Recompiler._generate_cpy_function_ctx')
    ge = [c for c in ast.walk(f2) if isinstance(c, ast.Call) and u(c.func) == 'GlobalExpr']
    run.need(len(ge) == 1, 'Recompiler._generate_cpy_function_ctx: expected one GlobalExpr(...)')
    ga = [u(x) for x in ge[0].args] + ['%s=%s' % (k.arg, u(k.value)) for k in ge[0].keywords]
    okg = ga[:2] == ['name', "'_cffi_f_%s' % name"] and any(x.replace(' ', '') in ("size='_cffi_d_%s'%name",) for x in ga)
    run.ob('A3/function-row-carries-both-siblings', 'Recompiler._generate_cpy_function_ctx', 'GlobalExpr(%s)' % ', '.join(ga), okg, m.where(ge[0]))


def a4(run, tu):
    """struct-by-value arguments on the libffi path: the element list libffi gets has one entry per scalar, so an array
    member of shape [a][b]... contributes a*b*... entries -- in the pass that counts them and in the pass that writes them"""
    from ..cast import absint
    from ..cast.absint import Con
    from ..cast.cfg import cfg_of as _cfg
    F = 'fb_fill_type'
    g = _cfg(tu, F)
    arr = rules.macro_flags(tu, 'CT_')['CT_ARRAY']
    loops = [n for n in g.nodes if n.kind == 'cond' and re.match(r'^(\w+)->ct_flags & %d$' % arr, cx.render(n.ast))]
    run.need(len(loops) == 2, '%s: expected the counting and the filling loop over nested array types, found %d' % (F, len(loops)))
    for n in loops:
        var = re.match(r'^(\w+)->ct_flags', cx.render(n.ast)).group(1)
        body = [t for t, l in n.succ if l == 'T'][0]
        res = {}
        for flat0, ln in ((1, 5), (3, 5), (6, 4), (1, 1)):
            env = {'flat': Con(flat0, 64, True), '%s->ct_length' % var: Con(ln, 64, True)}
            it = absint.Interp(g, env, {}, const_vars={'%s->ct_length' % var})
            it.run_from(body, env, {n.id})
            st = it.in_state.get(n.id) or {}
            v = st.get('flat')
            res[(flat0, ln)] = v.v if isinstance(v, Con) else None
        ok = all(res[k] == k[0] * k[1] for k in res)
        run.ob('A4/nested-array-members-flattened-to-the-product-of-their-lengths', F, 'while (%s is an array) flat *= length  [%s pass]' % (var, 'counting' if n is max(loops, key=lambda x: x.id) else 'filling'),
               ok, tu.where(n.ast), 'one iteration maps (flat, length) -> flat as %s; expected the product' % sorted(res.items()))


def a5(run, btu, wtu):
    """a Python list/str given for a pointer argument is copied into a temporary that both call paths zero-fill first (the initialiser
    may be partial): on every path from where the temporary's address is taken to the conversion, memset(buf, 0, size) is passed"""
    from ..cast.cfg import cfg_of as _cfg
    for tu, F, conv in ((btu, 'cdata_call', 'convert_array_from_object'), (wtu, '_cffi_convert_array_argument', '_cffi_convert_array_from_object')):
        g = _cfg(tu, F)
        callee = conv
        if tu is wtu:
            # in the generated module the conversion is reached through its export slot: resolve the macro of _cffi_include.h
            mac = tu.macros.get(conv)
            m = re.search(r'_cffi_exports\[(\w+)\]', mac[1]) if mac else None
            run.need(m is not None, '_cffi_include.h: macro %s is no longer an export slot' % conv)
            callee = '_cffi_exports[%s]' % m.group(1)
        is_conv = lambda c: cx.callee_name(c) == callee or cx.callee_text(c).replace(' ', '') == callee
        convs = [n for n in g.nodes if n.ast is not None and any(is_conv(c) for c in cx.calls_in(n.ast))]
        run.need(len(convs) == 1, '%s: expected one call of %s, found %d' % (F, conv, len(convs)))
        call = [c for c in cx.calls_in(convs[0].ast) if is_conv(c)][0]
        buf = cx.render(cx.strip(cx.call_args(call)[0], casts=True))
        sets = []
        for n in g.nodes:
            if n.ast is None:
                continue
            for c in cx.calls_in(n.ast):
                if cx.callee_name(c) in ('memset', '__builtin_memset', '__builtin___memset_chk'):
                    a = [cx.render(cx.strip(x, casts=True)) for x in cx.call_args(c)][:3]
                    if a[0] == buf and a[1] == '0' and a[2] == 'datasize':
                        sets.append(n.id)
        defs = [n for n in g.nodes if n.ast is not None and any(cx.lhs_text(a_[0]) == buf for a_ in cx.assignments(n.ast))]
        run.need(len(defs) >= 2, '%s: expected the two places where %s is given its address (stack and heap), found %d' % (F, buf, len(defs)))
        for d in defs:
            r = g.reach([d.id], avoid=set(sets), include_start=False)
            run.ob('A5/temporary-argument-zero-filled-before-the-initialiser-is-applied', F, '%s ... %s' % (cx.render(d.ast)[:60], conv), convs[0].id not in r, tu.where(d.ast),
                   'a path reaches %s(%s, ...) without memset(%s, 0, datasize); the other call path passes zeros for omitted items' % (conv, buf, buf))


def check(run):
    thorough = run.tier == 'thorough'
    run.technique = ('sibling cross-check: symbolic walk of the wrapper generator template (Python ast, abstract function types), clang-AST '
                     'comparison of every generated _cffi_f_/_cffi_d_ pair and its table row in the probe corpus, clang-AST rules on the '
                     'runtime that pairs them (lib_obj.c)')
    a1(run)
    a2(run, thorough)
    a3(run, backend_tu())
    a4(run, backend_tu())
    from ..cast.loader import wrapper_tu
    a5(run, backend_tu(), wrapper_tu())
    run.assume('decided: that the API-mode attribute and the addressof/libffi path reach the same C function with the same argument order, '
               'types and type-table entry; conversions are C03 R5-R7, errno C22, ABI table equivalence C11; not decided: libffi itself, '
               'which structs may be passed by value (fb_unsupported), but the flattening of array members is (A4); zero-filling of temporaries for pointer arguments on both paths (A5); equality of outcomes on concrete argument tuples')
    for rule, k in (('A1', 20), ('A2/row-pairs-the-siblings-of-its-own-name', 25), ('A2/siblings-call-the-same-function-with-arguments-in-order', 25), ('A3', 8), ('A4', 2), ('A5', 4)):
        run.min_instances(rule, k)
