"""C23 — generated source is deterministic, idempotent and replaced atomically (DESIGN §3 C23).

P1 determinism: in the generator modules no value of id/hash/time/random/uuid/environ/
   getpid/listdir reaches the emitted text (getpid only names the temporary file);
   no iteration over a set-typed value unless sorted or provably a singleton (all
   .add() arguments reaching it, through parameters too, are one constant);
   sorted(key=str|repr) only over classes whose __repr__/__str__ are id-free;
P2 idempotence: the `return False` path is guarded by a full-content comparison and
   performs no file-mutating call;
P3 atomic replace: the target is only ever modified by os.rename(tmp, target) (and the
   unlink+rename fallback inside the handler of a failed rename); the temporary file
   lives next to the target and is closed before the rename.
"""
import ast

from ..pyast.index import cffi_mod, u
from ..pyast import flow

SOURCES = {'id', 'hash', 'time.time', 'time.clock', 'time.monotonic', 'random.random', 'random.randint', 'random.choice',
           'uuid.uuid4', 'uuid.uuid1', 'os.getpid', 'os.listdir', 'os.getcwd', 'os.urandom', 'os.times', 'os.environ.get',
           'os.getenv', 'object.__repr__', 'datetime.now', 'datetime.datetime.now', 'tempfile.mktemp', 'socket.gethostname'}
PATH_SINKS = {'open', 'os.rename', 'os.unlink', 'os.remove', 'os.replace', 'os.chdir', 'os.path.join'}
MUTATORS = {'os.utime', 'os.chmod', 'os.truncate', 'os.rename', 'os.unlink', 'os.remove', 'os.replace', 'os.makedirs', 'os.mkdir', 'shutil.move', 'shutil.copy'}


def funcs_of(mod):
    for q, f in mod.defs.items():
        if isinstance(f, (ast.FunctionDef, ast.Lambda)):
            yield q, f


def p1_sources(run, mods):
    n = 0
    for m in mods:
        for q, f in funcs_of(m):
            par = flow.parents_in(f)
            for c in ast.walk(f):
                src = None
                if isinstance(c, ast.Call) and u(c.func) in SOURCES:
                    src = u(c.func)
                elif isinstance(c, ast.Attribute) and u(c) == 'os.environ':
                    src = 'os.environ'
                if src is None:
                    continue
                if m.enclosing_def(c) is not f and not isinstance(m.enclosing_def(c), ast.ClassDef):
                    if m.enclosing_def(c) is not f:
                        continue
                n += 1
                # where does the value go?  accepted: bound to one name used only as a path argument
                p = par.get(c)
                hops = 0
                while p is not None and not isinstance(p, (ast.Assign, ast.Return, ast.Expr, ast.Call)) and hops < 6:
                    p = par.get(p)
                    hops += 1
                ok = False
                detail = 'value of %s used in: %s' % (src, u(p)[:80] if p is not None else '?')
                stmt = c
                while stmt in par and not isinstance(stmt, ast.stmt):
                    stmt = par[stmt]
                if isinstance(stmt, ast.Assign) and len(stmt.targets) == 1 and isinstance(stmt.targets[0], ast.Name):
                    v = stmt.targets[0].id
                    kinds = flow.use_kinds(f, v)
                    ok = bool(kinds) and all(k.startswith('arg:') and k.split(':')[1] in PATH_SINKS for k in kinds)
                    detail = '%s = ...%s...; used as %s' % (v, src, kinds)
                if q.endswith('__hash__') and src == 'hash':
                    ok = True      # defining __hash__ is not an output path
                    detail = 'inside __hash__ itself'
                run.ob('P1/no-nondeterminism-source-reaches-output', '%s::%s' % (m.rel, q), u(stmt)[:100], ok, m.where(c), detail)
    return n


def set_facts(cls_mod, cls_name):
    """set-typed names of the class, their add() arguments and their unsorted iterations"""
    cls = cls_mod.find(cls_name)
    methods = {q[len(cls_name) + 1:]: f for q, f in cls_mod.defs.items()
               if q.startswith(cls_name + '.') and isinstance(f, ast.FunctionDef) and q.count('.') == 1}
    sets = []      # (method, name text)
    for mn, f in methods.items():
        for n in ast.walk(f):
            if isinstance(n, ast.Assign) and isinstance(n.value, ast.Call) and u(n.value.func) in ('set', 'frozenset') and not n.value.args:
                sets.append((mn, u(n.targets[0])))
            if isinstance(n, ast.Assign) and isinstance(n.value, (ast.Set, ast.SetComp)):
                sets.append((mn, u(n.targets[0])))
    return cls, methods, sets


def iter_sites(f, name):
    """(node, how) where `name` is iterated; sorted(...) wrappers are reported as 'sorted'"""
    out = []
    par = flow.parents_in(f)
    for n in ast.walk(f):
        tgt = None
        if isinstance(n, (ast.For, ast.comprehension)) and u(n.iter) == name:
            tgt = ('for', n)
        elif isinstance(n, ast.Call) and n.args and u(n.args[0]) == name:
            fn = u(n.func)
            if fn == 'sorted':
                tgt = ('sorted', n)
            elif fn in ('list', 'tuple', 'enumerate', 'iter', 'next', 'zip', 'map') or fn.endswith('.join') or fn.endswith('.extend'):
                tgt = (fn, n)
        if tgt:
            out.append(tgt)
    return out


def adds_to(methods, mn, name, depth=0):
    """argument texts of every .add() that can reach the set `name` of method mn (following it as a parameter)"""
    f = methods[mn]
    out = []
    other = False
    for c in ast.walk(f):
        if isinstance(c, ast.Call) and isinstance(c.func, ast.Attribute) and u(c.func.value) == name:
            if c.func.attr == 'add':
                a = c.args[0]
                out.append(u(a) if isinstance(a, (ast.Constant, ast.BinOp, ast.JoinedStr)) and all(
                    isinstance(x, (ast.Constant, ast.BinOp, ast.Add)) for x in ast.walk(a) if not isinstance(x, ast.expr_context)) else None)
            elif c.func.attr in ('update', 'union', 'discard', 'remove', 'pop', 'clear', 'intersection_update', 'difference_update'):
                other = True
        # passed on to another method of the class
        if isinstance(c, ast.Call) and isinstance(c.func, ast.Attribute) and u(c.func.value) == 'self' and c.func.attr in methods and depth < 3:
            for i, a in enumerate(c.args):
                if u(a) == name:
                    callee = methods[c.func.attr]
                    ps = [x.arg for x in callee.args.args][1:]
                    if i < len(ps):
                        sub, o2 = adds_to(methods, c.func.attr, ps[i], depth + 1)
                        out += sub
                        other = other or o2
    return out, other


def p1_sets(run, m):
    cls, methods, sets = set_facts(m, 'Recompiler')
    n = 0
    for mn, name in sets:
        # where is it iterated?  locals: in the same method; attributes: anywhere in the class
        scopes = list(methods) if name.startswith('self.') else [mn]
        for sc in scopes:
            for how, node in iter_sites(methods[sc], name):
                n += 1
                if how == 'sorted':
                    run.ob('P1/set-iterated-only-sorted-or-singleton', 'Recompiler.%s' % sc, 'sorted(%s)' % name, True, m.where(node), 'sorted')
                    continue
                if name.startswith('self.'):
                    adds, other = [], False
                    for m2 in methods:
                        a2, o2 = adds_to(methods, m2, name)
                        adds += a2
                        other = other or o2
                else:
                    adds, other = adds_to(methods, mn, name)
                consts = set(adds)
                ok = not other and None not in consts and len(consts) <= 1
                run.ob('P1/set-iterated-only-sorted-or-singleton', 'Recompiler.%s' % sc, '%s over %s' % (how, name), ok, m.where(node),
                       'elements ever added: %s%s' % (sorted(str(a) for a in consts), ' (+ other mutators)' if other else ''))
    run.saw('set-typed names in Recompiler', ['%s in %s' % (nm, mn) for mn, nm in sets])
    return n


def p1_sortkeys(run, m, model):
    for q, f in funcs_of(m):
        for c in ast.walk(f):
            if isinstance(c, ast.Call) and u(c.func) == 'sorted':
                kw = {k.arg: u(k.value) for k in c.keywords}
                if kw.get('key') in ('str', 'repr'):
                    # the sorted objects are model types: their __repr__/__str__ must not depend on identity
                    bad = []
                    for cq, cf in model.defs.items():
                        if isinstance(cf, ast.FunctionDef) and cf.name in ('__repr__', '__str__'):
                            calls = {u(x.func) for x in ast.walk(cf) if isinstance(x, ast.Call)}
                            if calls & {'id', 'hash', 'object.__repr__', 'super().__repr__'}:
                                bad.append(cq)
                    base = model.find('BaseTypeByIdentity')
                    has = any(isinstance(s, ast.FunctionDef) and s.name == '__repr__' for s in base.body)
                    run.ob('P1/sort-key-str-is-identity-free', '%s::%s' % (m.rel, q), u(c)[:80], not bad and has, m.where(c),
                           'identity-dependent __repr__/__str__: %s; BaseTypeByIdentity defines __repr__: %s' % (bad, has))


def p2_p3(run, m):
    f = m.find('_make_c_or_py_source')
    q = '_make_c_or_py_source'
    rf = [s for s in ast.walk(f) if isinstance(s, ast.Return) and isinstance(s.value, ast.Constant) and s.value.value is False]
    run.need(len(rf) == 1, '`return False` not found once in %s' % q)
    tr = m.parents.get(rf[0])
    while tr is not None and not isinstance(tr, ast.Try):
        tr = m.parents.get(tr)
    run.need(tr is not None and rf[0] in tr.body, '`return False` is not directly in a try body')
    # the comparison: reads one more character than the new text and compares for equality with the whole text
    cmp_ok = False
    for n in ast.walk(tr):
        if isinstance(n, ast.If) and isinstance(n.test, ast.Compare) and any(isinstance(x, ast.Raise) for x in n.body):
            t = u(n.test)
            if t in ('f1.read(len(output) + 1) != output', 'output != f1.read(len(output) + 1)') or \
                    t in ('f1.read() != output', 'output != f1.read()'):
                cmp_ok = rf[0].lineno > n.lineno
    run.ob('P2/unchanged-only-after-full-content-comparison', q, 'if f1.read(len(output) + 1) != output: raise OSError ... return False', cmp_ok, m.where(rf[0]))
    body_calls = [u(c.func) for s in tr.body for c in ast.walk(s) if isinstance(c, ast.Call)]
    opens = [c for s in tr.body for c in ast.walk(s) if isinstance(c, ast.Call) and u(c.func) == 'open']
    mode_ok = all((len(c.args) > 1 and u(c.args[1]) in ("'r'", "'rb'")) or (len(c.args) == 1 and not c.keywords) for c in opens)
    bad = [c for c in body_calls if c in MUTATORS or c.endswith('.write') or c.endswith('.truncate')]
    run.ob('P2/unchanged-path-touches-nothing', q, 'try body before `return False`', not bad and mode_ok and bool(opens), m.where(tr),
           'calls: %s' % body_calls)
    # `output` is the complete generated text
    v = flow.assigned_value(f, 'output')
    ok = v is not None and u(v) == 'f.getvalue()'
    wr = [c for c in ast.walk(f) if isinstance(c, ast.Call) and u(c.func) == 'recompiler.write_source_to_f']
    ok = ok and sorted(u(c.args[0]) for c in wr) == ['f', 'target_file']
    run.ob('P2/compared-text-is-the-whole-new-text', q, 'output = f.getvalue()', ok, m.where(f))
    # P3: every use of target_file
    par = flow.parents_in(f)
    handler = tr.handlers[0] if tr.handlers else None
    inner_try = [s for s in (handler.body if handler else []) if isinstance(s, ast.Try)]
    for n in flow.loads(f, 'target_file'):
        p = par.get(n)
        while p is not None and not isinstance(p, ast.Call):
            p = par.get(p)
        call = u(p.func) if p is not None else None
        where = 'stmt'
        ok = False
        if call == 'print' or call == '_is_file_like':
            ok = True
        elif call == 'recompiler.write_source_to_f':
            # only when the target is itself a stream
            st = p
            while st in par and not isinstance(st, ast.If):
                st = par[st]
            ok = isinstance(st, ast.If) and u(st.test) == '_is_file_like(target_file)'
        elif call == 'open':
            ok = len(p.args) > 1 and u(p.args[1]) == "'r'"
        elif call == 'os.rename':
            ok = len(p.args) == 2 and u(p.args[1]) == 'target_file' and u(p.args[0]) == 'tmp_file'
        elif call in ('os.unlink', 'os.remove'):
            # only inside the handler of a failed rename, followed by the rename
            h = p
            while h in par and not isinstance(h, ast.ExceptHandler):
                h = par[h]
            t2 = par.get(h) if isinstance(h, ast.ExceptHandler) else None
            ok = isinstance(t2, ast.Try) and [u(s) for s in t2.body] == ['os.rename(tmp_file, target_file)'] and \
                [u(s) for s in h.body] == ['%s(target_file)' % call, 'os.rename(tmp_file, target_file)']
        elif p is None or call is None:
            ok = False
        else:
            # building the temporary name from the target
            st = n
            while st in par and not isinstance(st, ast.stmt):
                st = par[st]
            ok = isinstance(st, ast.Assign) and u(st.targets[0]) == 'tmp_file'
        st = n
        while st in par and not isinstance(st, ast.stmt):
            st = par[st]
        if isinstance(st, ast.Assign) and u(st.targets[0]) == 'tmp_file':
            ok = True
        run.ob('P3/target-modified-only-by-rename', q, u(st)[:90], ok, m.where(n), 'use of target_file in a call to %s' % call)
    tv = flow.assigned_value(f, 'tmp_file')
    ok = tv is not None and isinstance(tv, ast.BinOp) and isinstance(tv.left, ast.Constant) and str(tv.left.value).startswith('%s') \
        and 'target_file' in u(tv.right) and '/' not in str(tv.left.value)
    run.ob('P3/temporary-file-next-to-target', q, 'tmp_file = %s' % (u(tv) if tv is not None else None), ok, m.where(f))
    # the new text is written completely to the temporary file, which is closed before the rename
    withs = [s for s in ast.walk(f) if isinstance(s, ast.With) and any(u(i.context_expr).startswith('open(tmp_file') for i in s.items)]
    ok = len(withs) == 1
    if ok:
        w = withs[0]
        ok = u(w.items[0].context_expr) == "open(tmp_file, 'w')" and [u(s) for s in w.body] == ['%s.write(output)' % u(w.items[0].optional_vars)]
        sib = par.get(w).body if hasattr(par.get(w), 'body') else []
        idx = sib.index(w) if w in sib else -1
        nxt = sib[idx + 1] if 0 <= idx < len(sib) - 1 else None
        ok = ok and isinstance(nxt, ast.Try) and [u(s) for s in nxt.body] == ['os.rename(tmp_file, target_file)']
        ok = ok and not any(isinstance(c, ast.Call) and u(c.func) == 'os.rename' for c in ast.walk(w))
    run.ob('P3/temporary-file-complete-and-closed-before-rename', q, "with open(tmp_file, 'w') as f1: f1.write(output)  # then rename", ok, m.where(f))
    # the two public wrappers go through this function only
    for name in ('make_c_source', 'make_py_source'):
        g = m.find(name)
        calls = [u(c.func) for c in ast.walk(g) if isinstance(c, ast.Call)]
        run.ob('P3/wrappers-use-the-atomic-writer', name, 'return _make_c_or_py_source(...)', calls == ['_make_c_or_py_source'], m.where(g), str(calls))


def check(run):
    run.explanation = (
        'Determinism taint over the generator modules (recompiler.py, cffi_opcode.py, and the __repr__/__str__/get_c_name '
        'family of model.py): every occurrence of a non-determinism source must flow only into file-path arguments; every '
        'iteration over a set-typed value of Recompiler must be wrapped in sorted() or the set must be a provable singleton '
        '(all add() arguments reaching it, also through parameters, are one constant); sorted(key=str) only over classes '
        'with identity-free __repr__. Dict iteration is insertion order (deterministic by induction) and is not a source. '
        'Idempotence and atomic replacement are structural rules on _make_c_or_py_source: `return False` only after a '
        'full-content comparison with no mutating call, target only modified by rename of a completed, closed sibling file.')
    rec = cffi_mod('recompiler')
    opc = cffi_mod('cffi_opcode')
    model = cffi_mod('model')
    n = p1_sources(run, [rec, opc, model])
    ns = p1_sets(run, rec)
    run.need(ns >= 2, 'expected >= 2 set iterations in Recompiler, found %d' % ns)
    p1_sortkeys(run, rec, model)
    # _generate iterates declarations sorted; type table sorted
    g = rec.find('Recompiler._generate')
    loops = [s for s in ast.walk(g) if isinstance(s, ast.For)]
    ok = len(loops) == 1 and u(loops[0].iter) == 'sorted(lst)'
    run.ob('P1/declarations-visited-in-sorted-order', 'Recompiler._generate', 'for name, (tp, quals) in sorted(lst)', ok, rec.where(g),
           u(loops[0].iter) if loops else None)
    ctt = rec.find('Recompiler.collect_type_table')
    ad = flow.assigned_value(ctt, 'all_decls')
    run.ob('P1/type-table-built-in-sorted-order', 'Recompiler.collect_type_table', 'all_decls = sorted(self._typesdict, key=str)',
           ad is not None and u(ad).startswith('sorted(self._typesdict'), rec.where(ctt), u(ad) if ad is not None else None)
    its = [u(s.iter) for s in ast.walk(ctt) if isinstance(s, ast.For)]
    bad = [i for i in its if i in ('self._typesdict', 'self._typesdict.items()', 'self._typesdict.keys()')]
    run.ob('P1/type-dict-never-iterated-raw-for-numbering', 'Recompiler.collect_type_table', 'for tp in all_decls', not bad, rec.where(ctt), str(its))
    p2_p3(run, rec)
    run.min_instances('P1', 8)
    run.min_instances('P2', 3)
    run.min_instances('P3', 8)
    run.assume('POSIX rename() replaces the target atomically; the unlink fallback is reachable only after rename failed (Windows)')
    run.assume('dict iteration order is insertion order (Python >= 3.7) and the cdef text order is part of the input')
    run.assume('durability (fsync) is not part of the statement and not decided')
