"""C34 — ffi.include() shares declarations instead of copying them (DESIGN §3 C34):
share-by-reference clauses.

X1 Parser.include re-declares struct/union/enum/anonymous/typedef names with the same type
   object and included=True, and copies the integer constants;
X2 the generator emits _CFFI_F_EXTERNAL and no fields iff the struct (or its named pointer)
   is an included declaration (checked on the generator source and on the probe corpus);
X3 realising an EXTERNAL struct never builds a new type: it returns what
   _fetch_external_struct_or_union finds by searching the included FFIs recursively;
X4 lib attribute lookup and integer-constant lookup fall back to the included libs / FFIs;
X5 the generated _cffi_includes[] lists the included module names in order and the module
   initialisation imports each and keeps its ffi and lib.
"""
import ast
import re

from .. import gen
from ..cast import cx, rules
from ..cast.cfg import cfg_of, stmt_text
from ..cast.loader import backend_tu
from ..pyast.index import cffi_mod, u


def check(run):
    run.explanation = (
        'Call-graph and flag rules for declaration sharing: the Python parser re-declares included names with the very '
        'same type objects (ast rule on Parser.include/_declare), the generator marks them external with no fields '
        '(source rule + generated tables of an including probe), the backend resolves external structs only through '
        'the recursive search of the included FFIs and never through the struct constructor on that branch (CFG), '
        'lookups fall back to included libs/FFIs, and the include list is written and imported in order.')
    cp = cffi_mod('cparser')
    inc = cp.find('Parser.include')
    decl = [c for c in ast.walk(inc) if isinstance(c, ast.Call) and u(c.func) == 'self._declare']
    ok = len(decl) == 1 and [u(a) for a in decl[0].args] == ['name', 'tp'] and {k.arg: u(k.value) for k in decl[0].keywords} == {'included': 'True', 'quals': 'quals'}
    loop = [s for s in ast.walk(inc) if isinstance(s, ast.For) and u(s.iter) == 'other._declarations.items()']
    ok = ok and len(loop) == 1 and u(loop[0].target) == '(name, (tp, quals))'
    run.ob('X1/included-names-redeclared-with-the-same-type-object', 'Parser.include', 'self._declare(name, tp, included=True, quals=quals)', ok, cp.where(inc))
    kinds = [s for s in ast.walk(inc) if isinstance(s, ast.If) and 'kind in' in u(s.test)]
    ok = len(kinds) == 1 and set(ast.literal_eval(kinds[0].test.comparators[0])) == {'struct', 'union', 'enum', 'anonymous', 'typedef'}
    run.ob('X1/all-type-declaration-kinds-are-shared', 'Parser.include', "kind in ('struct', 'union', 'enum', 'anonymous', 'typedef')", ok, cp.where(inc))
    cst = [c for c in ast.walk(inc) if isinstance(c, ast.Call) and u(c.func) == 'self._add_constants']
    ok = len(cst) == 1 and [u(a) for a in cst[0].args] == ['k', 'v']
    run.ob('X1/integer-constants-copied', 'Parser.include', 'for k, v in other._int_constants.items(): self._add_constants(k, v)', ok, cp.where(inc))
    d = cp.find('Parser._declare')
    st = [s for s in ast.walk(d) if isinstance(s, ast.Assign) and u(s.targets[0]) == 'self._declarations[name]']
    ok = len(st) == 1 and u(st[0].value) == '(obj, quals)'
    mark = [c for c in ast.walk(d) if isinstance(c, ast.Call) and u(c.func) == 'self._included_declarations.add']
    ok = ok and len(mark) == 1 and u(mark[0].args[0]) == 'obj'
    p = cp.parents.get(cp.parents.get(mark[0])) if mark else None
    ok = ok and isinstance(p, ast.If) and u(p.test) == 'included'
    run.ob('X1/declared-object-stored-as-is-and-marked-included', 'Parser._declare', 'self._declarations[name] = (obj, quals); if included: self._included_declarations.add(obj)', ok, cp.where(d))
    api = cffi_mod('api')
    fi = api.find('FFI.include')
    calls = [u(c) for c in ast.walk(fi) if isinstance(c, ast.Call)]
    ok = 'self._parser.include(ffi_to_include._parser)' in calls and 'self._included_ffis.append(ffi_to_include)' in calls
    run.ob('X1/ffi-include-shares-the-parser-declarations', 'FFI.include', 'self._parser.include(ffi_to_include._parser); self._included_ffis.append(ffi_to_include)', ok, api.where(fi))
    # X2 generator
    rc = cffi_mod('recompiler')
    sc = rc.find('Recompiler._struct_ctx')
    ext = [c for c in ast.walk(sc) if isinstance(c, ast.Call) and u(c.func) == 'flags.append' and 'EXTERNAL' in u(c.args[0])]
    ok = len(ext) == 1
    if ok:
        iff = rc.parents.get(rc.parents.get(ext[0]))
        ok = isinstance(iff, ast.If) and any(x is rc.parents.get(ext[0]) for x in iff.orelse) and \
            'tp not in self.ffi._parser._included_declarations' in u(iff.test) and 'named_ptr not in self.ffi._parser._included_declarations' in u(iff.test)
        rs = [s for s in iff.orelse if isinstance(s, ast.Assign) and u(s.targets[0]) == 'reason_for_not_expanding']
        ok = ok and len(rs) == 1
    run.ob('X2/included-structs-are-emitted-as-external', 'Recompiler._struct_ctx', "else: flags.append('_CFFI_F_EXTERNAL'); reason_for_not_expanding = 'external'", ok, rc.where(sc))
    guard = [s for s in ast.walk(sc) if isinstance(s, ast.If) and u(s.test) == 'reason_for_not_expanding is None']
    ok = len(guard) == 1 and any('c_fields.append' in u(x) for x in ast.walk(guard[0]) if isinstance(x, ast.Call)) and \
        any(isinstance(x, ast.Assign) and u(x.targets[0]) == 'first_field_index' and u(x.value) == '-1' for s in guard[0].orelse for x in ast.walk(s))
    run.ob('X2/external-structs-carry-no-fields', 'Recompiler._struct_ctx', 'fields only when reason_for_not_expanding is None; else first_field_index = -1', ok, rc.where(sc))
    t = gen.generated()['p_inc_user']
    m = re.search(r'_cffi_struct_unions\[\] = \{(.*?)\n\};', t, re.S)
    rows = re.findall(r'\{ "([^"]+)", \d+, ([^,]+),\s*([^,]+), ([^,]+), ([^,]+), (\d+)', m.group(1)) if m else []
    got = {r[0]: (r[1].strip(), r[4].strip(), r[5]) for r in rows}
    ok = got.get('base_s', ('',))[0] == '_CFFI_F_EXTERNAL' and got.get('$base_pt', ('',))[0] == '_CFFI_F_EXTERNAL' and \
        got.get('base_s')[1:] == ('-1', '0') and got.get('user_s', ('',))[0] == '_CFFI_F_CHECK_FIELDS'
    run.ob('X2/generated-including-module-marks-shared-structs-external', 'p_inc_user', '_cffi_struct_unions[] of a module that includes another', ok, None, str(got))
    # enums: the same sharing needs the same mechanism -- an included enum must not be re-emitted as a local one
    ec = rc.find('Recompiler._enum_ctx')
    consults = any(isinstance(n, (ast.Compare,)) and '_included_declarations' in u(n) for n in ast.walk(ec))
    em = re.search(r'_cffi_enums\[\] = \{(.*?)\n\};', t, re.S)
    re_emitted = bool(em and '"base_e"' in em.group(1))
    run.ob('X2/included-enums-are-not-rebuilt-by-the-including-module', 'Recompiler._enum_ctx', 'an enum that comes from ffi.include() is referenced, not re-emitted',
           consults and not re_emitted, rc.where(ec),
           'the generator never consults _included_declarations for enums and the including probe p_inc_user re-emits `enum base_e` in its own _cffi_enums[]: '
           'the including module builds a second ctype object for it')
    # X3
    tu = backend_tu()
    fn = '_realize_c_struct_or_union'
    g = cfg_of(tu, fn)
    CF = rules.macro_flags(tu, '_CFFI_F_')
    fetch = [n for n in g.nodes if n.ast is not None and cx.calls_in(n.ast, '_fetch_external_struct_or_union')]
    new = [n for n in g.nodes if n.ast is not None and cx.calls_in(n.ast, 'new_struct_or_union_type')]
    ok = len(fetch) == 1 and len(new) >= 1
    if ok:
        ff = rules.flag_facts(g, g.dominating_facts(fetch[0].id), 's->flags')
        ok = ff.get(CF['_CFFI_F_EXTERNAL']) == 'T'
        for n in new:
            ffn = rules.flag_facts(g, g.dominating_facts(n.id), 's->flags')
            ok = ok and ffn.get(CF['_CFFI_F_EXTERNAL']) == 'F'
        ok = ok and not any(n.id in g.reach([fetch[0].id]) for n in new)
        a = [cx.render(x) for x in cx.call_args(cx.calls_in(fetch[0].ast, '_fetch_external_struct_or_union')[0])]
        ok = ok and a == ['s', 'builder->included_ffis', '0']
    run.ob('X3/external-structs-are-looked-up-never-rebuilt', fn, 'if (EXTERNAL) x = _fetch_external_struct_or_union(s, builder->included_ffis, 0) else new_struct_or_union_type(...)', ok, tu.where(tu.func(fn)))
    err = [n for n in g.nodes if n.ast is not None and any(rules.exc_class_of(c) == 'FFIError' and 'should come from' in cx.render(c) for c in cx.calls_in(n.ast, 'PyErr_Format'))]
    ok = len(err) == 1 and bool(fetch) and err[0].id in g.reach([fetch[0].id]) and 'T:x == 0' in g.fact_texts(err[0].id)
    run.ob('X3/missing-included-struct-is-an-error-not-a-copy', fn, "FFIError: should come from ffi.include() but was not found", ok, tu.where(err[0].ast) if err else None)
    fn2 = '_fetch_external_struct_or_union'
    g2 = cfg_of(tu, fn2)
    f2 = tu.func(fn2)
    rec = [c for c in cx.calls_in(f2, fn2)]
    ok = len(rec) == 1 and [cx.render(a) for a in cx.call_args(rec[0])] == ['s', 'ffi1->types_builder.included_ffis', 'recursion + 1']
    run.ob('X3/search-recurses-through-the-includes-of-includes', fn2, '_fetch_external_struct_or_union(s, ffi1->types_builder.included_ffis, recursion + 1)', ok, tu.where(f2))
    rl = [n for n in g2.nodes if n.kind == 'return' and cx.calls_in(n.ast, '_realize_c_struct_or_union')]
    ok = len(rl) == 1
    if ok:
        a = [cx.render(x) for x in cx.call_args(cx.calls_in(rl[0].ast, '_realize_c_struct_or_union')[0])]
        ok = a == ['&ffi1->types_builder', 'sindex'] and 'F:sindex < 0' in g2.fact_texts(rl[0].id)
        cmp_ = [t for t in g2.fact_texts(rl[0].id) if 's1->flags' in t and t.startswith('T:')]
        ok = ok and len(cmp_) == 1 and str(CF['_CFFI_F_EXTERNAL']) in cmp_[0]
    run.ob('X3/found-struct-is-realised-in-the-ffi-that-defines-it', fn2, 'return _realize_c_struct_or_union(&ffi1->types_builder, sindex) when s1 is not external and of the same kind', ok, tu.where(f2))
    srch = [c for c in cx.calls_in(f2, 'search_in_struct_unions')]
    ok = len(srch) == 1 and [cx.render(a) for a in cx.call_args(srch[0])][:2] == ['&ffi1->types_builder.ctx', 's->name']
    run.ob('X3/lookup-is-by-declared-name', fn2, 'search_in_struct_unions(&ffi1->types_builder.ctx, s->name, strlen(s->name))', ok, tu.where(f2))
    # every included ffi is visited: not finding the name in one of them moves on to the next one
    miss = g2.edges_of(lambda cn, l: (cx.render(cn.ast).replace(' ', ''), l) in (('sindex<0', 'T'), ('sindex>=0', 'F')))
    latch = [n.id for n in g2.nodes if n.ast is not None and n.kind == 'stmt' and stmt_text(n.ast).replace(' ', '') in ('i++', '++i', 'i+=1')]
    okv = bool(miss) and bool(latch)
    if okv:
        after = g2.reach([e[1] for e in miss], avoid=set(latch))
        okv = not any(g2.nodes[i].kind == 'return' for i in after)
    run.ob('X3/search-visits-every-included-ffi', fn2, 'if (sindex < 0) continue;', okv, tu.where(f2),
           'a name missing from one included ffi ends the search: structs that live in a later include are reported as "not found"')
    # X4
    fn3 = 'lib_build_and_cache_attr'
    g3 = cfg_of(tu, fn3)
    f3 = tu.func(fn3)
    rec = [c for c in cx.calls_in(f3, fn3)]
    okr = len(rec) == 1 and [cx.render(a) for a in cx.call_args(rec[0])] == ['lib1', 'name', 'recursion + 1']
    if okr:
        n = g3.node_of(rec[0])
        okr = 'T:index < 0' in g3.fact_texts(n.id) and 'T:types_builder->included_libs != 0' in g3.fact_texts(n.id)
    run.ob('X4/lib-lookup-falls-back-to-included-libs', fn3, 'if (index < 0 && included_libs) lib_build_and_cache_attr(lib1, name, recursion + 1)', okr, tu.where(f3))
    if rec:
        fcts = g3.fact_texts(g3.node_of(rec[0]).id)
        deep = not any(t.replace(' ', '') in ('F:recursion>0', 'T:recursion==0', 'T:recursion<=0') for t in fcts)
        run.ob('X4/included-libs-search-their-own-includes', fn3, 'the fall-back is also taken when recursion > 0', deep, tu.where(rec[0]),
               'the search of the included libs is only reached with recursion == 0: a lib consulted on behalf of an including lib no longer looks into its own includes (chains of three modules)')
    fic = [c for c in cx.calls_in(f3, 'ffi_fetch_int_constant')]
    run.ob('X4/lib-lookup-falls-back-to-included-ffi-constants', fn3, 'ffi_fetch_int_constant(ffi1, s, recursion + 1)', len(fic) >= 1 and
           [cx.render(a) for a in cx.call_args(fic[0])] == ['ffi1', 's', 'recursion + 1'], tu.where(f3))
    fn4 = 'ffi_fetch_int_constant'
    f4 = tu.func(fn4)
    rec = [c for c in cx.calls_in(f4, fn4)]
    ok = len(rec) == 1 and [cx.render(a) for a in cx.call_args(rec[0])] == ['ffi1', 'name', 'recursion + 1']
    run.ob('X4/constant-lookup-recurses-into-included-ffis', fn4, 'ffi_fetch_int_constant(ffi1, name, recursion + 1)', ok, tu.where(f4))
    for fnr in (fn2, fn3, fn4):
        gg = cfg_of(tu, fnr)
        lim = [n for n in gg.nodes if n.kind == 'cond' and cx.render(n.ast) == 'recursion > 100']
        run.ob('X4/include-recursion-bounded', fnr, 'if (recursion > 100) -> RuntimeError', len(lim) == 1, tu.where(tu.func(fnr)))
    # X5
    wr = rc.find('Recompiler.write_c_source_to_f')
    loops = [s for s in ast.walk(wr) if isinstance(s, ast.For) and u(s.iter) == 'self.ffi._included_ffis']
    ok = len(loops) == 1 and any(isinstance(c, ast.Call) and u(c.func) == 'prnt' and c.args and isinstance(c.args[0], ast.BinOp) and
                                 'included_module_name' in u(c.args[0].right) and '"%s"' in u(c.args[0].left) for c in ast.walk(loops[0]))
    run.ob('X5/include-list-written-in-inclusion-order', 'Recompiler.write_c_source_to_f', 'for ffi_to_include in self.ffi._included_ffis: prnt(\'  "%s",\' % (included_module_name,))', ok, rc.where(wr))
    m = re.search(r'_cffi_includes\[\] = \{(.*?)\};', t, re.S)
    names = re.findall(r'"([^"]+)"', m.group(1)) if m else None
    run.ob('X5/generated-include-list-names-the-included-module', 'p_inc_user', '_cffi_includes[] = { "p_inc_base", NULL }', names == ['p_inc_base'] and 'NULL' in (m.group(1) if m else ''), None, str(names))
    fn5 = 'make_included_tuples'
    f5 = tu.func(fn5)
    g5 = cfg_of(tu, fn5)
    imp = [c for c in cx.calls_in(f5, 'PyImport_ImportModule')]
    ok = len(imp) == 1 and cx.render(cx.call_args(imp[0])[0]) == '*p_include'
    sets = [[cx.render(a) for a in cx.call_args(c)] for c in cx.calls_in(f5, 'PyTuple_SET_ITEM')]
    ok = ok and sorted(sets) == sorted([['*included_ffis', 'num', 'included_ffi'], ['*included_libs', 'num', 'included_lib']])
    ga = [[cx.render(a) for a in cx.call_args(c)] for c in cx.calls_in(f5, 'PyObject_GetAttrString')]
    ok = ok and sorted(ga) == [['m', '"ffi"'], ['m', '"lib"']]
    run.ob('X5/each-included-module-imported-and-its-ffi-lib-kept', fn5, 'm = import(*p_include); included_ffis[num] = m.ffi; included_libs[num] = m.lib', ok, tu.where(f5))
    chk = [n for n in g5.nodes if n.kind == 'cond' and ('FFI_Type' in cx.render(n.ast) or 'Lib_Type' in cx.render(n.ast))]
    run.ob('X5/imported-objects-type-checked', fn5, 'FFIObject_Check(included_ffi) && LibObject_Check(included_lib)', len(chk) >= 2, tu.where(f5))
    run.min_instances('X1', 5)
    run.min_instances('X2', 3)
    run.min_instances('X3', 5)
    run.min_instances('X4', 6)
    run.min_instances('X5', 4)
    run.assume('object identity at run time follows from never constructing on the external branch; it is not observed')
