"""C32 — verify() module names are deterministic and input-sensitive (DESIGN §3 C32).

V1 _flatten iterates dicts through sorted keys;
V2 every branch writes a count/length prefix followed by a tag; tags pairwise
   distinct; unsupported objects raise TypeError;
V3 the key is built only from major.minor, the verifier version string, preamble,
   flattened kwds and ffi._cdefsources, joined by one separator; kwds are flattened
   before any engine patches them; cdef() records the source text unmodified;
V4 k1/k2 are CRC32 of the two interleaved halves of that key.
"""
import ast
import re

from ..pyast.index import cffi_mod, u
from ..pyast import flow

TAINT = {'id', 'hash', 'time', 'random', 'uuid', 'os.environ', 'os.getpid', 'os.urandom', 'os.getcwd', 'os.listdir',
         'set', 'frozenset', 'object', 'repr', 'vars', 'dir', 'globals', 'locals', 'threading', 'socket', 'platform'}


def names_in(node):
    out = set()
    for n in ast.walk(node):
        if isinstance(n, ast.Attribute):
            out.add(u(n))
        elif isinstance(n, ast.Name):
            out.add(n.id)
    return out


def check(run):
    run.explanation = (
        'ast rules on ffiplatform._flatten and Verifier.__init__: the encoder is a type dispatch whose dict branch '
        'iterates sorted keys and whose every branch writes a decimal count/length followed by its own tag character '
        '(tags pairwise distinct, so the encoding is prefix-decodable); the hashed key is a join with one separator of '
        'exactly five ingredients, none of which is a non-determinism source, with kwds flattened before the engine '
        'patches them; k1/k2 are masked CRC32 of the even and odd bytes of the key; cdef() records its source text as is.')
    fp = cffi_mod('ffiplatform')
    f = fp.find('_flatten')
    # walk the if/elif chain
    branches = []
    node = f.body[0]
    run.need(isinstance(node, ast.If), '_flatten is not an if/elif chain')
    while isinstance(node, ast.If):
        branches.append((u(node.test), node.body))
        if len(node.orelse) == 1 and isinstance(node.orelse[0], ast.If):
            node = node.orelse[0]
        else:
            branches.append(('else', node.orelse))
            break
    tags = {}
    for test, body in branches[:-1]:
        writes = [c for s in body for c in ast.walk(s) if isinstance(c, ast.Call) and u(c.func) == 'f.write']
        run.need(writes, 'branch %s of _flatten writes nothing' % test)
        first = writes[0].args[0]
        fmt = first.left.value if isinstance(first, ast.BinOp) and isinstance(first.left, ast.Constant) else None
        m = re.match(r'^%d([a-z])(%s)?$', fmt or '')
        ok = m is not None
        tag = m.group(1) if m else None
        tags[test] = tag
        # what is counted
        arg = u(first.right) if isinstance(first, ast.BinOp) else ''
        if 'str' in test:
            okc = arg == '(len(x), x)'
        elif 'dict' in test:
            okc = arg == 'len(keys)'
        elif 'list' in test or 'tuple' in test:
            okc = arg == 'len(x)'
        else:
            okc = arg in ('(x,)', 'x')
        run.ob('V2/branch-writes-count-then-tag', '_flatten', '%s: f.write(%s)' % (test, u(first)), ok and okc, fp.where(writes[0]))
    vals = [t for t in tags.values() if t]
    run.ob('V2/tags-pairwise-distinct', '_flatten', 'tags %s' % sorted(vals), len(vals) == len(set(vals)) == len(tags) and len(vals) >= 4,
           fp.where(f), str(tags))
    last = branches[-1][1]
    ok = len(last) == 1 and isinstance(last[0], ast.Raise) and isinstance(last[0].exc, ast.Call) and u(last[0].exc.func) == 'TypeError'
    run.ob('V2/unsupported-objects-raise-TypeError', '_flatten', 'else: raise TypeError', ok, fp.where(f))
    # dict branch: sorted keys, key then value
    for test, body in branches[:-1]:
        if 'dict' in test:
            keys = [s for s in body if isinstance(s, ast.Assign) and u(s.targets[0]) == 'keys']
            ok = len(keys) == 1 and u(keys[0].value) in ('sorted(x.keys())', 'sorted(x)')
            loops = [s for s in body if isinstance(s, ast.For)]
            ok2 = len(loops) == 1 and u(loops[0].iter) == 'keys' and [u(s) for s in loops[0].body] == ['_flatten(key, f)', '_flatten(x[key], f)']
            run.ob('V1/dict-iterated-through-sorted-keys', '_flatten', 'keys = sorted(x.keys()); for key in keys', ok and ok2, fp.where(f),
                   u(keys[0].value) if keys else None)
        if 'list' in test:
            loops = [s for s in body if isinstance(s, ast.For)]
            ok = len(loops) == 1 and u(loops[0].iter) == 'x' and [u(s) for s in loops[0].body] == ['_flatten(value, f)']
            run.ob('V1/sequences-in-order', '_flatten', 'for value in x: _flatten(value, f)', ok, fp.where(f))
    names = names_in(f)
    run.ob('V3/no-nondeterminism-source', '_flatten', 'names used', not (names & TAINT), fp.where(f), str(sorted(names & TAINT)))
    ff = fp.find('flatten')
    body = [u(s) for s in ff.body]
    run.ob('V2/flatten-returns-the-whole-encoding', 'flatten', ' ; '.join(body),
           body == ['f = cStringIO.StringIO()', '_flatten(x, f)', 'return f.getvalue()'], fp.where(ff))
    # Verifier.__init__
    vm = cffi_mod('verifier')
    init = vm.find('Verifier.__init__')
    keyv = None
    for n in ast.walk(init):
        if isinstance(n, ast.Assign) and u(n.targets[0]) == 'key' and isinstance(n.value, ast.Call) and isinstance(n.value.func, ast.Attribute) \
                and n.value.func.attr == 'join':
            keyv = n
    run.need(keyv is not None, 'key = sep.join(...) not found in Verifier.__init__')
    sep = keyv.value.func.value
    arg = keyv.value.args[0]
    ok = isinstance(sep, ast.Constant) and isinstance(sep.value, str) and len(sep.value) == 1
    parts = None
    if isinstance(arg, ast.BinOp) and isinstance(arg.op, ast.Add) and isinstance(arg.left, ast.List):
        parts = [u(e) for e in arg.left.elts] + ['*' + u(arg.right)]
    want = ["'%d.%d' % sys.version_info[:2]", '__version_verifier_modules__', 'preamble', 'flattened_kwds', '*ffi._cdefsources']
    run.ob('V3/key-ingredients', 'Verifier.__init__', 'key = sep.join([...] + ffi._cdefsources)', ok and parts == want, vm.where(keyv), str(parts))
    run.ob('V3/no-nondeterminism-source', 'Verifier.__init__', 'names in the key expression', not (names_in(keyv.value) & TAINT), vm.where(keyv))
    fk = [n for n in ast.walk(init) if isinstance(n, ast.Assign) and u(n.targets[0]) == 'flattened_kwds']
    ok = len(fk) == 1 and u(fk[0].value) == 'ffiplatform.flatten(kwds)'
    # before any call that receives kwds (engine patching, relative paths)
    others = [c for c in ast.walk(init) if isinstance(c, ast.Call) and any(isinstance(a, ast.Name) and a.id == 'kwds' for a in c.args)
              and u(c.func) != 'ffiplatform.flatten']
    ok = ok and others and all(c.lineno > fk[0].lineno for c in others)
    run.ob('V3/kwds-flattened-before-being-patched', 'Verifier.__init__', 'flattened_kwds = ffiplatform.flatten(kwds)', ok, vm.where(fk[0]) if fk else None,
           'later uses of kwds: %s' % [u(c.func) for c in others])
    enc = [n for n in ast.walk(init) if isinstance(n, ast.Assign) and u(n.targets[0]) == 'key' and n is not keyv]
    run.ob('V3/key-encoded-as-utf8', 'Verifier.__init__', "key = key.encode('utf-8')", [u(e.value) for e in enc] == ["key.encode('utf-8')"], vm.where(init))
    ks = {u(n.targets[0]): [] for n in ast.walk(init) if isinstance(n, ast.Assign) and u(n.targets[0]) in ('k1', 'k2')}
    for n in ast.walk(init):
        if isinstance(n, ast.Assign) and u(n.targets[0]) in ks:
            ks[u(n.targets[0])].append(u(n.value))
    ok = ks.get('k1', [None])[0] == 'hex(binascii.crc32(key[0::2]) & 4294967295)' and ks.get('k2', [None])[0] == 'hex(binascii.crc32(key[1::2]) & 4294967295)'
    run.ob('V4/two-crc32-of-interleaved-halves', 'Verifier.__init__', 'k1 = hex(crc32(key[0::2]) & 0xffffffff); k2 = hex(crc32(key[1::2]) & 0xffffffff)',
           ok, vm.where(init), str(ks))
    mn = [n for n in ast.walk(init) if isinstance(n, ast.Assign) and u(n.targets[0]) == 'modulename']
    ok = len(mn) == 1 and isinstance(mn[0].value, ast.BinOp) and isinstance(mn[0].value.op, ast.Mod) and isinstance(mn[0].value.left, ast.Constant) and \
        isinstance(mn[0].value.left.value, str) and mn[0].value.left.value.startswith('_cffi_') and mn[0].value.left.value.count('%s') == 4 and \
        re.sub(r'%s', '', mn[0].value.left.value).isidentifier() and \
        isinstance(mn[0].value.right, ast.Tuple) and [u(x) for x in mn[0].value.right.elts] == ['tag', 'self._vengine._class_key', 'k1', 'k2']
    run.ob('V4/name-built-from-tag-engine-and-both-crcs', 'Verifier.__init__', "modulename = '_cffi_%s_%s%s%s' % (tag, class_key, k1, k2)", ok,
           vm.where(mn[0]) if mn else None)
    # the pair of checksums can be read back from the name: the statements from `k1 = ...` to `modulename = ...` are walked with the
    # two CRCs bound to chosen values; pairs whose hex digits line up across the split point must still give different names
    from ..pyast import sympath as sp
    blocks = [n for n in ast.walk(init) if isinstance(getattr(n, 'body', None), list) and mn and mn[0] in n.body] + \
             [n for n in ast.walk(init) if isinstance(getattr(n, 'orelse', None), list) and mn and mn[0] in n.orelse]
    run.need(bool(blocks), 'Verifier.__init__: the block that computes the module name not found')
    blk = blocks[0].body if mn[0] in getattr(blocks[0], 'body', []) else blocks[0].orelse
    first = min(i for i, st in enumerate(blk) if isinstance(st, ast.Assign) and u(st.targets[0]) == 'k1')
    stmts = blk[first:blk.index(mn[0]) + 1]

    def name_for(c1, c2):
        vals = iter((c1, c2))
        ev = sp.Evaluator({'binascii.crc32': lambda a, k, e, f: next(vals), 'hex': lambda a, k, e, f: hex(a[0]) if isinstance(a[0], int) else sp.Opq('hex(?)')})
        ps = ev.block(stmts, {'tag': 'g', 'self._vengine._class_key': 'g', 'key': sp.Opq('key')}, [], [])
        if len(ps) != 1 or not isinstance(ps[0].env.get('modulename'), str):
            from .. import AnalysisError
            raise AnalysisError('Verifier.__init__: the module name is not a string decided by the two checksums (%r)' % (ps[0].env.get('modulename') if ps else None,))
        return ps[0].env['modulename']
    pairs = [((0x0abcdef1, 0x23456789), (0xabcdef12, 0x03456789)), ((0x1, 0x23), (0x12, 0x3)), ((0x0, 0x5), (0x5, 0x0)), ((0xa0, 0x0b), (0xa, 0xb)), ((0x7fffffff, 0x1), (0x7fffffff, 0x10))]
    for p1, p2 in pairs:
        n1, n2 = name_for(*p1), name_for(*p2)
        run.ob('V4/the-two-checksums-can-be-told-apart-in-the-name', 'Verifier.__init__', 'crc pairs %s and %s' % (tuple(map(hex, p1)), tuple(map(hex, p2))), n1 != n2, vm.where(mn[0]),
               'both give %r: different inputs share a module name without any CRC32 collision, and the second verify() loads the first one\'s compiled module' % n1)
    # cdef() records the text as given
    api = cffi_mod('api')
    cd = api.find('FFI._cdef')
    app = [c for c in ast.walk(cd) if isinstance(c, ast.Call) and u(c.func) == 'self._cdefsources.append']
    ok = len(app) == 1 and u(app[0].args[0]) == 'csource'
    okp, why = flow.is_passthrough(cd, 'csource', allowed_prefixes=('arg:', 'compare:')) if 'csource' in flow.params(cd) else (False, 'no csource param')
    run.ob('V3/cdef-records-its-source-text', 'FFI._cdef', 'self._cdefsources.append(csource)', ok, api.where(cd))
    run.min_instances('V2', 6)
    run.min_instances('V3', 6)
    run.exhaustive = True
    run.assume('injectivity of the NUL join for inputs that themselves contain NUL is not decided (stated in DESIGN)')
    run.assume('CRC32 collisions are allowed by the property')
