"""Check contract: obligations, known findings, evidence, exit status (DESIGN §2.2)."""
import hashlib
import json
import os
import sys
import time

from . import AnalysisError

VERIF = os.path.dirname(os.path.dirname(os.path.abspath(__file__)))
FINDINGS_FILE = os.path.join(VERIF, 'known_findings.json')
EVIDENCE_DIR = os.environ.get('VERIF_EVIDENCE_DIR') or os.path.join(VERIF, 'evidence')
VIOL_DIR = os.path.join(EVIDENCE_DIR, 'violations')


def norm(s):
    return ' '.join(str(s).split())


class Ob:
    __slots__ = ('rule', 'function', 'construct', 'ok', 'site', 'detail', 'nontrivial', 'path')

    def __init__(self, rule, function, construct, ok, site, detail, nontrivial, path):
        self.rule = rule
        self.function = function or ''
        self.construct = norm(construct)
        self.ok = bool(ok)
        self.site = site
        self.detail = detail
        self.nontrivial = nontrivial
        self.path = path

    @property
    def key(self):
        return '%s|%s|%s' % (self.rule, self.function, self.construct)

    def as_dict(self):
        d = {'rule': self.rule, 'function': self.function, 'construct': self.construct,
             'site': self.site, 'verdict': 'ok' if self.ok else 'VIOLATED'}
        if self.detail:
            d['detail'] = self.detail
        if self.path:
            d['path'] = self.path
        return d


class Run:
    """Collects obligations for one property and turns them into exit status + evidence."""

    def __init__(self, pid, tier='quick', seed=0, only_key=None):
        self.pid = pid
        self.tier = tier
        self.seed = seed
        self.obs = []
        self.analysed = {}
        self.assumptions = []
        self.notes = []
        self.explanation = ''
        self.technique = ''
        self.exhaustive = False
        self.t0 = time.time()
        self.minimums = {}
        self.only_key = only_key
        self.extra = {}

    # -- recording -----------------------------------------------------------
    def ob(self, rule, function, construct, ok, site=None, detail=None, nontrivial=True, path=None):
        o = Ob(rule, function, construct, ok, site, detail, nontrivial, path)
        self.obs.append(o)
        return o.ok

    def saw(self, what, items):
        """record what was analysed (functions, call sites, table rows...)"""
        cur = self.analysed.setdefault(what, [])
        for i in items:
            if i not in cur:
                cur.append(i)

    def assume(self, text):
        if text not in self.assumptions:
            self.assumptions.append(text)

    def need(self, cond, msg):
        """an anchor of the analysis itself; failing means the analysis is broken"""
        if not cond:
            raise AnalysisError('%s: %s' % (self.pid, msg))

    def min_instances(self, rule, n):
        """a rule that matches fewer instances than confirmed by hand fails the run"""
        self.minimums[rule] = n

    def count(self, rule):
        return sum(1 for o in self.obs if o.rule == rule or o.rule.startswith(rule + '/'))

    # -- finishing -----------------------------------------------------------
    def finish(self):
        known = load_findings()
        open_keys = {}
        for f in known:
            if f.get('property') == self.pid and f.get('status') == 'open':
                open_keys[f['key']] = f
        bad = [o for o in self.obs if not o.ok]
        if self.only_key is not None:
            bad = [o for o in bad if o.key == self.only_key]
        new = []
        seen_known = []
        for o in bad:
            if o.key in open_keys:
                if o.key not in seen_known:
                    seen_known.append(o.key)
            else:
                new.append(o)
        for k in seen_known:
            f = open_keys[k]
            print('KNOWN-FINDING: property=%s %s [%s]' % (self.pid, f.get('what', ''), k))
        status = 0
        reported = set()
        os.makedirs(VIOL_DIR, exist_ok=True)
        for o in new:
            if o.key in reported:
                continue
            reported.add(o.key)
            h = hashlib.sha1(o.key.encode()).hexdigest()[:10]
            p = os.path.join(VIOL_DIR, '%s-%s.json' % (self.pid, h))
            with open(p, 'w') as f:
                json.dump({'property': self.pid, 'key': o.key, 'obligation': o.as_dict(),
                           'replay': './check %s --replay %s' % (self.pid, p)}, f, indent=1)
            print('  violated: rule=%s function=%s site=%s' % (o.rule, o.function, o.site))
            print('            construct: %s' % o.construct[:200])
            if o.detail:
                print('            %s' % str(o.detail)[:400])
            if o.path:
                for step in o.path:
                    print('              | %s' % step)
            print('VIOLATION property=%s replay=%s' % (self.pid, p))
            status = 1
        if status == 0:
            # vacuity guards are checked only when nothing was reported: a tree that lost a
            # construct AND violates a rule is a violation, a tree that only lost it is exit 2
            for rule, n in self.minimums.items():
                got = self.count(rule)
                if got < n:
                    raise AnalysisError('%s: rule %s matched %d instance(s), fewer than the %d confirmed by hand '
                                        '(vacuous pass refused)' % (self.pid, rule, got, n))
        self.write_evidence(len(reported), len(seen_known))
        return status

    def write_evidence(self, nviol, nknown):
        os.makedirs(EVIDENCE_DIR, exist_ok=True)
        total = len(self.obs)
        ok = sum(1 for o in self.obs if o.ok)
        distinct = len({o.key for o in self.obs if o.nontrivial})
        samples = []
        seen_rules = set()
        for o in self.obs:            # one sample per rule first, then failures
            if o.rule not in seen_rules:
                seen_rules.add(o.rule)
                samples.append(o.as_dict())
        for o in self.obs:
            if not o.ok and o.as_dict() not in samples:
                samples.append(o.as_dict())
        samples = samples[:60]
        rules = {}
        for o in self.obs:
            r = rules.setdefault(o.rule, {'instances': 0, 'ok': 0})
            r['instances'] += 1
            r['ok'] += 1 if o.ok else 0
        cov = {
            'explanation': self.explanation or self.technique,
            'obligations': total,
            'discharged': ok,
            'evaluations': total,
            'distinct_nontrivial': distinct,
            'rule': 'one evaluation = one rule instance (rule + function + normalised construct) decided on '
                    'the AST/CFG of the current working tree; non-trivial = needed a path query, a table row '
                    'comparison or a lattice point, as flagged by the rule; distinct = distinct keys',
            'samples': samples,
            'rules': rules,
            'functions': sorted({str(o.function) for o in self.obs})[:400],
            'analysed': {k: (v if len(v) <= 80 else v[:80] + ['... %d more' % (len(v) - 80)])
                         for k, v in self.analysed.items()},
            'analysed_counts': {k: len(v) for k, v in self.analysed.items()},
            'known_findings_matched': nknown,
            'exhaustive': bool(self.exhaustive),
            'checker_cmd': './check %s --tier %s' % (self.pid, self.tier),
            'trusted_base': ['clang 14 parser/type checker (JSON AST, -fsyntax-only)', 'CPython ast module',
                             'the rule tables in /verif/sa/props'],
        }
        cov.update(self.extra)
        ev = {
            'property_id': self.pid,
            'tier': self.tier,
            'seed': int(self.seed),
            'level': 'other',
            'coverage': cov,
            'assumptions': self.assumptions,
            'wall_s': round(time.time() - self.t0, 3),
            'violations': nviol,
        }
        tmp = os.path.join(EVIDENCE_DIR, '%s.json.tmp%d' % (self.pid, os.getpid()))
        with open(tmp, 'w') as f:
            json.dump(ev, f, indent=1, sort_keys=False)
        os.replace(tmp, os.path.join(EVIDENCE_DIR, '%s.json' % self.pid))


_findings = None


def load_findings():
    global _findings
    if _findings is None:
        if os.path.exists(FINDINGS_FILE):
            with open(FINDINGS_FILE) as f:
                _findings = json.load(f).get('findings', [])
        else:
            _findings = []
    return _findings
