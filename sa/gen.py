"""E5: generated sources as part of "what the build covers".

The repository's own generator (imported from the working tree) is run on a
probe corpus -- a build step, like running the preprocessor.  The deciding
step is static: the generated C is parsed by clang (-fsyntax-only) and the
rules are checked on its AST; generated Python is checked with ast.
"""
import hashlib
import json
import os
import subprocess
import sys

from . import AnalysisError
from .cast.loader import repo_root, parse_tu, py_include, CACHE

VERIF = os.path.dirname(os.path.dirname(os.path.abspath(__file__)))
CORPUS_DIR = os.path.join(VERIF, 'corpus')

DRIVER = r'''
import sys, io, json, os
root = sys.argv[1]
sys.path.insert(0, os.path.join(root, 'src'))
import cffi
assert os.path.abspath(cffi.__file__).startswith(os.path.abspath(root)), cffi.__file__
from cffi import recompiler
corpus = json.load(open(sys.argv[2]))
out = {}
ffis_all = {}
for item in corpus:
    try:
        ffi = cffi.FFI()
        for inc in item.get('include', []):
            ffi.include(ffis_all[inc])
        ffi.cdef(item['cdef'], **item.get('cdef_kw', {}))
        if item.get('embedding'):
            ffi.embedding_api(item['embedding'])
            ffi.embedding_init_code("pass")
        src = item.get('prelude')
        ffi.set_source(item['name'], src)
        f = io.StringIO()
        if src is None:
            recompiler.Recompiler(ffi, item['name'], target_is_python=True)
            r = recompiler.Recompiler(ffi, item['name'], target_is_python=True)
            r.collect_type_table(); r.collect_step_tables(); r.write_source_to_f(f, src)
        else:
            r = recompiler.Recompiler(ffi, item['name'])
            r.collect_type_table(); r.collect_step_tables(); r.write_source_to_f(f, src)
        out[item['name']] = {'text': f.getvalue()}
        ffis_all[item['name']] = ffi
    except Exception as e:
        out[item['name']] = {'error': '%s: %s' % (type(e).__name__, e)}
json.dump(out, sys.stdout)
'''


def load_corpus():
    p = os.path.join(CORPUS_DIR, 'corpus.json')
    with open(p) as f:
        return json.load(f)


_generated = {}


def generated(root=None):
    """{name: generated text} for the probe corpus, produced by the working tree's generator"""
    root = root or repo_root()
    if root in _generated:
        return _generated[root]
    h = hashlib.sha256()
    d = os.path.join(root, 'src/cffi')
    for fn in sorted(os.listdir(d)):
        if fn.endswith('.py'):
            with open(os.path.join(d, fn), 'rb') as f:
                h.update(fn.encode() + f.read())
    with open(os.path.join(CORPUS_DIR, 'corpus.json'), 'rb') as f:
        h.update(f.read())
    h.update(DRIVER.encode())
    key = h.hexdigest()[:24]
    cpath = os.path.join(CACHE, 'gen-%s.json' % key)
    if root == '/repo' and os.path.exists(cpath):
        with open(cpath) as f:
            _generated[root] = json.load(f)
        return _generated[root]
    env = dict(os.environ)
    env.pop('PYTHONPATH', None)
    env['PYTHONDONTWRITEBYTECODE'] = '1'
    p = subprocess.run([sys.executable, '-c', DRIVER, root, os.path.join(CORPUS_DIR, 'corpus.json')],
                       capture_output=True, text=True, env=env, cwd='/')
    if p.returncode != 0:
        raise AnalysisError('the generator of the working tree could not be run on the probe corpus: %s'
                            % p.stderr[-600:])
    res = json.loads(p.stdout)
    for name, r in res.items():
        if 'error' in r:
            raise AnalysisError('generator failed on probe %r: %s' % (name, r['error']))
    out = {k: v['text'] for k, v in res.items()}
    if root == '/repo':
        os.makedirs(CACHE, exist_ok=True)
        for f in os.listdir(CACHE):
            if f.startswith('gen-'):
                try:
                    os.unlink(os.path.join(CACHE, f))
                except OSError:
                    pass
        with open(cpath, 'w') as f:
            json.dump(out, f)
    _generated[root] = out
    return out


_gtu = {}


def gen_tu(name, root=None):
    """clang AST of the generated C of one probe (API mode)"""
    root = root or repo_root()
    key = (root, name)
    if key not in _gtu:
        text = generated(root)[name]
        flags = ['-I' + os.path.join(root, 'src/cffi'), '-I' + py_include(), '-DNDEBUG']
        _gtu[key] = parse_tu(text, flags, root=root, is_text=True, tag='gen_' + name,
                             virtual_name='%s.c' % name,
                             keep_files=None)
    return _gtu[key]


def api_probes():
    return [c['name'] for c in load_corpus() if c.get('prelude') is not None]


def abi_probes():
    return [c['name'] for c in load_corpus() if c.get('prelude') is None]
