#!/usr/bin/env python3
"""Run every registered check (quick and thorough commands of MANIFEST.json) on the current tree; print a one-line summary each."""
import json
import os
import subprocess
import sys
import time

VERIF = os.path.dirname(os.path.dirname(os.path.abspath(__file__)))
man = json.load(open(os.path.join(VERIF, 'MANIFEST.json')))
bad = 0
for c in man['checks']:
    for tier in ('quick_cmd', 'thorough_cmd'):
        t = time.time()
        r = subprocess.run(c[tier], shell=True, cwd=VERIF, capture_output=True, text=True)
        viol = [l for l in r.stdout.splitlines() if l.startswith('VIOLATION')]
        known = sum(1 for l in r.stdout.splitlines() if l.startswith('KNOWN-FINDING'))
        ok = r.returncode == 0 and not viol
        bad += 0 if ok else 1
        print('%-4s %-8s rc=%d %5.1fs known=%d %s' % (c['property_id'], tier[:-4], r.returncode, time.time() - t, known, '' if ok else 'NOT CLEAN'))
print('%d runs not clean' % bad)
sys.exit(1 if bad else 0)
