#!/usr/bin/env python3
"""Regenerates /verif/MANIFEST.json from the claim table below and validates it."""
import json
import os
import sys

HERE = os.path.dirname(os.path.dirname(os.path.abspath(__file__)))

# property -> (technique, level text, level note, DESIGN section)
CLAIMED = {}
NA = {}


def claim(pid, technique, text, note):
    CLAIMED[pid] = (technique, text, note)


def na(pid, reason):
    NA[pid] = reason


exec(open(os.path.join(HERE, 'tools', 'claims.py')).read())


def main():
    props = [json.loads(l)['id'] for l in open(os.path.join(HERE, 'properties.jsonl'))]
    checks = []
    not_app = []
    for pid in props:
        if pid in CLAIMED:
            tech, text, note = CLAIMED[pid]
            checks.append({
                'property_id': pid,
                'quick_cmd': './check %s --tier quick' % pid,
                'thorough_cmd': './check %s --tier thorough' % pid,
                'evidence_file': 'evidence/%s.json' % pid,
                'replay_cmd_template': './check %s --replay {path}' % pid,
                'engine': 'sa',
                'level_claimed': {'category': 'other', 'text': text, 'design_ref': 'DESIGN.md §3 %s' % pid},
                'level_note': note,
                'technique': tech,
            })
        else:
            not_app.append({'property_id': pid, 'reason': NA.get(pid, 'designed in DESIGN.md §3, checker not completed yet')})
    man = {
        'version': 1,
        'setup_cmd': 'true',
        'hooks': {
            'guard': 'PYTHON_CFFI_CFFI_VERIF',
            'enable': 'none needed: static analysis reads the sources of /repo; no instrumentation is compiled in',
            'baseline_off_cmd': 'cd /repo && /venv/bin/python -m pytest -ra -q -p no:cacheprovider --timeout=900 --continue-on-collection-errors',
            'source_commits': [],
            'add_only': True,
        },
        'engines': [{
            'name': 'sa',
            'path': 'sa/',
            'serves_properties': sorted(CLAIMED),
            'kind_free_text': 'repository-specific static analyser: clang JSON AST + statement CFG with path queries for the C '
                              'backend and shipped headers, Python ast for the cffi package, cross-table extraction, '
                              'compile-only _Static_assert witnesses, clang AST of generated C for a probe corpus',
        }],
        'checks': checks,
        'not_applicable': not_app,
        'notes': 'Static analysis only (see DESIGN.md). Each claimed check decides the structural clauses named in its '
                 'level text, not the whole behaviour; known genuine defects are in known_findings.json.',
    }
    with open(os.path.join(HERE, 'MANIFEST.json'), 'w') as f:
        json.dump(man, f, indent=1)
    try:
        import jsonschema
        jsonschema.validate(man, json.load(open('/root/.vp/MANIFEST.schema.json')))
        print('MANIFEST valid: %d claimed, %d not applicable' % (len(checks), len(not_app)))
    except ImportError:
        print('MANIFEST written (jsonschema not available to validate)')


if __name__ == '__main__':
    main()
