#!/venv/bin/python
"""Robustness experiment (not a registered check): rename the local variables of every function a checker
anchors obligations in, one function per variant, and run that property's check on the scratch copy.  A rename
of locals never changes behaviour, so the only acceptable verdict is exit 0.  Exit 1 is a false alarm waiting
to happen, exit 2 a rule that loses its anchor.

usage: tools/renametest.py [PROPERTY ...] [-j N] [--json out.json]
"""
import argparse
import ast
import concurrent.futures
import json
import os
import re
import subprocess
import sys
import sysconfig

VERIF = os.path.dirname(os.path.dirname(os.path.abspath(__file__)))
sys.path.insert(0, VERIF)
sys.path.insert(0, os.path.join(VERIF, 'selftest'))
import run as st          # noqa: E402

C_FILES = ['src/c/_cffi_backend.c', 'src/c/cdlopen.c', 'src/c/cffi1_module.c', 'src/c/cglob.c', 'src/c/call_python.c', 'src/c/ffi_obj.c', 'src/c/lib_obj.c',
           'src/c/parse_c_type.c', 'src/c/realize_c_type.c', 'src/c/misc_thread_common.h', 'src/c/misc_thread_posix.h', 'src/c/minibuffer.h', 'src/c/file_emulator.h',
           'src/c/wchar_helper.h', 'src/c/wchar_helper_3.h', 'src/c/commontypes.c', 'src/cffi/_cffi_include.h', 'src/cffi/_embedding.h', 'src/cffi/_cffi_errors.h']
C_KEYWORDS = set('auto break case char const continue default do double else enum extern float for goto if inline int long register restrict return short signed sizeof static struct switch typedef union unsigned void volatile while'.split())


def c_function_extent(text, name):
    m = re.search(r'^(?:static\s+)?(?:[\w\*\s]+?\s+\**)?%s\s*\(' % re.escape(name), text, re.M)
    # cffi style: name at column 0
    m = re.search(r'^%s\s*\(' % re.escape(name), text, re.M) or m
    if not m:
        return None
    start = m.start()
    body = text.find('\n{', start)
    if body < 0:
        return None
    if ';' in text[start:body]:
        return None             # a prototype
    end = text.find('\n}', body)
    if end < 0:
        return None
    return start, end + 2


def c_locals(src):
    """identifiers declared in the function text: parameters and block-scope variables (approximation from the text: an identifier
    followed by , ; = ) [ and preceded by a type-looking token); the compile check weeds out mistakes"""
    names = set()
    sig_end = src.find('\n{')
    sig = src[:sig_end]
    inner = sig[sig.find('(') + 1:sig.rfind(')')]
    for part in inner.split(','):
        m = re.search(r'([A-Za-z_]\w*)\s*(?:\[[^\]]*\])?\s*$', part.strip())
        if m and m.group(1) not in C_KEYWORDS and part.strip() not in ('void', '...'):
            names.add(m.group(1))
    for m in re.finditer(r'^\s+(?:(?:const|unsigned|signed|struct|union|enum|static|volatile|register)\s+)*[A-Za-z_]\w*(?:\s+[A-Za-z_]\w*)?[\s\*]+([^;(){}]*);', src[sig_end:], re.M):
        decl = m.group(0)
        if re.match(r'\s+(return|goto|else|case|break|continue)\b', decl):
            continue
        head = re.match(r'^\s+((?:(?:const|unsigned|signed|struct|union|enum|static|volatile|register)\s+)*[A-Za-z_]\w*(?:\s+(?!\*)[A-Za-z_]\w*)??)[\s\*]+(?=[A-Za-z_])', decl)
        if not head:
            continue
        rest = decl[head.end():]
        depth = 0
        cur = ''
        parts = []
        for ch in rest:
            if ch in '([{':
                depth += 1
            elif ch in ')]}':
                depth -= 1
            if ch == ',' and depth == 0:
                parts.append(cur)
                cur = ''
            else:
                cur += ch
        parts.append(cur)
        for p_ in parts:
            mm = re.match(r'\s*\**\s*([A-Za-z_]\w*)', p_)
            if mm and mm.group(1) not in C_KEYWORDS:
                names.add(mm.group(1))
    return names


TRANSFORM = 'rename'


def _code_pieces(src):
    return re.split(r'("(?:[^"\\\n]|\\.)*"|\'(?:[^\'\\\n]|\\.)*\'|/\*.*?\*/|//[^\n]*)', src, flags=re.S)


def transform_c(src, kind):
    """behaviour-preserving rewrites of one function's text (code pieces only)"""
    pieces = _code_pieces(src)
    for i in range(0, len(pieces), 2):
        t = pieces[i]
        if kind == 'nullstyle':
            t = re.sub(r'== NULL\b', '== 0', t)
            t = re.sub(r'!= NULL\b', '!= 0', t)
        elif kind == 'incr':
            t = re.sub(r'(?<![\w)\]])(\b[A-Za-z_]\w*)\+\+(?=\s*[;)])', r'\1 += 1', t)
            t = re.sub(r'(?<![\w)\]])(\b[A-Za-z_]\w*)--(?=\s*[;)])', r'\1 -= 1', t)
        elif kind == 'noop':
            pass
        elif kind == 'declsplit':
            # `    T x = expr;` at any depth -> `    T x;\n    x = expr;` for simple scalar/pointer declarations of one variable
            def rep(m):
                ind, ty, stars, var, expr = m.group(1), m.group(2), m.group(3), m.group(4), m.group(5)
                if ty.split()[0] in ('return', 'goto', 'else', 'case', 'static', 'const') or 'const' in ty.split() or '{' in expr or 'static' in ty.split():
                    return m.group(0)
                return '%s%s %s%s;\n%s%s = %s;' % (ind, ty, stars, var, ind, var, expr)
            t = re.sub(r'^([ \t]+)((?:unsigned |signed |struct |union |enum )?[A-Za-z_]\w*(?: long| int| char)*) (\**)([A-Za-z_]\w*) = ([^;{}\n]+);[ \t]*$', rep, t, flags=re.M)
        pieces[i] = t
    return ''.join(pieces)


def rename_c(root, relfile, name):
    p = os.path.join(root, relfile)
    text = open(p, encoding='utf8', errors='replace').read()
    ext = c_function_extent(text, name)
    if not ext:
        return None
    src = text[ext[0]:ext[1]]
    if TRANSFORM == 'noop':
        # an extra statement that does nothing, after the last declaration-free point: the start of the body
        i = src.find('\n{') + 2
        decl_end = i
        for m in re.finditer(r'\n', src[i:]):
            line = src[i + m.start() + 1: src.find('\n', i + m.start() + 1)]
            if re.match(r'^\s+[A-Za-z_][\w\s\*]*[\s\*][A-Za-z_]\w*(\[[^\]]*\])?(\s*=[^;]*)?(,\s*\**[A-Za-z_]\w*(\s*=[^;]*)?)*;\s*$', line) and not re.match(r'^\s+(return|goto|break|continue)\b', line):
                decl_end = src.find('\n', i + m.start() + 1)
            elif line.strip():
                break
        out = src[:decl_end] + '\n    (void)0;   /* nothing */' + src[decl_end:]
        return {'file': relfile, 'old': src, 'new': out}, ['noop']
    if TRANSFORM != 'rename':
        out = transform_c(src, TRANSFORM)
        if out == src:
            return None
        return {'file': relfile, 'old': src, 'new': out}, [TRANSFORM]
    names = c_locals(src) - {name}
    if not names:
        return None
    # rename in code only: string and character literals and comments are kept as they are
    pieces = re.split(r'("(?:[^"\\\n]|\\.)*"|\'(?:[^\'\\\n]|\\.)*\'|/\*.*?\*/|//[^\n]*)', src, flags=re.S)
    for i in range(0, len(pieces), 2):
        for n in sorted(names, key=len, reverse=True):
            pieces[i] = re.sub(r'(?<![\w.])(?<!->)%s(?!\w)' % re.escape(n), n + '_rn', pieces[i])
    out = ''.join(pieces)
    # the function's own name must stay
    out = re.sub(r'^%s_rn\s*\(' % re.escape(name), name + '(', out, flags=re.M)
    if out == src:
        return None
    return {'file': relfile, 'old': src, 'new': out}, sorted(names)


def py_find(tree, qual):
    parts = qual.split('.')
    node = tree
    for part in parts:
        nxt = None
        for ch in ast.walk(node) if node is tree else ast.iter_child_nodes(node):
            if isinstance(ch, (ast.FunctionDef, ast.ClassDef)) and ch.name == part:
                nxt = ch
                break
        if nxt is None and node is not tree:
            for ch in ast.walk(node):
                if isinstance(ch, (ast.FunctionDef, ast.ClassDef)) and ch.name == part and ch is not node:
                    nxt = ch
                    break
        if nxt is None:
            return None
        node = nxt
    return node if isinstance(node, ast.FunctionDef) else None


def rename_py(root, relfile, qual):
    p = os.path.join(root, relfile)
    text = open(p, encoding='utf8').read()
    tree = ast.parse(text)
    fn = py_find(tree, qual)
    if fn is None:
        return None
    params = {a.arg for a in fn.args.args + fn.args.kwonlyargs + fn.args.posonlyargs} | ({fn.args.vararg.arg} if fn.args.vararg else set()) | ({fn.args.kwarg.arg} if fn.args.kwarg else set())
    stored, banned = set(), set()
    for n in ast.walk(fn):
        if isinstance(n, ast.Name) and isinstance(n.ctx, (ast.Store, ast.Del)):
            stored.add(n.id)
        elif isinstance(n, (ast.Global, ast.Nonlocal)):
            banned.update(n.names)
        elif isinstance(n, (ast.FunctionDef, ast.ClassDef)) and n is not fn:
            banned.add(n.name)
            if isinstance(n, ast.FunctionDef):
                for a in n.args.args + n.args.kwonlyargs + n.args.posonlyargs + ([n.args.vararg] if n.args.vararg else []) + ([n.args.kwarg] if n.args.kwarg else []):
                    banned.add(a.arg)
        elif isinstance(n, ast.Lambda):
            for a in n.args.args + ([n.args.vararg] if n.args.vararg else []):
                banned.add(a.arg)
        elif isinstance(n, (ast.ListComp, ast.SetComp, ast.DictComp, ast.GeneratorExp)):
            pass
        elif isinstance(n, ast.ExceptHandler) and n.name:
            banned.add(n.name)
        elif isinstance(n, (ast.Import, ast.ImportFrom)):
            for al in n.names:
                banned.add((al.asname or al.name).split('.')[0])
    names = stored - params - banned
    if not names:
        return None
    lines = text.split('\n')
    spots = []
    for n in ast.walk(fn):
        if isinstance(n, ast.Name) and n.id in names:
            spots.append((n.lineno, n.col_offset, n.id))
    for ln, col, nid in sorted(set(spots), reverse=True):
        line = lines[ln - 1]
        # col_offset is in utf8 bytes; the sources are ascii where it matters
        if line[col:col + len(nid)] != nid:
            return None
        lines[ln - 1] = line[:col] + nid + '_rn' + line[col + len(nid):]
    old = '\n'.join(text.split('\n')[fn.lineno - 1:fn.end_lineno])
    new = '\n'.join(lines[fn.lineno - 1:fn.end_lineno])
    if old == new or text.count(old) != 1:
        return None
    return {'file': relfile, 'old': old, 'new': new}, sorted(names)


def noop_py(root, relfile, qual):
    """a docstring (if there is none) and a `pass` as first statements of the function"""
    p = os.path.join(root, relfile)
    text = open(p, encoding='utf8').read()
    tree = ast.parse(text)
    fn = py_find(tree, qual)
    if fn is None or not fn.body:
        return None
    lines = text.split('\n')
    first = fn.body[0]
    has_doc = isinstance(first, ast.Expr) and isinstance(first.value, ast.Constant) and isinstance(first.value.value, str)
    at = (first.end_lineno if has_doc else first.lineno - 1)
    if first.lineno == fn.lineno:
        return None                 # one-line def
    ind = re.match(r'^(\s*)', lines[first.lineno - 1]).group(1)
    ins = ([] if has_doc else [ind + '"""(documentation added)"""']) + [ind + 'pass']
    old = '\n'.join(lines[fn.lineno - 1:fn.end_lineno])
    new_lines = lines[:at] + ins + lines[at:]
    new = '\n'.join(new_lines[fn.lineno - 1:fn.end_lineno + len(ins)])
    if text.count(old) != 1:
        return None
    return {'file': relfile, 'old': old, 'new': new}


def candidates(pid):
    ev = json.load(open(os.path.join(VERIF, 'evidence', '%s.json' % pid)))
    names = set()
    for f in ev['coverage'].get('functions', []):
        for tok in re.findall(r'[A-Za-z_][\w\.]*', f):
            names.add(tok)
    return sorted(names)


def locate(names):
    """-> list of (kind, relfile, name)"""
    out = []
    ctext = {f: open(os.path.join('/repo', f), encoding='utf8', errors='replace').read() for f in C_FILES if os.path.exists(os.path.join('/repo', f))}
    pys = {}
    for fn in sorted(os.listdir('/repo/src/cffi')):
        if fn.endswith('.py'):
            pys['src/cffi/' + fn] = ast.parse(open('/repo/src/cffi/' + fn, encoding='utf8').read())
    for n in names:
        if '.' not in n:
            for f, t in ctext.items():
                if c_function_extent(t, n):
                    out.append(('c', f, n))
                    break
        for f, tree in pys.items():
            if py_find(tree, n) is not None and (('.' in n) or any(isinstance(x, ast.FunctionDef) and x.name == n for x in tree.body)):
                out.append(('py', f, n))
                break
    return out


def compiles(root, relfile):
    if relfile.endswith('.py'):
        return subprocess.run([sys.executable, '-m', 'py_compile', os.path.join(root, relfile)], capture_output=True).returncode == 0
    inc = sysconfig.get_paths()['include']
    if relfile.startswith('src/cffi/'):
        src = '#include <Python.h>\n#include "%s"\n' % os.path.join(root, relfile)
        r = subprocess.run(['gcc', '-fsyntax-only', '-w', '-I' + inc, '-I' + os.path.join(root, 'src/cffi'), '-x', 'c', '-'], input=src, capture_output=True, text=True)
        return r.returncode == 0
    r = subprocess.run(['gcc', '-fsyntax-only', '-w', '-I' + inc, '-I' + os.path.join(root, 'src/c'), '-DFFI_BUILDING=1', '-DUSE__THREAD', '-DHAVE_SYNC_SYNCHRONIZE',
                        os.path.join(root, 'src/c/_cffi_backend.c')], capture_output=True, text=True)
    return r.returncode == 0


def one(job):
    pid, kind, relfile, name = job
    import shutil
    import tempfile
    tmp = tempfile.mkdtemp(prefix='verif-rn-', dir='/var/tmp')
    try:
        root = os.path.join(tmp, 'repo')
        os.makedirs(root)
        shutil.copytree('/repo/src', os.path.join(root, 'src'), ignore=shutil.ignore_patterns('*.so', '__pycache__', '*.pyc', 'libffi_*'))
        for fn in os.listdir('/repo'):
            if os.path.isfile(os.path.join('/repo', fn)) and not fn.startswith('.'):
                shutil.copy2(os.path.join('/repo', fn), os.path.join(root, fn))
        if kind == 'py' and TRANSFORM == 'noop':
            r = noop_py(root, relfile, name)
            if r is None:
                return job, 'skip', 'nothing to do', ''
            err = st.apply_edits(root, [r])
            if err:
                return job, 'skip', err, ''
            if not compiles(root, relfile):
                return job, 'skip', 'does not compile', ''
            env = dict(os.environ, VERIF_REPO=root, VERIF_EVIDENCE_DIR=os.path.join(tmp, 'ev'))
            rr = subprocess.run([os.path.join(VERIF, 'check'), pid], capture_output=True, text=True, env=env)
            out = rr.stdout + rr.stderr
            rules = sorted(set(re.findall(r'rule=(\S+)', out)))
            errs = [l for l in out.splitlines() if 'ANALYSIS' in l][:2]
            return job, {0: 'ok', 1: 'FALSE-ALARM', 2: 'LOST-ANCHOR'}.get(rr.returncode, 'rc%d' % rr.returncode), 'noop', '; '.join(rules + errs)[:300]
        if kind == 'py' and TRANSFORM != 'rename':
            return job, 'skip', 'C-only transform', ''
        r = (rename_c if kind == 'c' else rename_py)(root, relfile, name)
        if r is None:
            return job, 'skip', 'nothing to rename', ''
        edit, names = r
        err = st.apply_edits(root, [edit])
        if err:
            return job, 'skip', err, ''
        if not compiles(root, relfile):
            return job, 'skip', 'renamed text does not compile (a macro uses the names)', ''
        env = dict(os.environ, VERIF_REPO=root, VERIF_EVIDENCE_DIR=os.path.join(tmp, 'ev'))
        rr = subprocess.run([os.path.join(VERIF, 'check'), pid], capture_output=True, text=True, env=env)
        out = rr.stdout + rr.stderr
        rules = sorted(set(re.findall(r'rule=(\S+)', out)))
        errs = [l for l in out.splitlines() if 'ANALYSIS' in l][:2]
        return job, {0: 'ok', 1: 'FALSE-ALARM', 2: 'LOST-ANCHOR'}.get(rr.returncode, 'rc%d' % rr.returncode), ', '.join(names)[:100], '; '.join(rules + errs)[:300]
    finally:
        shutil.rmtree(tmp, ignore_errors=True)


def main():
    ap = argparse.ArgumentParser()
    ap.add_argument('props', nargs='*')
    ap.add_argument('-j', type=int, default=12)
    ap.add_argument('--json')
    ap.add_argument('--transform', default='rename', choices=['rename', 'nullstyle', 'incr', 'declsplit', 'noop'])
    a = ap.parse_args()
    global TRANSFORM
    TRANSFORM = a.transform
    props = [p.upper() for p in a.props] or ['C%02d' % i for i in range(1, 38)]
    jobs = []
    for pid in props:
        for kind, relfile, name in locate(candidates(pid)):
            jobs.append((pid, kind, relfile, name))
    res = []
    bad = 0
    with concurrent.futures.ThreadPoolExecutor(max_workers=a.j) as ex:
        for job, verdict, info, detail in ex.map(one, jobs):
            print('%-4s %-3s %-36s %-12s %s %s' % (job[0], job[1], job[3], verdict, info if verdict == 'skip' else '', detail))
            sys.stdout.flush()
            res.append({'property': job[0], 'kind': job[1], 'file': job[2], 'function': job[3], 'verdict': verdict, 'detail': detail})
            if verdict not in ('ok', 'skip'):
                bad += 1
    print('%d variants, %d ok, %d skipped, %d not ok' % (len(res), sum(r['verdict'] == 'ok' for r in res), sum(r['verdict'] == 'skip' for r in res), bad))
    if a.json:
        json.dump(res, open(a.json, 'w'), indent=1)
    return 0


if __name__ == '__main__':
    sys.exit(main())
