#!/usr/bin/env python3
"""Verify one independently seeded change and record it under /verif/seeded/.

usage: tools/seedverify.py <PROP> <N> [--tests "file1 file2 ..."] [--keep-if-uncaught]
 1. in the scratch worktree /tmp/seed/wt_<PROP>: the patch applies, builds, the demo exits 1 with it
    and 0 without it, the given test files pass with it;
 2. in /repo: apply the patch, run every registered quick check, undo the patch at once;
 3. store patch.diff, demo.py, notes.md, meta.json under /verif/seeded/<PROP>-<N>/.
"""
import argparse
import json
import os
import shutil
import subprocess
import sys

VERIF = os.path.dirname(os.path.dirname(os.path.abspath(__file__)))


def sh(cmd, cwd=None, env=None, timeout=1800):
    p = subprocess.run(cmd, shell=True, cwd=cwd, env=env, capture_output=True, text=True, timeout=timeout)
    return p.returncode, (p.stdout + p.stderr)


def run_checks(patch, pid, n):
    """apply the patch to /repo, run every registered quick check, undo the patch at once"""
    rc, o = sh('git status --porcelain', cwd='/repo')
    if o.strip():
        print('/repo is not clean; refusing', o)
        return None
    caught = {}
    try:
        rc, o = sh('git apply %s' % patch, cwd='/repo')
        if rc != 0:
            rc, o = sh('patch -p1 -s --no-backup-if-mismatch < %s' % patch, cwd='/repo')
        if rc != 0:
            print('patch does not apply to /repo', o)
            return None
        man = json.load(open(os.path.join(VERIF, 'MANIFEST.json')))
        evdir = '/var/tmp/seed-ev-%s-%s' % (pid, n)
        for c in man['checks']:
            p = c['property_id']
            r, oo = sh(c['quick_cmd'], cwd=VERIF, env=dict(os.environ, VERIF_EVIDENCE_DIR=evdir), timeout=600)
            if r != 0:
                rules = sorted({l.split('rule=')[1].split()[0] for l in oo.splitlines() if 'violated: rule=' in l})
                caught[p] = {'rc': r, 'rules': rules, 'tail': [l for l in oo.splitlines() if 'ANALYSIS' in l][:2]}
        shutil.rmtree(evdir, ignore_errors=True)
    finally:
        sh('git checkout -- .', cwd='/repo')
        sh('git clean -fdq src testing', cwd='/repo')
    return caught


def main():
    ap = argparse.ArgumentParser()
    ap.add_argument('prop')
    ap.add_argument('n')
    ap.add_argument('--tests', default='')
    ap.add_argument('--needs', default='')
    ap.add_argument('--recheck', action='store_true', help='only re-run the checks on the stored patch and update caught_by')
    a = ap.parse_args()
    pid, n = a.prop.upper(), a.n
    if a.recheck:
        d = os.path.join(VERIF, 'seeded', '%s-%s' % (pid, n))
        meta = json.load(open(os.path.join(d, 'meta.json')))
        cb = run_checks(os.path.join(d, 'patch.diff'), pid, n)
        if cb is None:
            return 2
        meta['caught_by'] = cb
        json.dump(meta, open(os.path.join(d, 'meta.json'), 'w'), indent=1)
        print('%s-%s caught by:' % (pid, n), {k: v['rules'] or v['tail'] for k, v in meta['caught_by'].items()})
        return 0
    wt = '/tmp/seed/wt_%s' % pid
    out = '/tmp/seed/out_%s' % pid
    patch = os.path.join(out, 'change%s.diff' % n)
    demo = os.path.join(out, 'demo%s.py' % n)
    notes = os.path.join(out, 'notes%s.md' % n)
    for f in (patch, demo):
        if not os.path.exists(f):
            print('missing', f)
            return 2
    env = dict(os.environ, PYTHONPATH=os.path.join(wt, 'src'))
    res = {'property': pid, 'n': n}
    sh('git checkout -- .', cwd=wt)
    rc, o = sh('git apply --check %s' % patch, cwd=wt)
    if rc != 0:
        print('patch does not apply:', o)
        return 2
    touched = [l[6:].strip() for l in open(patch) if l.startswith('+++ b/')]
    res['files'] = touched
    needs_build = any(t.endswith(('.c', '.h')) and t.startswith('src/c') for t in touched)
    # clean state
    if needs_build:
        sh('/venv/bin/python setup.py build_ext -i -f', cwd=wt)
    rc0, o0 = sh('/venv/bin/python %s' % demo, cwd=out, env=env, timeout=900)
    res['demo_clean_rc'] = rc0
    sh('git apply %s' % patch, cwd=wt)
    if needs_build:
        rcb, ob = sh('/venv/bin/python setup.py build_ext -i -f', cwd=wt)
        res['build_rc'] = rcb
        if rcb != 0:
            print('BUILD FAILED', ob[-500:])
    rc1, o1 = sh('/venv/bin/python %s' % demo, cwd=out, env=env, timeout=900)
    res['demo_patched_rc'] = rc1
    res['demo_patched_tail'] = o1[-400:]
    if a.tests:
        rct, ot = sh('/venv/bin/python -m pytest -q -p no:cacheprovider --timeout=900 %s 2>&1 | tail -3' % a.tests, cwd=wt, env=env, timeout=3000)
        res['tests'] = a.tests
        res['tests_tail'] = ot.strip().splitlines()[-1] if ot.strip() else ''
    sh('git checkout -- .', cwd=wt)
    if needs_build:
        sh('/venv/bin/python setup.py build_ext -i -f', cwd=wt)
    caught = run_checks(patch, pid, n)
    if caught is None:
        return 2
    res['caught_by'] = caught
    res['first_run'] = ('caught' if any(v['rc'] == 1 and v['rules'] for v in caught.values()) else
                        'exit 2 only (undecided)' if caught else 'missed')
    res['needs'] = a.needs
    d = os.path.join(VERIF, 'seeded', '%s-%s' % (pid, n))
    os.makedirs(d, exist_ok=True)
    shutil.copy(patch, os.path.join(d, 'patch.diff'))
    shutil.copy(demo, os.path.join(d, 'demo.py'))
    if os.path.exists(notes):
        shutil.copy(notes, os.path.join(d, 'notes.md'))
    res['ran'] = 'applied in scratch worktree %s: demo rc clean=%s patched=%s; tests: %s; then applied to /repo, ran all quick checks, undone' % (
        wt, rc0, rc1, res.get('tests_tail'))
    json.dump(res, open(os.path.join(d, 'meta.json'), 'w'), indent=1)
    print(json.dumps(res, indent=1)[:3000])
    ok = rc0 == 0 and rc1 != 0
    print('VALID' if ok else 'INVALID (demo does not separate)', '| caught by:', {k: v['rules'] or v['tail'] for k, v in caught.items()})
    return 0


if __name__ == '__main__':
    sys.exit(main())
