# claim(pid, technique, level text, level note) / na(pid, reason) -- read by mkmanifest.py
NA_DESIGN = {
 'C01': 'layout equality with the platform compiler is a numerical property of an emulation algorithm over unbounded declarations; no sound static rule in reach (the 64-bit bit-field mask defect it names is decided under C02)',
 'C04': 'ffi.cast results are C conversion arithmetic on runtime values (modular reduction, float truncation); the only shape fact (non-strict flag) is checked under C03 R4',
 'C05': 'IEEE-754 narrowing/round-trip for every bit pattern is numerical, not visible in the shape of the code',
 'C07': 'equivalence of two independent recursive-descent parsers is a language-equivalence question; needs differential execution (another family)',
 'C08': 'round trip of ct_name_position string arithmetic on runtime names; the cross-checkable normalisation copies are not a necessary condition',
 'C09': 'operator semantics on arbitrary integers are value-level (the error behaviour of the same code is decided under C30)',
 'C10': 'choice of underlying type by value range and implicit increments are value-level',
 'C13': 'four-way differential over signatures and argument tuples; its static ingredients are decided under C03 and C22',
 'C31': 'invariance of a regex rewriting pipeline over all insertion points; no shape rule captures it',
 'C33': 'behavioural equivalence of two code generators plus two compiled artefacts',
}
for _k, _v in NA_DESIGN.items():
    na(_k, _v)

claim('C37', 'guard-dominance + typestate over clang AST/CFG; Python ast rules',
      'Decides, for every dlsym call site in the single backend TU, that a non-NULL test of the handle dominates it and that the closed branch raises; that every close of a stored handle is null-guarded and NULLs the field; that NULLing a lib handle implies clearing the attribute cache before the close result is reported; and the in-line FFILibrary close/accessor shape. All paths of the anchored functions are covered, which sampling access sequences cannot do.',
      'Trusts clang\'s AST, the CFG builder (all 15 statement kinds of the TU), and that callees do not overwrite struct fields between a guard and its use; does not decide what the dynamic loader does after dlclose.')

claim('C22', 'CFG adjacency/ordering rules (nearest-call-before/after) on backend TU, wrapper TU and clang AST of generated wrappers; TLS storage attribute',
      'Decides that the saved-errno slot is thread-local storage, that every foreign call made for the user (ffi_call, global-variable fetch, every generated _cffi_f_* wrapper of the probe corpus) has restore_errno as nearest effectful call before and save_errno as nearest after inside the GIL-released region, that callback entry points save first/restore last on all paths, the getter/setter ordering, export slots 13/14, and the embedding trampoline. Thread-locality for all interleavings follows from the storage class, which no schedule sampling can establish.',
      'Assumes errno can only change through a call between two statements; generated wrappers are checked for the probe corpus (every integer/pointer/struct/void signature kind), not for every possible cdef; schedules are not explored.')

claim('C02', 'sparse conditional constant propagation with a known-bits (per-bit boolean function) domain over the accessor CFGs, at every point of a guard-derived finite lattice; CFG dominance for the reject path',
      'Decides the mask, range-constant, shift-safety and masked-merge clauses of both bit-field accessors for every (signedness, storage size, width, shift) the struct builder admits — the lattice is derived by evaluating the builder\'s own dominating guards and must equal 1..8*size — plus a store-free OverflowError reject path and the routing of shifted fields to the accessors. Exhaustive over widths (all 1..64) and, in the thorough tier, over all shifts: the full-width 64-bit defect was found this way and repaired (fix: 560e916).',
      'Does not decide the arithmetic sign-extension identity of the signed read (outside the bit domain), agreement with compiled C accessors, or the MSVC layout branch; assumes LP64 little-endian and wrapping signed arithmetic; a full-width field delegated to the plain integer conversion relies on C03.')

claim('C03', 'constant folding of dominating comparison bounds; must-pass-edge CFG queries; cross-table agreement (export slots vs macros of both headers, names and function types); folding of the sizeof/signedness dispatch on the clang AST of generated wrappers',
      'Decides that each of the eight API-mode converters accepts exactly the N-bit range (bounds recovered from the facts dominating `return tmp`), the _Bool converter exactly {0,1}; that every integer store through `data` in convert_from_object is reachable only past the round-trip comparison of matching signedness (or the _Bool test) whose firing side raises OverflowError and stores nothing; strict-flag literals per caller; slot-by-slot agreement of cffi_exports[] with _cffi_include.h and the verify() header; that _cffi_to_c_int/_cffi_from_c_int fold to the converter of the argument type for every generated wrapper argument of the probe corpus, each followed by the error test; and that the callback result widening is dominated by the range check. Finite and exhaustive over converters, slots and type names.',
      'Does not decide that read-back returns v (memcpy semantics assumed), nor stores through dlsym-ed global addresses separately; generated code is checked for the probe corpus (all standard and stdint integer types).')

claim('C18', 'type-resolved selector/reader table comparison inside one function (dominating facts of each casenum assignment vs. the case body), CFG must-follow for the cursor',
      'Decides, for all twelve fast-path numbers of b_unpack, that the selector (flag branch + itemsize == sizeof(X)) and the reader (*(Y *)src + CPython constructor) agree in size and signedness, that the constructor parameter can hold every Y (including the ordering argument for unsigned int), that numeric fast paths are only chosen under the alignment test, that _Bool bytes other than 0/1 and the default go through convert_to_object, that the pointer fast path is the call convert_to_object makes, and that every iteration advances the cursor by itemsize. The table is finite and enumerated completely.',
      'Does not decide equality of the produced Python objects beyond type agreement; LP64 sizes.')

claim('C17', 'sibling-function agreement on the clang AST/CFG (classification mask folded, operator table, delegation arguments)',
      'Decides that cdata_richcompare and cdata_hash split on the same folded ct_flags mask, that the address class compares v->c_data with w->c_data using the C operator matching each of the six Py_LT..Py_GE constants and hashes the pointer of the same field, that the primitive class converts through convert_to_object(x->c_data, x->c_type) and delegates to PyObject_RichCompare with unchanged operands/op and to PyObject_Hash, and that mixed pairs return NotImplemented.',
      'Relies on CPython\'s own consistency of == and hash for numbers/bytes/str; values of Py_LT..Py_GE as in object.h.')

claim('C06', 'cross-table extraction and comparison (clang AST initialisers/macros, Python ast literals), return-site consistency analysis with dominating facts, compile-only _Static_assert witnesses with a failing twin (gcc; clang too in thorough)',
      'Decides, exhaustively over the finite set of primitive names, that the header and cffi_opcode.py number primitives/opcodes/flags identically, that PRIMITIVE_TO_INDEX and primitive_name[] are inverse, that PRIMITIVE_TO_INDEX, ALL_PRIMITIVE_TYPES and the rows of new_primitive_type have the same names once each, that every return site of search_standard_typename is consistent with exactly the one name of its index (length, literal, dispatch characters) and every _t name has one site, that model kinds match backend flag classes, that the keyword/modifier switches of the C parser name the right primitive, and — by compile-time assertions nothing runs — that each exported name as the platform compiler understands it has the size, alignment and signedness/kind of the type and flags its row records.',
      'The platform compiler with the standard headers is the oracle for the witness; run-time identity of ctype objects across FFIs is C27.')
