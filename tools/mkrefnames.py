#!/usr/bin/env python3
"""Regenerate sa/refnames.json (the names the reference tree gives the parameters and locals of every function
the checkers load) by running every quick check in recording mode.  Run only on a tree on which all checks pass."""
import json
import os
import subprocess
import sys
import tempfile

VERIF = os.path.dirname(os.path.dirname(os.path.abspath(__file__)))


def main():
    fd, tmp = tempfile.mkstemp(prefix='refnames-', suffix='.json', dir='/var/tmp')
    os.close(fd)
    os.unlink(tmp)
    env = dict(os.environ, VERIF_RECORD_REFNAMES=tmp, VERIF_EVIDENCE_DIR=tempfile.mkdtemp(prefix='refnames-ev-', dir='/var/tmp'))
    for i in range(1, 38):
        pid = 'C%02d' % i
        r = subprocess.run([os.path.join(VERIF, 'check'), pid], env=env, capture_output=True, text=True)
        print(pid, r.returncode)
    d = json.load(open(tmp))
    with open(os.path.join(VERIF, 'sa', 'refnames.json'), 'w') as f:
        json.dump(d, f, indent=0, sort_keys=True)
    print('functions: C %d, Python modules %d (%d functions)' % (len(d['c']), len(d['py']), sum(len(v) for v in d['py'].values())))
    os.unlink(tmp)
    import shutil
    shutil.rmtree(env['VERIF_EVIDENCE_DIR'], ignore_errors=True)


if __name__ == '__main__':
    sys.exit(main())
