#!/usr/bin/env python3
"""Regenerate seeded/INDEX.md from the meta.json of every independently seeded change."""
import glob
import json
import os

VERIF = os.path.dirname(os.path.dirname(os.path.abspath(__file__)))


def main():
    rows = []
    for d in sorted(glob.glob(os.path.join(VERIF, 'seeded', '*', 'meta.json'))):
        m = json.load(open(d))
        name = os.path.basename(os.path.dirname(d))
        now = '; '.join('%s %s' % (p, ', '.join(v['rules']) if v['rules'] else '(exit %d) %s' % (v['rc'], ' '.join(v['tail'])[:80]))
                        for p, v in sorted(m.get('caught_by', {}).items())) or 'NOT CAUGHT'
        rows.append((name, m.get('property'), ', '.join(m.get('files', [])), m.get('needs', ''), m.get('first_run', '?'), now))
    out = ['# Independently seeded changes', '',
           'Each directory holds `patch.diff` (against /repo), `demo.py` (exits 0 on the clean tree, 1 with the patch), the',
           'author\'s `notes.md` and `meta.json` (property, what the change needs to manifest, what was run to confirm it,',
           'which registered checks report it).  The authors were fresh sub-agents given only the property text and a scratch',
           'worktree; nothing from /verif.  Every change was confirmed here (`tools/seedverify.py`): the patch applies and',
           'builds, the demo separates the two trees, the relevant test files pass with it.  "first run" is the verdict of the',
           'checks as they were when the change arrived; "now" after strengthening.  Every caught change is replayed as a',
           'mutant by `selftest/run.py`.', '',
           '| id | given property | touches | needs | first run | now reported by |', '|---|---|---|---|---|---|']
    for r in rows:
        out.append('| %s | %s | %s | %s | %s | %s |' % r)
    n = len(rows)
    first = sum(1 for r in rows if r[4] == 'caught')
    now = sum(1 for r in rows if r[5] != 'NOT CAUGHT' and '(exit 2)' not in r[5])
    out += ['', '%d changes; %d reported (exit 1, naming a rule) on arrival, %d after strengthening.' % (n, first, now), '']
    with open(os.path.join(VERIF, 'seeded', 'INDEX.md'), 'w') as f:
        f.write('\n'.join(out))
    print('\n'.join(out[-3:]))


if __name__ == '__main__':
    main()
