#!/venv/bin/python
"""Self-test of the checkers: seeded mutants must be reported (naming the rule),
behaviour-preserving variants must stay silent.  Each variant is applied to a
scratch copy of /repo/src outside /repo and /verif, checked through VERIF_REPO,
and the copy is deleted immediately.

usage: selftest/run.py [PROPERTY ...] [-j N] [--only NAME] [--keep-going]
"""
import argparse
import concurrent.futures
import importlib
import json
import os
import re
import shutil
import subprocess
import sys
import tempfile

HERE = os.path.dirname(os.path.abspath(__file__))
VERIF = os.path.dirname(HERE)
sys.path.insert(0, VERIF)


def load_variants(props):
    out = []
    d = os.path.join(HERE, 'variants')
    for fn in sorted(os.listdir(d)):
        if not fn.endswith('.py') or fn.startswith('_'):
            continue
        pid = fn[:-3].upper()
        if props and pid not in props:
            continue
        mod = importlib.import_module('selftest.variants.%s' % fn[:-3])
        for v in mod.VARIANTS:
            v = dict(v)
            v['property'] = pid
            out.append(v)
    # independently seeded changes (see seeded/INDEX.md): every one a check catches is a permanent mutant
    sd = os.path.join(VERIF, 'seeded')
    for name in sorted(os.listdir(sd)) if os.path.isdir(sd) else []:
        mp = os.path.join(sd, name, 'meta.json')
        if not os.path.exists(mp):
            continue
        with open(mp) as f:
            meta = json.load(f)
        for pid, c in sorted((meta.get('caught_by') or {}).items()):
            if props and pid not in props:
                continue
            if c.get('rc') != 1 or not c.get('rules'):
                continue
            out.append({'name': 'seeded change %s' % name, 'expect': c['rules'][0], 'property': pid, 'edits': [],
                        'patch': os.path.join(sd, name, 'patch.diff')})
    return out


def apply_edits(root, edits):
    for e in edits:
        p = os.path.join(root, e['file'])
        with open(p, encoding='utf8') as f:
            s = f.read()
        old, new = e['old'], e['new']
        cnt = e.get('count', 1)
        if e.get('regex'):
            s2, n = re.subn(old, new, s, count=cnt or 0, flags=re.S)
        else:
            n = s.count(old)
            if n == 0:
                return 'pattern not found in %s: %r' % (e['file'], old[:60])
            if cnt and n < cnt:
                return 'pattern found %d < %d times' % (n, cnt)
            if e.get('nth') is not None:
                idx = -1
                for _ in range(e['nth'] + 1):
                    idx = s.find(old, idx + 1)
                if idx < 0:
                    return 'nth occurrence missing'
                s2 = s[:idx] + new + s[idx + len(old):]
            elif cnt == 0:
                s2 = s.replace(old, new)
            else:
                if n > 1 and not e.get('first'):
                    return 'pattern ambiguous (%d matches) in %s: %r' % (n, e['file'], old[:60])
                s2 = s.replace(old, new, 1)
        if s2 == s:
            return 'edit is a no-op in %s' % e['file']
        with open(p, 'w', encoding='utf8') as f:
            f.write(s2)
    return None


def run_one(v):
    tmp = tempfile.mkdtemp(prefix='verif-st-', dir='/var/tmp')
    try:
        root = os.path.join(tmp, 'repo')
        os.makedirs(root)
        shutil.copytree('/repo/src', os.path.join(root, 'src'),
                        ignore=shutil.ignore_patterns('*.so', '__pycache__', '*.pyc', 'libffi_*'))
        for fn in os.listdir('/repo'):
            if os.path.isfile(os.path.join('/repo', fn)) and not fn.startswith('.'):
                shutil.copy2(os.path.join('/repo', fn), os.path.join(root, fn))
        err = apply_edits(root, v['edits'])
        if not err and v.get('patch'):
            with open(v['patch']) as pf:
                r = subprocess.run(['patch', '-p1', '-s', '--no-backup-if-mismatch', '-d', root], stdin=pf, capture_output=True, text=True)
            if r.returncode != 0:
                err = 'patch does not apply: ' + (r.stdout + r.stderr)[-200:]
        if err:
            return v, 'BROKEN-VARIANT', err, ''
        if v.get('compile', True):
            # the variant must still parse/compile (syntax only): otherwise it is not a realistic change
            for e in v['edits']:
                if e['file'].endswith('.py'):
                    r = subprocess.run([sys.executable, '-m', 'py_compile', os.path.join(root, e['file'])],
                                       capture_output=True, text=True)
                    if r.returncode != 0:
                        return v, 'BROKEN-VARIANT', 'does not compile: ' + r.stderr[-300:], ''
        env = dict(os.environ, VERIF_REPO=root, VERIF_EVIDENCE_DIR=os.path.join(tmp, 'ev'))
        r = subprocess.run([os.path.join(VERIF, 'check'), v['property']], capture_output=True, text=True, env=env)
        out = r.stdout + r.stderr
        expect = v.get('expect')          # rule prefix that must be named, or None for neutral
        if expect is None:
            verdict = 'ok' if r.returncode == 0 else 'FALSE-ALARM'
        else:
            if r.returncode == 1 and ('rule=%s' % expect) in out:
                verdict = 'ok'
            elif r.returncode == 1:
                verdict = 'WRONG-RULE'
            elif r.returncode == 2:
                verdict = 'ANALYSIS-ERROR' if not v.get('expect_error') else 'ok'
            else:
                verdict = 'MISSED'
        return v, verdict, '', out
    finally:
        shutil.rmtree(tmp, ignore_errors=True)


def main():
    ap = argparse.ArgumentParser()
    ap.add_argument('props', nargs='*')
    ap.add_argument('-j', type=int, default=16)
    ap.add_argument('--only')
    ap.add_argument('-v', action='store_true')
    ap.add_argument('--json')
    a = ap.parse_args()
    vs = load_variants([p.upper() for p in a.props])
    if a.only:
        vs = [v for v in vs if a.only in v['name']]
    bad = 0
    results = []
    with concurrent.futures.ThreadPoolExecutor(max_workers=a.j) as ex:
        for v, verdict, err, out in ex.map(run_one, vs):
            kind = 'mutant ' if v.get('expect') else 'neutral'
            print('%-5s %s %-44s -> %s %s' % (v['property'], kind, v['name'], verdict, err))
            results.append({'property': v['property'], 'name': v['name'], 'kind': kind.strip(),
                            'expect': v.get('expect'), 'verdict': verdict})
            if verdict != 'ok':
                bad += 1
                if a.v or True:
                    print('      ' + '\n      '.join(out.strip().splitlines()[-12:]))
            elif a.v:
                print('      ' + '\n      '.join(l for l in out.splitlines() if 'violated' in l or 'VIOLATION' in l))
    print('%d variants, %d not as expected' % (len(vs), bad))
    if a.json:
        with open(a.json, 'w') as f:
            json.dump(results, f, indent=1)
    return 1 if bad else 0


if __name__ == '__main__':
    sys.exit(main())
